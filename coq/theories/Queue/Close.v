(* C17 / C14: the close / end-of-stream protocol of the DNS tunnel connection.
     internal/streams/dns/util/queue.go          InQueue: Close, HasData, checkQueueHasAny, waitNonEmtpyQueue, Read, Append (byte buffer only)
     internal/streams/dns/dns_client_connection.go  Read, Write, Close, SendAndReceive, the poll goroutine started by Handshake
     internal/streams/dns/dns_server_connection.go  userConnection.Read/Write/Close, closeConnection, validateAndGetUser, packet,
                                                     setOptionsRequest (Closed), the expiry sweep
   internal/streams/dns/util/queue.go          OutQueue: Close, checkQueueFull, waitEmptyQueue, closedWithData, Write (one chunk), UpdateAcked
   One in-queue and one out-queue per end; a Write that finds unacknowledged chunks in the queue PARKS in waitEmptyQueue (before queueing its
   own chunk, or after it, waiting for the acknowledgement) and is run on by the acknowledgement that empties the queue or by the Close.
   One in-queue per end; a Read that finds no data and no close PARKS (its notifier is in queueNotifiers) and is run to its end by the
   Append or the Close that wakes it. One reader per end (the net.Conn convention): a Read issued while one is parked is not modelled
   (outcome RBusy, nothing happens). Sequence numbers, acknowledgements and retransmission are Queue/Queues.v (C07); here a packet that
   Append takes is the in-order one, so Append is `in = append(in, data...)` (bridge lemma in Close_proofs.v).
   No proofs in this file: it is extracted and run against the real objects (harness ops c17q, c17p). *)
From Coq Require Import List NArith ZArith Bool Arith String.
From SA Require Import Base.Tok.
From SA Require Gen.CloseShape.
Import ListNotations.
Local Open Scope nat_scope.

(* ---- what the model takes from the source text (Gen/CloseShape.v is rewritten from /repo on every run) *)
Record shape := {
  sh_c_eof_drained : bool;    (* ClientDnsConnection.Read: end-of-stream iff  dc.Closed() && !dc.in.HasData()  *)
  sh_s_eof_drained : bool;    (* userConnection.Read:      end-of-stream iff  u.closed && !u.in.HasData()      *)
  sh_cc_closes_q : bool;      (* ClientDnsConnection.Close calls dc.in.Close() before Communicator.Close()     *)
  sh_sc_closes_q : bool;      (* closeConnection calls u.in.Close()                                            *)
  sh_sweep_closes_q : bool;   (* the expiry sweep calls u.in.Close() on the user it retires                    *)
  sh_err_identity : bool;     (* the poll loop compares with ==, and the error value of an error response (BADCONN, BADUSER: QueryWithData's
                                 `return resp, e.Err`) or of a time-out comes through SendAndReceive's `return err` as it is *)
  sh_err_identity_packet : bool;  (* the error value carried by a packet response (BADIP) comes through `return packet.Err` as it is *)
  sh_cc_closes_out : bool;    (* ClientDnsConnection.Close calls dc.out.Close() before Communicator.Close() *)
  sh_sc_closes_out : bool;    (* closeConnection calls u.out.Close()                                        *)
  sh_sweep_closes_out : bool  (* the expiry sweep calls u.out.Close() on the user it retires                *)
}.

Definition intended : shape :=
  {| sh_c_eof_drained := true; sh_s_eof_drained := true; sh_cc_closes_q := true; sh_sc_closes_q := true;
     sh_sweep_closes_q := true; sh_err_identity := true; sh_err_identity_packet := true;
     sh_cc_closes_out := true; sh_sc_closes_out := true; sh_sweep_closes_out := true |}.

Definition code_shape : shape :=
  {| sh_c_eof_drained := String.eqb Gen.CloseShape.client_read_eof_cond "dc.Closed() && !dc.in.HasData()";
     sh_s_eof_drained := String.eqb Gen.CloseShape.server_read_eof_cond "u.closed && !u.in.HasData()";
     sh_cc_closes_q := Gen.CloseShape.client_close_closes_in_queue;
     sh_sc_closes_q := Gen.CloseShape.close_connection_closes_in_queue;
     sh_sweep_closes_q := Gen.CloseShape.sweep_closes_in_queue;
     sh_err_identity := Gen.CloseShape.poll_compares_badconn_by_identity && Gen.CloseShape.sar_returns_query_errors_unwrapped
                        && Gen.CloseShape.query_returns_error_response_unwrapped;
     sh_err_identity_packet := Gen.CloseShape.poll_compares_badconn_by_identity && Gen.CloseShape.sar_returns_packet_error_unwrapped;
     (* a Close of the out-queue counts only if the queue's Close and waitEmptyQueue are the ones modelled below *)
     sh_cc_closes_out := Gen.CloseShape.client_close_closes_out_queue && Gen.CloseShape.out_queue_close_as_modelled;
     sh_sc_closes_out := Gen.CloseShape.close_connection_closes_out_queue && Gen.CloseShape.out_queue_close_as_modelled;
     sh_sweep_closes_out := Gen.CloseShape.sweep_closes_out_queue && Gen.CloseShape.out_queue_close_as_modelled |}.

(* `errCount > 5` in the poll loop *)
Definition give_up : nat := N.to_nat Gen.CloseShape.poll_give_up_above.
(* `for i := 1; i <= 5; i++` in SendAndReceive *)
Definition sar_tries : nat := N.to_nat Gen.CloseShape.sar_attempts.

(* ---- one in-queue *)
Record cq := {
  q_buf : bytes;            (* q.in *)
  q_has : bool;             (* q.queueHasData *)
  q_closed : bool;          (* q.closed *)
  q_parked : option nat;    (* the reader waiting in waitNonEmtpyQueue, with len(p) *)
  q_app : bytes;            (* ghost: every octet ever appended *)
  q_ret : bytes             (* ghost: every octet ever returned by a Read *)
}.

Definition q_new : cq := {| q_buf := []; q_has := false; q_closed := false; q_parked := None; q_app := []; q_ret := [] |}.

Definition nonempty (l : bytes) : bool := match l with [] => false | _ => true end.

Inductive rout :=
| RBytes (l : bytes)   (* (len l, nil) *)
| REof                 (* (0, io.EOF) *)
| RBlock               (* the call parks in waitNonEmtpyQueue *)
| RBusy.               (* not issued: a reader is parked on this end already *)

(* Read from the point where waitNonEmtpyQueue has returned nil *)
Definition q_take (q : cq) (n : nat) : cq * rout :=
  if negb (nonempty (q_buf q)) && q_closed q then (q, REof)     (* woken up by Close, not by data *)
  else
    let l := firstn n (q_buf q) in
    let rest := skipn n (q_buf q) in
    ({| q_buf := rest; q_has := nonempty rest (* checkQueueHasAny *); q_closed := q_closed q; q_parked := q_parked q;
        q_app := q_app q; q_ret := q_ret q ++ l |}, RBytes l).

Definition q_set_parked (q : cq) (p : option nat) : cq :=
  {| q_buf := q_buf q; q_has := q_has q; q_closed := q_closed q; q_parked := p; q_app := q_app q; q_ret := q_ret q |}.

(* InQueue.Read(p), len(p) = n *)
Definition q_read (q : cq) (n : nat) : cq * rout :=
  match q_parked q with
  | Some _ => (q, RBusy)
  | None =>
    if q_has q then q_take q n
    else if q_closed q then (q, REof)
    else (q_set_parked q (Some n), RBlock)
  end.

(* every notifier is called: the parked reader runs to its end *)
Definition q_wake (q : cq) : cq * option rout :=
  match q_parked q with
  | None => (q, None)
  | Some n => let (q', r) := q_take (q_set_parked q None) n in (q', Some r)
  end.

(* Append of the in-order packet with data d, then checkQueueHasAny *)
Definition q_append (q : cq) (d : bytes) : cq * option rout :=
  let b := q_buf q ++ d in
  let q1 := {| q_buf := b; q_has := nonempty b; q_closed := q_closed q; q_parked := q_parked q; q_app := q_app q ++ d; q_ret := q_ret q |} in
  if q_has q1 then q_wake q1 else (q1, None).

(* InQueue.Close *)
Definition q_close (q : cq) : cq * option rout :=
  q_wake {| q_buf := q_buf q; q_has := q_has q; q_closed := true; q_parked := q_parked q; q_app := q_app q; q_ret := q_ret q |}.

(* k reads of the same size one after the other *)
Fixpoint q_reads (q : cq) (n k : nat) : cq * list rout :=
  match k with
  | O => (q, [])
  | S k' => let (q1, r) := q_read q n in let (q2, rs) := q_reads q1 n k' in (q2, r :: rs)
  end.

(* ---- one out-queue (as far as waiting goes: sequence numbers and retransmission are Queue/Queues.v) *)
Definition nonempty_l {A} (l : list A) : bool := match l with [] => false | _ => true end.

(* where a Write is parked in waitEmptyQueue *)
Inductive wstage :=
| WEntry (d : bytes) (sent : option bool)   (* at the start of Write: chunks queued earlier are not acknowledged yet *)
| WFinal (n : nat).                         (* at the end of Write: its own chunk (n octets) is queued and not acknowledged yet *)

(* `sent`: what OnChunkAdded does once the chunk is queued. None: no callback (server end; the chunk waits for a poll).
   Some true: the callback sent the chunk and got it acknowledged (client end, SendAndReceive succeeded);
   Some false: the callback failed, the chunk stays queued and Write returns that error (client end). *)

Inductive wout :=
| WDone (n : nat)      (* (n, nil) *)
| WClosed (n : nat)    (* (n, os.ErrClosed) *)
| WErr (n : nat)       (* (n, the error of OnChunkAdded) *)
| WBlock (queued : bool)   (* the call parks in waitEmptyQueue; queued: its own chunk is in the queue already *)
| WBusy.               (* not issued: a writer is parked on this end already *)

Record oq := {
  o_q : list bytes;           (* q.out: chunks queued and not acknowledged *)
  o_has : bool;               (* q.queueHasData *)
  o_closed : bool;            (* q.closed *)
  o_parked : option wstage;   (* the writer waiting in waitEmptyQueue *)
  o_sent : list bytes;        (* ghost: every chunk ever queued *)
  o_ackd : list bytes         (* ghost: every chunk acknowledged *)
}.

Definition o_new : oq := {| o_q := []; o_has := false; o_closed := false; o_parked := None; o_sent := []; o_ackd := [] |}.

Definition o_set_parked (o : oq) (p : option wstage) : oq :=
  {| o_q := o_q o; o_has := o_has o; o_closed := o_closed o; o_parked := p; o_sent := o_sent o; o_ackd := o_ackd o |}.

(* addChunk, then the queueHasData flag brought up to date (checkQueueFull, by Write itself or by NextChunk inside the callback) *)
Definition o_enqueue (o : oq) (d : bytes) : oq :=
  {| o_q := o_q o ++ [d]; o_has := true; o_closed := o_closed o; o_parked := o_parked o; o_sent := o_sent o ++ [d]; o_ackd := o_ackd o |}.

(* UpdateAcked of the first chunk's number: the chunk leaves the queue; checkQueueFull *)
Definition o_dequeue (o : oq) : oq :=
  match o_q o with
  | [] => o
  | h :: r => {| o_q := r; o_has := nonempty_l r; o_closed := o_closed o; o_parked := o_parked o; o_sent := o_sent o; o_ackd := o_ackd o ++ [h] |}
  end.

(* waitEmptyQueue up to the point where it returns or parks *)
Inductive wwait := WtOk | WtClosed | WtPark.
Definition o_wait (o : oq) : wwait :=
  if negb (o_has o) then WtOk else if o_closed o then WtClosed else WtPark.

(* checkQueueFull, minus the notification *)
Definition o_check (o : oq) : oq :=
  {| o_q := o_q o; o_has := nonempty_l (o_q o); o_closed := o_closed o; o_parked := o_parked o; o_sent := o_sent o; o_ackd := o_ackd o |}.

(* the last statement of Write: return n, q.waitEmptyQueue() *)
Definition o_final (o : oq) (n : nat) : oq * wout :=
  match o_wait o with
  | WtOk => (o, WDone n)
  | WtClosed => (o, WClosed n)
  | WtPark => (o_set_parked o (Some (WFinal n)), WBlock true)
  end.

(* Write from the point where the first waitEmptyQueue has returned nil: the chunk loop (one chunk), checkQueueFull, the last wait *)
Definition o_fill (o : oq) (d : bytes) (sent : option bool) : oq * wout :=
  match d with
  | [] => o_final (o_check o) 0
  | _ =>
    let n := List.length d in
    let o1 := o_enqueue o d in
    match sent with
    | Some false => (o1, WErr n)                  (* the callback's error is returned before checkQueueFull and the last wait *)
    | Some true => o_final (o_dequeue o1) n       (* acknowledged inside the callback *)
    | None => o_final o1 n
    end
  end.

(* OutQueue.Write(d, mtu) with len(d) <= mtu *)
Definition o_write (o : oq) (d : bytes) (sent : option bool) : oq * wout :=
  match o_parked o with
  | Some _ => (o, WBusy)
  | None =>
    match o_wait o with
    | WtOk => o_fill o d sent
    | WtClosed => (o, WClosed 0)
    | WtPark => (o_set_parked o (Some (WEntry d sent)), WBlock false)
    end
  end.

(* every notifier is called: the parked writer runs on (closedWithData, then the rest of Write) *)
Definition o_wake (o : oq) : oq * option wout :=
  match o_parked o with
  | None => (o, None)
  | Some st =>
    let o0 := o_set_parked o None in
    if o_closed o0 && o_has o0 then
      (o0, Some (WClosed (match st with WFinal n => n | WEntry _ _ => 0 end)))
    else
      match st with
      | WFinal n => (o0, Some (WDone n))
      | WEntry d sent => let (o1, r) := o_fill o0 d sent in (o1, Some r)
      end
  end.

(* an acknowledgement for the first queued chunk arrives (UpdateAcked -> cleanAckedChunks -> checkQueueFull) *)
Definition o_ack (o : oq) : oq * option wout :=
  let o1 := o_dequeue o in
  if o_has o1 then (o1, None) else o_wake o1.

(* OutQueue.Close *)
Definition o_close (o : oq) : oq * option wout :=
  o_wake {| o_q := o_q o; o_has := o_has o; o_closed := true; o_parked := o_parked o; o_sent := o_sent o; o_ackd := o_ackd o |}.

(* ---- the two ends *)
Inductive slot := Live | Retired | Forgotten.   (* connections[id] = u | oldConnections[id] = u | neither *)

(* error values as the poll loop sees them: the sentinels of commands/errors.go and smux.ErrTimeout compare equal to themselves;
   every other error (errors.WithStack, errors.Wrapf, errors.New of an unknown text) is a fresh object each time *)
Inductive ev := EBadConn | EBadUser | EBadIp | ETimeout | EFresh (k : N).
Definition ev_eqb (a b : ev) : bool :=
  match a, b with
  | EBadConn, EBadConn | EBadUser, EBadUser | EBadIp, EBadIp | ETimeout, ETimeout => true
  | EFresh x, EFresh y => N.eqb x y
  | _, _ => false
  end.
Inductive xres := XOk | XErr (e : ev).

Inductive sev := SvClose | SvExpire | SvForget.
(* the fate of one exchange between the client and the server, chosen by the environment *)
Inductive fate :=
| FOk (down : bytes)   (* the query arrives from the session's own address; if the session is live the answer carries this chunk ([] = none) *)
| FTimeout             (* the query is lost: smux.ErrTimeout *)
| FNet                 (* the communicator fails with another error *)
| FOtherIp             (* the query arrives from another address *)
| FEv (e : sev).       (* not an exchange: something happens at the server before the next exchange *)

Record conn := {
  c_in : cq; c_comm : bool (* Communicator.Closed() *); c_hs : bool (* handshake done: QueryType != nil, poller running *);
  c_cnt : nat (* errCount *); c_last : option ev (* lastErr *); c_fresh : N; c_fates : list fate;
  s_in : cq; s_closed : bool (* u.closed *); s_slot : slot;
  c_out : oq; s_out : oq
}.

Definition init_conn (hs : bool) (fs : list fate) : conn :=
  {| c_in := q_new; c_comm := false; c_hs := hs; c_cnt := 0; c_last := None; c_fresh := 0%N; c_fates := fs;
     s_in := q_new; s_closed := false; s_slot := Live; c_out := o_new; s_out := o_new |}.

Definition set_cin (c : conn) (q : cq) : conn :=
  {| c_in := q; c_comm := c_comm c; c_hs := c_hs c; c_cnt := c_cnt c; c_last := c_last c; c_fresh := c_fresh c; c_fates := c_fates c;
     s_in := s_in c; s_closed := s_closed c; s_slot := s_slot c; c_out := c_out c; s_out := s_out c |}.
Definition set_sin (c : conn) (q : cq) : conn :=
  {| c_in := c_in c; c_comm := c_comm c; c_hs := c_hs c; c_cnt := c_cnt c; c_last := c_last c; c_fresh := c_fresh c; c_fates := c_fates c;
     s_in := q; s_closed := s_closed c; s_slot := s_slot c; c_out := c_out c; s_out := s_out c |}.
Definition set_comm (c : conn) (b : bool) : conn :=
  {| c_in := c_in c; c_comm := b; c_hs := c_hs c; c_cnt := c_cnt c; c_last := c_last c; c_fresh := c_fresh c; c_fates := c_fates c;
     s_in := s_in c; s_closed := s_closed c; s_slot := s_slot c; c_out := c_out c; s_out := s_out c |}.
Definition set_poll (c : conn) (n : nat) (l : option ev) : conn :=
  {| c_in := c_in c; c_comm := c_comm c; c_hs := c_hs c; c_cnt := n; c_last := l; c_fresh := c_fresh c; c_fates := c_fates c;
     s_in := s_in c; s_closed := s_closed c; s_slot := s_slot c; c_out := c_out c; s_out := s_out c |}.
Definition set_fresh (c : conn) (k : N) : conn :=
  {| c_in := c_in c; c_comm := c_comm c; c_hs := c_hs c; c_cnt := c_cnt c; c_last := c_last c; c_fresh := k; c_fates := c_fates c;
     s_in := s_in c; s_closed := s_closed c; s_slot := s_slot c; c_out := c_out c; s_out := s_out c |}.
Definition set_fates (c : conn) (fs : list fate) : conn :=
  {| c_in := c_in c; c_comm := c_comm c; c_hs := c_hs c; c_cnt := c_cnt c; c_last := c_last c; c_fresh := c_fresh c; c_fates := fs;
     s_in := s_in c; s_closed := s_closed c; s_slot := s_slot c; c_out := c_out c; s_out := s_out c |}.
Definition set_srv (c : conn) (cl : bool) (sl : slot) : conn :=
  {| c_in := c_in c; c_comm := c_comm c; c_hs := c_hs c; c_cnt := c_cnt c; c_last := c_last c; c_fresh := c_fresh c; c_fates := c_fates c;
     s_in := s_in c; s_closed := cl; s_slot := sl; c_out := c_out c; s_out := s_out c |}.

Definition set_cout (c : conn) (o : oq) : conn :=
  {| c_in := c_in c; c_comm := c_comm c; c_hs := c_hs c; c_cnt := c_cnt c; c_last := c_last c; c_fresh := c_fresh c; c_fates := c_fates c;
     s_in := s_in c; s_closed := s_closed c; s_slot := s_slot c; c_out := o; s_out := s_out c |}.
Definition set_sout (c : conn) (o : oq) : conn :=
  {| c_in := c_in c; c_comm := c_comm c; c_hs := c_hs c; c_cnt := c_cnt c; c_last := c_last c; c_fresh := c_fresh c; c_fates := c_fates c;
     s_in := s_in c; s_closed := s_closed c; s_slot := s_slot c; c_out := c_out c; s_out := o |}.

(* what happens, in order *)
Inductive obs :=
| ORead (client : bool) (r : rout)     (* outcome of a Read issued by the application *)
| OWoke (client : bool) (r : rout)     (* outcome of the Read that was parked *)
| OAns (e : option ev)                 (* the server's answer to a request made directly (None: no error) *)
| OWrite (refused : bool)
| OWOut (client : bool) (w : wout)     (* outcome of a Write issued by the application *)
| OWWoke (client : bool) (w : wout)    (* outcome of the Write that was parked *)
| ODone.                               (* an operation without an outcome of its own *)

Definition woke (client : bool) (w : option rout) : list obs :=
  match w with Some r => [OWoke client r] | None => [] end.

Definition wwoke (client : bool) (w : option wout) : list obs :=
  match w with Some r => [OWWoke client r] | None => [] end.

(* -- server side *)
(* validateAndGetUser for this session's id *)
Definition validate (sl : slot) (own : bool) : option ev :=
  match sl, own with
  | Live, true => None
  | Live, false => Some EBadIp
  | Retired, true => Some EBadConn
  | _, _ => Some EBadUser
  end.

(* closeConnection(u) *)
Definition srv_close_connection (sh : shape) (c : conn) : conn * list obs :=
  match s_slot c with
  | Live =>
    let c1 := set_srv c true Retired in
    let (c2, o2) := if sh_sc_closes_q sh then let (q, w) := q_close (s_in c1) in (set_sin c1 q, woke false w) else (c1, []) in
    let (c3, o3) := if sh_sc_closes_out sh then let (o, w) := o_close (s_out c2) in (set_sout c2 o, wwoke false w) else (c2, []) in
    (c3, o2 ++ o3)
  | _ => (c, [])      (* BadConn / BadUser: already closed, nothing is touched *)
  end.

(* the sweep finds the session stale *)
Definition srv_expire (sh : shape) (c : conn) : conn * list obs :=
  match s_slot c with
  | Live =>
    let c1 := set_srv c (s_closed c) Retired in
    let (c2, o2) := if sh_sweep_closes_q sh then let (q, w) := q_close (s_in c1) in (set_sin c1 q, woke false w) else (c1, []) in
    let (c3, o3) := if sh_sweep_closes_out sh then let (o, w) := o_close (s_out c2) in (set_sout c2 o, wwoke false w) else (c2, []) in
    (c3, o2 ++ o3)
  | _ => (c, [])
  end.

(* the sweep forgets the retired session *)
Definition srv_forget (c : conn) : conn :=
  match s_slot c with Retired => set_srv c (s_closed c) Forgotten | _ => c end.

Definition srv_event (sh : shape) (c : conn) (e : sev) : conn * list obs :=
  match e with
  | SvClose => srv_close_connection sh c
  | SvExpire => srv_expire sh c
  | SvForget => (srv_forget c, [])
  end.

(* a packet request reaches onMessage / packet *)
Definition srv_packet (c : conn) (own : bool) (up : option bytes) : conn * option ev * list obs :=
  match validate (s_slot c) own with
  | Some e => (c, Some e, [])
  | None =>
    match up with
    | Some d => let (q, w) := q_append (s_in c) d in (set_sin c q, None, woke false w)
    | None => (c, None, [])
    end
  end.

(* a packet request without data whose LastAckedSeqNo is the number of the first chunk in the session's out-queue *)
Definition srv_ack (c : conn) (own : bool) : conn * option ev * list obs :=
  match validate (s_slot c) own with
  | Some e => (c, Some e, [])
  | None => let (o, w) := o_ack (s_out c) in (set_sout c o, None, wwoke false w)
  end.

(* userConnection.Write (one chunk) *)
Definition s_write (c : conn) (d : bytes) : conn * wout :=
  match o_parked (s_out c) with
  | Some _ => (c, WBusy)
  | None => if s_closed c then (c, WClosed 0) else let (o, r) := o_write (s_out c) d None in (set_sout c o, r)
  end.

(* a set-options request with Closed reaches onMessage / setOptionsRequest *)
Definition srv_close_request (sh : shape) (c : conn) (own : bool) : conn * option ev * list obs :=
  match validate (s_slot c) own with
  | Some e => (c, Some e, [])
  | None => let (c1, o) := srv_close_connection sh c in (c1, None, o)
  end.

(* -- client side *)
(* the events in front of the script happen, then the next exchange's fate is taken; an exhausted script means a clean path *)
Fixpoint next_fate (sh : shape) (fs : list fate) (c : conn) (acc : list obs) : conn * fate * list obs :=
  match fs with
  | [] => (set_fates c [], FOk [], acc)
  | FEv e :: r => let (c1, o) := srv_event sh c e in next_fate sh r c1 (acc ++ o)
  | f :: r => (set_fates c r, f, acc)
  end.

(* an error value on its way to the poll loop *)
Definition mk_err (sh : shape) (c : conn) (e : ev) : conn * ev :=
  if (match e with EBadIp => sh_err_identity_packet sh | _ => sh_err_identity sh end) then (c, e)
  else (set_fresh c (c_fresh c + 1)%N, EFresh (c_fresh c)).

(* SendAndReceive(chunk) *)
Fixpoint sar (sh : shape) (tries : nat) (c : conn) (up : option bytes) : conn * xres * list obs :=
  match tries with
  | O => let (c1, e) := mk_err sh c ETimeout in (c1, XErr e, [])
  | S t =>
    let '(c1, f, o1) := next_fate sh (c_fates c) c [] in
    match f with
    | FTimeout => let '(c2, r, o2) := sar sh t c1 up in (c2, r, o1 ++ o2)
    | FNet => (set_fresh c1 (c_fresh c1 + 1)%N, XErr (EFresh (c_fresh c1)), o1)      (* Query: errors.WithStack(err) *)
    | FOtherIp =>
      let '(c2, e, o2) := srv_packet c1 false up in
      match e with
      | Some e => let (c3, e') := mk_err sh c2 e in (c3, XErr e', o1 ++ o2)
      | None => (c2, XOk, o1 ++ o2)
      end
    | FOk down =>
      let '(c2, e, o2) := srv_packet c1 true up in
      match e with
      | Some e => let (c3, e') := mk_err sh c2 e in (c3, XErr e', o1 ++ o2)
      | None =>
        if nonempty down then let (q, w) := q_append (c_in c2) down in (set_cin c2 q, XOk, o1 ++ o2 ++ woke true w)
        else (c2, XOk, o1 ++ o2)
      end
    | FEv _ => (c1, XOk, o1)       (* not produced by next_fate *)
    end
  end.

(* ClientDnsConnection.Close, the part that talks to the server: only when this end is not closed yet and the handshake was completed *)
Definition cli_close_net (sh : shape) (c : conn) : conn * list obs :=
  if negb (c_comm c) && c_hs c then
    let '(c1, _, o1) := sar sh sar_tries c None in                       (* acknowledge the last received chunk *)
    let '(c2, f, o2) := next_fate sh (c_fates c1) c1 [] in            (* Query(SetOptionsRequest{Closed}) *)
    let '(c3, o3) :=
      match f with
      | FOk _ => let '(c3, _, o3) := srv_close_request sh c2 true in (c3, o3)
      | FOtherIp => let '(c3, _, o3) := srv_close_request sh c2 false in (c3, o3)
      | _ => (c2, [])
      end in
    (c3, o1 ++ o2 ++ o3)
  else (c, []).

(* ClientDnsConnection.Close *)
Definition cli_close (sh : shape) (c : conn) : conn * list obs :=
  let (c1, o1) := cli_close_net sh c in
  let (c2, o2) := if sh_cc_closes_q sh then let (q, w) := q_close (c_in c1) in (set_cin c1 q, woke true w) else (c1, []) in
  let (c3, o3) := if sh_cc_closes_out sh then let (o, w) := o_close (c_out c2) in (set_cout c2 o, wwoke true w) else (c2, []) in
  (set_comm c3 true, o1 ++ o2 ++ o3).

(* what the poll goroutine does with the result of SendAndReceive: new errCount, new lastErr, whether it closes this end *)
Definition poll_react (cnt : nat) (last : option ev) (r : xres) : nat * option ev * bool :=
  match r with
  | XOk => (0, None, false)
  | XErr e =>
    if ev_eqb e EBadConn then (cnt, last, true)
    else
      match last with
      | Some l => if ev_eqb l e then (S cnt, last, Nat.ltb give_up (S cnt)) else (0, Some e, false)
      | None => (0, Some e, false)
      end
  end.

(* the same error value k times running: does the goroutine close this end at one of them? *)
Fixpoint react_n (cnt : nat) (last : option ev) (e : ev) (k : nat) : bool :=
  match k with
  | O => false
  | S k' => let '(cnt', last', cl) := poll_react cnt last (XErr e) in cl || react_n cnt' last' e k'
  end.

(* one round of the poll goroutine *)
Definition cli_poll (sh : shape) (c : conn) (up : option bytes) : conn * list obs :=
  if c_comm c || negb (c_hs c) then (c, [])
  else
    let '(c1, r, o1) := sar sh sar_tries c up in
    let '(cnt, last, cl) := poll_react (c_cnt c1) (c_last c1) r in
    let c2 := set_poll c1 cnt last in
    if cl then let (c3, o3) := cli_close sh c2 in (c3, o1 ++ o3) else (c2, o1).

(* ClientDnsConnection.Read *)
Definition c_read (sh : shape) (c : conn) (n : nat) : conn * rout :=
  match q_parked (c_in c) with
  | Some _ => (c, RBusy)
  | None =>
    if c_comm c && (if sh_c_eof_drained sh then negb (q_has (c_in c)) else true) then (c, REof)
    else let (q, r) := q_read (c_in c) n in (set_cin c q, r)
  end.

(* userConnection.Read *)
Definition s_read (sh : shape) (c : conn) (n : nat) : conn * rout :=
  match q_parked (s_in c) with
  | Some _ => (c, RBusy)
  | None =>
    if s_closed c && (if sh_s_eof_drained sh then negb (q_has (s_in c)) else true) then (c, REof)
    else let (q, r) := q_read (s_in c) n in (set_sin c q, r)
  end.

Fixpoint c_reads (sh : shape) (c : conn) (n k : nat) : conn * list rout :=
  match k with
  | O => (c, [])
  | S k' => let (c1, r) := c_read sh c n in let (c2, rs) := c_reads sh c1 n k' in (c2, r :: rs)
  end.
Fixpoint s_reads (sh : shape) (c : conn) (n k : nat) : conn * list rout :=
  match k with
  | O => (c, [])
  | S k' => let (c1, r) := s_read sh c n in let (c2, rs) := s_reads sh c1 n k' in (c2, r :: rs)
  end.

Inductive op :=
| OCArrive (d : bytes)     (* a chunk is appended to the client's in-queue (what SendAndReceive does with an answer's packet) *)
| OSArrive (d : bytes)     (* a packet request with this chunk reaches the server from the session's address *)
| OCRead (n : nat) | OSRead (n : nat)
| OCClose                  (* the application closes the client connection *)
| OSClose                  (* the application closes the server-side connection *)
| OCloseReq                (* a set-options request with Closed reaches the server from the session's address *)
| OExpire | OForget        (* the sweep retires / forgets the session *)
| OCWrite                  (* is a Write on the client connection refused? *)
| OSWrite (d : bytes)      (* the application writes one chunk on the server-side connection *)
| OSQueue (d : bytes)      (* a chunk is in the server-side out-queue without a writer (what a Write that ended on its deadline leaves) *)
| OSAck                    (* a packet request acknowledging the first queued chunk reaches the server from the session's address *)
| OCOutWrite (d : bytes) (sent : bool)   (* OutQueue.Write on the client's out-queue, as dc.Write does after its checks; sent: did the
                                            synchronous exchange inside the callback get the chunk acknowledged *)
| OCAck                    (* the first chunk of the client's out-queue is acknowledged (what SendAndReceive does with an answer) *)
| OPoll (up : option bytes).   (* the poll goroutine's timer fires *)

Definition step (sh : shape) (c : conn) (o : op) : conn * list obs :=
  match o with
  | OCArrive d => let (q, w) := q_append (c_in c) d in (set_cin c q, ODone :: woke true w)
  | OSArrive d => let '(c1, e, os) := srv_packet c true (Some d) in (c1, OAns e :: os)
  | OCRead n => let (c1, r) := c_read sh c n in (c1, [ORead true r])
  | OSRead n => let (c1, r) := s_read sh c n in (c1, [ORead false r])
  | OCClose => let (c1, os) := cli_close sh c in (c1, ODone :: os)
  | OSClose => let (c1, os) := srv_close_connection sh c in (c1, ODone :: os)
  | OCloseReq => let '(c1, e, os) := srv_close_request sh c true in (c1, OAns e :: os)
  | OExpire => let (c1, os) := srv_expire sh c in (c1, ODone :: os)
  | OForget => (srv_forget c, [ODone])
  | OCWrite => (c, [OWrite (c_comm c)])
  | OSWrite d => let (c1, r) := s_write c d in (c1, [OWOut false r])
  | OSQueue d => (set_sout c (o_enqueue (s_out c) d), [ODone])
  | OSAck => let '(c1, e, os) := srv_ack c true in (c1, OAns e :: os)
  | OCOutWrite d sent => let (o, r) := o_write (c_out c) d (Some sent) in (set_cout c o, [OWOut true r])
  | OCAck => let (o, w) := o_ack (c_out c) in (set_cout c o, ODone :: wwoke true w)
  | OPoll up => cli_poll sh c up
  end.

Fixpoint run (sh : shape) (c : conn) (ops : list op) : conn * list obs :=
  match ops with
  | [] => (c, [])
  | o :: r => let (c1, o1) := step sh c o in let (c2, o2) := run sh c1 r in (c2, o1 ++ o2)
  end.

(* the poll goroutine left to itself: rounds until the client end is closed or the script is used up *)
Fixpoint poll_phase (sh : shape) (fuel : nat) (c : conn) : conn * list obs :=
  match fuel with
  | O => (c, [])
  | S f =>
    if c_comm c then (c, [])
    else match c_fates c with
         | [] => (c, [])
         | _ => let (c1, o1) := cli_poll sh c None in let (c2, o2) := poll_phase sh f c1 in (c2, o1 ++ o2)
         end
  end.

(* further rounds on a clean path until the client end is closed *)
Fixpoint idle_polls (sh : shape) (k : nat) (c : conn) : conn * list obs :=
  match k with
  | O => (c, [])
  | S k' => if c_comm c then (c, []) else let (c1, o1) := cli_poll sh c None in let (c2, o2) := idle_polls sh k' c1 in (c2, o1 ++ o2)
  end.

(* ceil (a / b) for b > 0 *)
Definition ceil_div (a b : nat) : nat := (a + b - 1) / b.

(* l cut into pieces of n octets *)
Fixpoint chunks (fuel n : nat) (l : bytes) : list bytes :=
  match fuel with
  | O => []
  | S f => match l with [] => [] | _ => firstn n l :: chunks f n (skipn n l) end
  end.

(* ---- harness protocol.
   c17q <op>...     ca #d | sa #d | cr n | sr n | cc | sc | sq | sx | sf | cw | sw #d | sz #d | sk | cv #d <sent01> | ck
                    (client without handshake: Close has no network part)
     -> per op:  a | ok | badconn | baduser | badip | b #octets | eof | block | busy | cc | sc | sx | sf | sz | ck | refused | open |
                 w <n> ok | w <n> closed | w <n> err | wblock <own chunk queued 01>,
        each followed by `woke b #octets` / `woke eof` when the operation released the parked reader and by `wwoke <write outcome>` when
        it released the parked writer;
        then: end <client closed> <server-side closed flag> live|retired|forgotten <client reader parked> <server reader parked>
                  <client writer parked> <server writer parked>
   c17p <cn> <sn> <nf> <fates> <rn>      fates: ok #d | to | net | ip | evclose | evexpire | evforget
        (client after a handshake, its poll goroutine running over the scripted path; a reader parked with buffer size cn / sn on the
         client / server end first when cn / sn >= 0; then the script is armed; at the end both ends are read with buffer size rn)
     -> used <script entries consumed> cwoke .. swoke .. end <as above> c <reads> s <reads> *)
Definition ev_word (e : option ev) : tok :=
  match e with
  | None => W "ok" | Some EBadConn => W "badconn" | Some EBadUser => W "baduser" | Some EBadIp => W "badip"
  | Some ETimeout => W "timeout" | Some (EFresh _) => W "other"
  end.

Definition rout_toks (r : rout) : list tok :=
  match r with RBytes l => [W "b"; TB l] | REof => [W "eof"] | RBlock => [W "block"] | RBusy => [W "busy"] end.

Definition slot_word (s : slot) : tok := match s with Live => W "live" | Retired => W "retired" | Forgotten => W "forgotten" end.

Definition is_some {A} (o : option A) : bool := match o with Some _ => true | None => false end.

Definition wout_toks (r : wout) : list tok :=
  match r with
  | WDone n => [W "w"; Tnat n; W "ok"] | WClosed n => [W "w"; Tnat n; W "closed"] | WErr n => [W "w"; Tnat n; W "err"]
  | WBlock q => [W "wblock"; Tbool q] | WBusy => [W "busy"]
  end.

Definition end_toks (c : conn) : list tok :=
  [W "end"; Tbool (c_comm c); Tbool (s_closed c); slot_word (s_slot c); Tbool (is_some (q_parked (c_in c))); Tbool (is_some (q_parked (s_in c)));
   Tbool (is_some (o_parked (c_out c))); Tbool (is_some (o_parked (s_out c)))].

(* the word an operation prints for itself *)
Definition op_word (o : op) : tok :=
  match o with
  | OCArrive _ => W "a" | OCClose => W "cc" | OSClose => W "sc" | OExpire => W "sx" | OForget => W "sf"
  | OSQueue _ => W "sz" | OCAck => W "ck" | _ => W "-"
  end.

Definition obs_toks (o : op) (x : obs) : list tok :=
  match x with
  | ORead _ r => rout_toks r
  | OWoke _ r => W "woke" :: rout_toks r
  | OAns e => [ev_word e]
  | OWrite r => [W (if r then "refused" else "open")]
  | OWOut _ r => wout_toks r
  | OWWoke _ r => W "wwoke" :: wout_toks r
  | ODone => [op_word o]
  end.

Fixpoint parse_q (fuel : nat) (ts : list tok) : option (list op) :=
  match fuel with
  | O => None
  | S f =>
    match ts with
    | [] => Some []
    | t :: r =>
      let one (o : op) (rest : list tok) := match parse_q f rest with Some l => Some (o :: l) | None => None end in
      if is_word "ca" t then match r with TB d :: r' => one (OCArrive d) r' | _ => None end
      else if is_word "sa" t then match r with TB d :: r' => one (OSArrive d) r' | _ => None end
      else if is_word "cr" t then match r with TI n :: r' => one (OCRead (Z.to_nat n)) r' | _ => None end
      else if is_word "sr" t then match r with TI n :: r' => one (OSRead (Z.to_nat n)) r' | _ => None end
      else if is_word "cc" t then one OCClose r
      else if is_word "sc" t then one OSClose r
      else if is_word "sq" t then one OCloseReq r
      else if is_word "sx" t then one OExpire r
      else if is_word "sf" t then one OForget r
      else if is_word "cw" t then one OCWrite r
      else if is_word "sw" t then match r with TB d :: r' => one (OSWrite d) r' | _ => None end
      else if is_word "sz" t then match r with TB d :: r' => one (OSQueue d) r' | _ => None end
      else if is_word "sk" t then one OSAck r
      else if is_word "cv" t then match r with TB d :: TI b :: r' => one (OCOutWrite d (negb (Z.eqb b 0))) r' | _ => None end
      else if is_word "ck" t then one OCAck r
      else None
    end
  end.

Fixpoint run_toks (sh : shape) (c : conn) (ops : list op) : conn * list tok :=
  match ops with
  | [] => (c, [])
  | o :: r =>
    let (c1, os) := step sh c o in
    let (c2, ts) := run_toks sh c1 r in
    (c2, flat_map (obs_toks o) os ++ ts)
  end.

Definition dispatch_c17q (ts : list tok) : list tok :=
  match ts with
  | _ :: r =>
    match parse_q (S (List.length r)) r with
    | Some ops => let (c, out) := run_toks code_shape (init_conn false []) ops in out ++ end_toks c
    | None => [W "model-error"]
    end
  | [] => [W "model-error"]
  end.

Fixpoint parse_fates (n : nat) (ts : list tok) : option (list fate * list tok) :=
  match n with
  | O => Some ([], ts)
  | S k =>
    match ts with
    | t :: r =>
      let one (f : fate) (rest : list tok) := match parse_fates k rest with Some (l, x) => Some (f :: l, x) | None => None end in
      if is_word "ok" t then match r with TB d :: r' => one (FOk d) r' | _ => None end
      else if is_word "to" t then one FTimeout r
      else if is_word "net" t then one FNet r
      else if is_word "ip" t then one FOtherIp r
      else if is_word "evclose" t then one (FEv SvClose) r
      else if is_word "evexpire" t then one (FEv SvExpire) r
      else if is_word "evforget" t then one (FEv SvForget) r
      else None
    | [] => None
    end
  end.

(* the first outcome of a released reader on the given end *)
Fixpoint first_woke (client : bool) (os : list obs) : option rout :=
  match os with
  | [] => None
  | OWoke b r :: rest => if Bool.eqb b client then Some r else first_woke client rest
  | _ :: rest => first_woke client rest
  end.

(* reads of one size until something other than octets comes back *)
Fixpoint read_out (sh : shape) (client : bool) (fuel : nat) (c : conn) (n : nat) : conn * list tok :=
  match fuel with
  | O => (c, [])
  | S f =>
    let (c1, r) := if client then c_read sh c n else s_read sh c n in
    match r with
    | RBytes (_ :: _) => let (c2, ts) := read_out sh client f c1 n in (c2, rout_toks r ++ ts)
    | _ => (c1, rout_toks r)
    end
  end.

Definition woke_toks (parked_before : bool) (w : option rout) : list tok :=
  match w with
  | Some r => rout_toks r
  | None => [W (if parked_before then "parked" else "none")]
  end.

Definition dispatch_c17p (ts : list tok) : list tok :=
  match ts with
  | _ :: TI cn :: TI sn :: TI nf :: r =>
    match parse_fates (Z.to_nat nf) r with
    | Some (fs, [TI rn]) =>
      let c0 := init_conn true [] in
      let (c1, _) := if (0 <=? cn)%Z then c_read code_shape c0 (Z.to_nat cn) else (c0, RBusy) in
      let (c2, _) := if (0 <=? sn)%Z then s_read code_shape c1 (Z.to_nat sn) else (c1, RBusy) in
      let c3 := set_fates c2 fs in
      let (c4, o4) := poll_phase code_shape (S (List.length fs)) c3 in
      let used := List.length fs - List.length (c_fates c4) in
      (* what follows the script's end is the clean path: rounds until nothing changes any more *)
      let (c5, o5) := idle_polls code_shape (give_up + 3) c4 in
      let os := o4 ++ o5 in
      let (c6, tc) := read_out code_shape true 64 c5 (Z.to_nat rn) in
      let (c7, tsv) := read_out code_shape false 64 c6 (Z.to_nat rn) in
      [W "used"; Tnat used; W "cwoke"] ++ woke_toks (0 <=? cn)%Z (first_woke true os) ++
      [W "swoke"] ++ woke_toks (0 <=? sn)%Z (first_woke false os) ++
      end_toks c5 ++ [W "c"] ++ tc ++ [W "s"] ++ tsv
    | _ => [W "model-error"]
    end
  | _ => [W "model-error"]
  end.
