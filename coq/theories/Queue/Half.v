(* C07 proofs, part 1: one direction of the link (a sender OutQueue and the peer's InQueue) against ghost indices. *)
From Coq Require Import String List NArith ZArith Bool Arith Lia.
From SA Require Import Base.Tok Gen.QueueConsts Queue.Queues Queue.Link.
Import ListNotations.
Ltac Zify.zify_post_hook ::= Z.to_euclidean_division_equations.
Local Open Scope nat_scope.

(* ---- the generated constants the proofs rely on (they break if the source changes) *)
Lemma keeps_newest : out_acked_keeps_newest = true. Proof. reflexivity. Qed.
Lemma max_cached_128 : max_cached = 128%N. Proof. reflexivity. Qed.
Lemma win_lo : in_window_lo = 1%N. Proof. reflexivity. Qed.
Lemma win_hi : in_window_hi = 128%N. Proof. reflexivity. Qed.
Lemma M_val : M = 65536%N. Proof. reflexivity. Qed.

(* ---- ghost numbering: index i (unwrapped) has wire number sq x0 i *)
Definition sq (x0 : N) (i : nat) : N := u16 (x0 + N.of_nat i).
(* the acknowledgement "everything below r has arrived" = in.NextSeqNo - 1 *)
Definition ackv (x0 : N) (r : nat) : N := u16 (sq x0 r + M - 1).
Definition pk (x0 : N) (hist : list bytes) (i : nat) : packet := {| p_seq := sq x0 i; p_data := nth i hist [] |}.
Definition pkts (x0 : N) (hist : list bytes) (K : nat) : list packet := map (pk x0 hist) (seq K (length hist - K)).

Lemma sq_inj x0 i j : sq x0 i = sq x0 j -> (N.of_nat i < N.of_nat j + M)%N -> (N.of_nat j < N.of_nat i + M)%N -> i = j.
Proof. unfold sq, u16, M. intros. lia. Qed.

Lemma ackv_S x0 k : ackv x0 (S k) = sq x0 k.
Proof. unfold ackv, sq, u16, M. lia. Qed.

Lemma ackv_sq_neq x0 r i : r <= i -> (N.of_nat i + 1 < N.of_nat r + M)%N -> ackv x0 r <> sq x0 i.
Proof. unfold ackv, sq, u16, M. intros. lia. Qed.

Lemma ackv_inj x0 r r' : ackv x0 r = ackv x0 r' -> (N.of_nat r < N.of_nat r' + M)%N -> (N.of_nat r' < N.of_nat r + M)%N -> r = r'.
Proof. unfold ackv, sq, u16, M. intros. lia. Qed.

Lemma sq_next x0 i : u16 (sq x0 i + 1) = sq x0 (S i).
Proof. unfold sq, u16, M. lia. Qed.

Lemma mem_seq_In s l : mem_seq s l = true <-> In s l.
Proof.
  unfold mem_seq. rewrite existsb_exists. split.
  - intros [x [Hx He]]. apply N.eqb_eq in He. subst. exact Hx.
  - intros H. exists s. split; [exact H | apply N.eqb_refl].
Qed.

Lemma mem_seq_false s l : mem_seq s l = false <-> ~ In s l.
Proof. rewrite <- mem_seq_In. destruct (mem_seq s l); split; intros H; congruence. Qed.

(* ================= sender side ================= *)
Lemma remove_first_seq_notin s l : (forall p, In p l -> p_seq p <> s) -> remove_first_seq s l = l.
Proof.
  induction l as [|p r IH]; simpl; intros H; [reflexivity|].
  destruct (N.eqb_spec (p_seq p) s) as [E|E].
  - exfalso. apply (H p); auto.
  - f_equal. apply IH. intros; apply H; auto.
Qed.

Lemma fold_rm_notin acks l :
  (forall a p, In a acks -> In p l -> p_seq p <> a) -> fold_left (fun o a => remove_first_seq a o) acks l = l.
Proof.
  induction acks as [|a r IH]; simpl; intros H; [reflexivity|].
  rewrite remove_first_seq_notin by (intros; apply H; auto). apply IH. intros; apply H; auto.
Qed.

(* the acknowledgement memory, oldest first: every remembered value is an acknowledgement r <= K, and the older ones
   may lag K by one more for every entry appended after them *)
Fixpoint mem_ok (x0 : N) (K A : nat) (l : list N) : Prop :=
  match l with
  | [] => True
  | a :: rest => (exists r, a = ackv x0 r /\ r <= K /\ K + 1 <= r + A + length rest) /\ mem_ok x0 K A rest
  end.

Lemma mem_ok_skipn x0 K A d l : mem_ok x0 K A l -> mem_ok x0 K A (skipn d l).
Proof. revert l; induction d; intros l H; [exact H|]. destruct l; [exact H|]. simpl. apply IHd. apply H. Qed.

Lemma mem_ok_app x0 K K' A l a r :
  mem_ok x0 K A l -> K <= K' <= S K -> a = ackv x0 r -> r <= K' -> K' + 1 <= r + A -> mem_ok x0 K' A (l ++ [a]).
Proof.
  intros H HK Ha Hr Hb. induction l as [|b rest IH]; simpl.
  - split; [|exact I]. exists r. simpl. repeat split; auto. lia.
  - destruct H as [[r' [E [H1 H2]]] H3]. split; [|apply IH; exact H3].
    exists r'. rewrite app_length. simpl. repeat split; auto; lia.
Qed.

Lemma mem_ok_In x0 K A l a :
  mem_ok x0 K A l -> In a l -> exists r, a = ackv x0 r /\ r <= K /\ K + 2 <= r + A + length l.
Proof.
  induction l as [|b rest IH]; simpl; intros H Hin; [contradiction|].
  destruct H as [[r [E [H1 H2]]] H3]. destruct Hin as [->|Hin].
  - exists r. repeat split; auto. lia.
  - destruct (IH H3 Hin) as [r' [E' [H1' H2']]]. exists r'. repeat split; auto. lia.
Qed.

Record SInv (A W : nat) (x0 : N) (hist : list bytes) (K : nat) (o : outq) : Prop := {
  s_q : out_q o = pkts x0 hist K;
  s_next : out_next o = sq x0 (length hist);
  s_K : K <= length hist;
  s_W : length hist <= K + W;
  s_len : length (out_acked o) <= 128;
  s_mem : mem_ok x0 K A (out_acked o) }.
Arguments s_q {A W x0 hist K o}.
Arguments s_next {A W x0 hist K o}.
Arguments s_K {A W x0 hist K o}.
Arguments s_W {A W x0 hist K o}.
Arguments s_len {A W x0 hist K o}.
Arguments s_mem {A W x0 hist K o}.

Definition NUM (A W : nat) : Prop := (N.of_nat A + N.of_nat W + 127 <= M)%N /\ (N.of_nat A + 128 <= M)%N.

Lemma In_pkts x0 hist K p : In p (pkts x0 hist K) -> exists i, p = pk x0 hist i /\ K <= i < length hist.
Proof. unfold pkts. rewrite in_map_iff. intros [i [E Hi]]. apply in_seq in Hi. exists i. split; [auto|lia]. Qed.

Lemma sinv_nomatch A W x0 hist K o :
  NUM A W -> SInv A W x0 hist K o -> forall a p, In a (out_acked o) -> In p (out_q o) -> p_seq p <> a.
Proof.
  intros HN H a p Ha Hp. rewrite (s_q H) in Hp. apply In_pkts in Hp. destruct Hp as [i [-> Hi]].
  destruct (mem_ok_In _ _ _ _ _ (s_mem H) Ha) as [r [-> [H1 H2]]].
  pose proof (s_len H). pose proof (s_W H). simpl. intro E. symmetry in E. revert E.
  apply ackv_sq_neq; [lia|]. unfold NUM, M in *. lia.
Qed.

Lemma trunc_small a : length a <= 128 -> trunc_acked a = a.
Proof.
  intros H. unfold trunc_acked. rewrite max_cached_128.
  destruct (N.ltb_spec 128 (N.of_nat (length a))); [lia|reflexivity].
Qed.

Lemma trunc_len a : length (trunc_acked a) <= 128.
Proof.
  unfold trunc_acked. rewrite max_cached_128, keeps_newest.
  destruct (N.ltb_spec 128 (N.of_nat (length a))); [|lia]. rewrite skipn_length. lia.
Qed.

Lemma trunc_mem_ok x0 K A a : mem_ok x0 K A a -> mem_ok x0 K A (trunc_acked a).
Proof.
  intros H. unfold trunc_acked. rewrite keeps_newest.
  destruct (max_cached <? N.of_nat (length a))%N; [|exact H]. apply mem_ok_skipn. exact H.
Qed.

Lemma clean_id A W x0 hist K o : NUM A W -> SInv A W x0 hist K o -> clean o = o.
Proof.
  intros HN H. unfold clean. rewrite fold_rm_notin by (apply (sinv_nomatch _ _ _ _ _ _ HN H)).
  rewrite trunc_small by apply H. destruct o; reflexivity.
Qed.

Definition headp (x0 : N) (hist : list bytes) (K : nat) : option packet :=
  if K <? length hist then Some (pk x0 hist K) else None.

Lemma pkts_cons x0 hist K : K < length hist -> pkts x0 hist K = pk x0 hist K :: pkts x0 hist (S K).
Proof. intros H. unfold pkts. replace (length hist - K) with (S (length hist - S K)) by lia. reflexivity. Qed.

Lemma pkts_nil x0 hist K : length hist <= K -> pkts x0 hist K = [].
Proof. intros H. unfold pkts. replace (length hist - K) with 0 by lia. reflexivity. Qed.

Lemma hd_pkts x0 hist K : hd_error (pkts x0 hist K) = headp x0 hist K.
Proof.
  unfold headp. destruct (Nat.ltb_spec K (length hist)).
  - rewrite pkts_cons by lia. reflexivity.
  - rewrite pkts_nil by lia. reflexivity.
Qed.

Lemma next_chunk_id A W x0 hist K o : NUM A W -> SInv A W x0 hist K o -> next_chunk o = (o, headp x0 hist K).
Proof. intros HN H. unfold next_chunk. rewrite (clean_id _ _ _ _ _ _ HN H), (s_q H), hd_pkts. reflexivity. Qed.

Lemma upd_sinv A W x0 hist K o r :
  NUM A W -> 1 <= A -> SInv A W x0 hist K o -> r <= S K -> K + 1 <= r + A -> (r = S K -> K < length hist) ->
  SInv A W x0 hist (if r =? S K then S K else K) (update_acked o (ackv x0 r)).
Proof.
  intros HN HA H Hr Hb Hh. unfold update_acked.
  pose proof (s_len H) as Hlen. pose proof (s_W H) as HW. pose proof (s_K H) as HK.
  destruct (mem_seq (ackv x0 r) (out_acked o)) eqn:Em.
  - apply mem_seq_In in Em. destruct (mem_ok_In _ _ _ _ _ (s_mem H) Em) as [r' [E [H1 H2]]].
    apply ackv_inj in E; [|unfold NUM, M in *; lia|unfold NUM, M in *; lia].
    destruct (Nat.eqb_spec r (S K)); [lia|exact H].
  - apply mem_seq_false in Em. unfold clean. simpl. rewrite fold_left_app. simpl.
    rewrite fold_rm_notin by (apply (sinv_nomatch _ _ _ _ _ _ HN H)).
    destruct (Nat.eqb_spec r (S K)) as [E|E].
    + subst r. specialize (Hh eq_refl). rewrite ackv_S. rewrite (s_q H), pkts_cons by lia. simpl.
      rewrite N.eqb_refl. constructor; simpl; try (apply H); try lia.
      * reflexivity.
      * apply trunc_len.
      * apply trunc_mem_ok. apply (mem_ok_app x0 K (S K) A _ _ (S K)); try lia. apply H. symmetry; apply ackv_S.
    + rewrite remove_first_seq_notin.
      * constructor; simpl; try (apply H).
        -- apply trunc_len.
        -- apply trunc_mem_ok. apply (mem_ok_app x0 K K A _ _ r); try lia. apply H.
      * intros p Hp. rewrite (s_q H) in Hp. apply In_pkts in Hp. destruct Hp as [i [-> Hi]]. simpl.
        intro E'. symmetry in E'. revert E'. apply ackv_sq_neq; [lia|]. unfold NUM, M in *. lia.
Qed.

Lemma pk_ext x0 hist t i : i < length hist -> pk x0 (hist ++ t) i = pk x0 hist i.
Proof. intros H. unfold pk. rewrite app_nth1 by exact H. reflexivity. Qed.

Lemma pkts_snoc x0 hist K d :
  K <= length hist -> pkts x0 (hist ++ [d]) K = pkts x0 hist K ++ [ {| p_seq := sq x0 (length hist); p_data := d |} ].
Proof.
  intros HK. unfold pkts. rewrite app_length. simpl length.
  replace (length hist + 1 - K) with (S (length hist - K)) by lia. rewrite seq_S, map_app. simpl. f_equal.
  - apply map_ext_in. intros i Hi. apply in_seq in Hi. apply pk_ext. lia.
  - replace (K + (length hist - K)) with (length hist) by lia. unfold pk.
    rewrite app_nth2 by lia. rewrite Nat.sub_diag. reflexivity.
Qed.

Lemma add_sinv A W x0 hist K o d :
  SInv A W x0 hist K o -> length hist + 1 <= K + W -> SInv A W x0 (hist ++ [d]) K (add_chunk o d).
Proof.
  intros H HW. pose proof (s_K H). constructor; simpl; try (apply H).
  - rewrite (s_q H), (s_next H). symmetry. apply pkts_snoc. lia.
  - rewrite (s_next H), app_length. simpl. rewrite Nat.add_1_r. apply sq_next.
  - rewrite app_length; simpl; lia.
  - rewrite app_length; simpl; lia.
Qed.

Definition nchunks (len mtu : nat) : nat := if Nat.eqb len 0 then 0 else (len + mtu - 1) / mtu.

Lemma nchunks_pos len mtu : 0 < len -> 0 < mtu -> 1 <= nchunks len mtu.
Proof.
  intros H1 H2. unfold nchunks. destruct (Nat.eqb_spec len 0); [lia|].
  apply Nat.div_str_pos. lia.
Qed.

Lemma nchunks_step len mtu : 0 < mtu -> mtu < len -> nchunks len mtu = S (nchunks (len - mtu) mtu).
Proof.
  intros H1 H2. unfold nchunks. destruct (Nat.eqb_spec len 0); [lia|]. destruct (Nat.eqb_spec (len - mtu) 0); [lia|].
  replace (len + mtu - 1) with ((len - mtu + mtu - 1) + 1 * mtu) by lia. rewrite Nat.div_add by lia. lia.
Qed.

Lemma write_sinv A W x0 : forall fuel hist K o b mtu o',
  SInv A W x0 hist K o -> (b = [] \/ 0 < mtu) -> write_chunks fuel o b mtu = Some o' ->
  length hist + nchunks (length b) mtu <= K + W ->
  exists cs, concat cs = b /\ (b = [] -> cs = []) /\ SInv A W x0 (hist ++ cs) K o'.
Proof.
  induction fuel as [|f IH]; intros hist K o b mtu o' H Hb Hw Hn.
  - destruct b; simpl in Hw; [|discriminate]. inversion Hw; subst. exists []. rewrite app_nil_r. auto.
  - destruct b as [|x b']; simpl in Hw.
    + inversion Hw; subst. exists []. rewrite app_nil_r. auto.
    + destruct Hb as [Hb|Hb]; [discriminate|].
      remember (x :: b') as b eqn:Eb.
      assert (Hlen : 0 < length b) by (subst b; simpl; lia).
      replace (S (length b')) with (length b) in Hw by (subst b; reflexivity).
      destruct (Nat.ltb_spec mtu (length b)) as [Hlt|Hge].
      * rewrite nchunks_step in Hn by lia.
        destruct (IH (hist ++ [firstn mtu b]) K _ _ _ _ (add_sinv _ _ _ _ _ _ (firstn mtu b) H ltac:(lia)) (or_intror Hb) Hw) as [cs [E1 [_ E2]]].
        { rewrite app_length, skipn_length. simpl. lia. }
        exists (firstn mtu b :: cs). split; [|split].
        -- simpl. rewrite E1. apply firstn_skipn.
        -- intros ->. discriminate.
        -- rewrite <- app_assoc in E2. exact E2.
      * inversion Hw; subst o'. pose proof (nchunks_pos _ _ Hlen Hb).
        exists [b]. split; [simpl; apply app_nil_r|]. split; [intros ->; discriminate|]. apply add_sinv; [exact H|lia].
Qed.

(* ================= receiver side ================= *)
Definition racked (x0 : N) (R : nat) : list N := map (sq x0) (seq (R - 128) (R - (R - 128))).

Lemma tl_map {X Y} (f : X -> Y) l : tl (map f l) = map f (tl l).
Proof. destruct l; reflexivity. Qed.

Lemma seq_shift_tl n c : tl (seq n (S c) ++ [n + S c]) = seq (S n) (S c).
Proof. rewrite (seq_S c (S n)). simpl. f_equal. f_equal. lia. Qed.

Lemma racked_len x0 R : length (racked x0 R) <= 128.
Proof. unfold racked. rewrite map_length, seq_length. lia. Qed.

Lemma racked_step x0 R :
  racked x0 (S R) =
  if (max_cached <? N.of_nat (length (racked x0 R ++ [sq x0 R])))%N then tl (racked x0 R ++ [sq x0 R]) else racked x0 R ++ [sq x0 R].
Proof.
  rewrite max_cached_128. unfold racked. rewrite app_length, map_length, seq_length. simpl length.
  change [sq x0 R] with (map (sq x0) [R]). rewrite <- map_app.
  destruct (N.ltb_spec 128 (N.of_nat (R - (R - 128) + 1))) as [H|H].
  - rewrite tl_map. f_equal.
    remember 127 as c eqn:Ec.
    replace (R - (R - S c)) with (S c) by lia. replace (S R - (S R - S c)) with (S c) by lia.
    replace (S R - S c) with (S (R - S c)) by lia.
    rewrite <- seq_shift_tl. do 3 f_equal. lia.
  - f_equal. replace (S R - 128) with 0 by lia. replace (R - 128) with 0 by lia.
    rewrite !Nat.sub_0_r. rewrite seq_S. reflexivity.
Qed.

Lemma In_racked x0 R i : i < R -> R <= i + 128 -> In (sq x0 i) (racked x0 R).
Proof. intros H1 H2. unfold racked. apply in_map. apply in_seq. lia. Qed.

Lemma racked_In x0 R a : In a (racked x0 R) -> exists i, a = sq x0 i /\ i < R /\ R <= i + 128.
Proof. unfold racked. rewrite in_map_iff. intros [i [E Hi]]. apply in_seq in Hi. exists i. split; [auto|lia]. Qed.

Record RInv (x0 : N) (hist : list bytes) (R : nat) (q : inq) (rd : bytes) : Prop := {
  r_next : in_next q = sq x0 R;
  r_fut : in_future q = [];
  r_ack : in_acked q = racked x0 R;
  r_tot : in_total q = N.of_nat (length (concat (firstn R hist)));
  r_buf : rev rd ++ in_buf q = concat (firstn R hist);
  r_R : R <= length hist }.
Arguments r_next {x0 hist R q rd}.
Arguments r_fut {x0 hist R q rd}.
Arguments r_ack {x0 hist R q rd}.
Arguments r_tot {x0 hist R q rd}.
Arguments r_buf {x0 hist R q rd}.
Arguments r_R {x0 hist R q rd}.

Lemma firstn_S_nth {X} (d : X) : forall n l, n < length l -> firstn (S n) l = firstn n l ++ [nth n l d].
Proof.
  induction n; intros l H; destruct l; simpl in *; try lia; [reflexivity|].
  f_equal. apply IHn. lia.
Qed.

Lemma rinv_ext x0 hist t R q rd : RInv x0 hist R q rd -> RInv x0 (hist ++ t) R q rd.
Proof.
  intros H. pose proof (r_R H).
  assert (E : firstn R (hist ++ t) = firstn R hist).
  { rewrite firstn_app. replace (R - length hist) with 0 by lia. simpl. apply app_nil_r. }
  constructor; try (apply H); rewrite ?E; try (apply H). rewrite app_length. lia.
Qed.

Lemma append_rinv x0 hist R q rd i :
  RInv x0 hist R q rd -> i <= R -> i < length hist -> (N.of_nat R + 128 <= N.of_nat i + M)%N ->
  exists q' err, in_append q (Some (pk x0 hist i)) = (q', err) /\
    RInv x0 hist (if i =? R then S R else R) q' rd /\ (err = true -> i + 128 < R).
Proof.
  intros H Hi Hh Hw. unfold in_append. simpl p_seq.
  destruct (mem_seq (sq x0 i) (in_acked q)) eqn:Em.
  - exists q, false. split; [reflexivity|]. split; [|discriminate].
    apply mem_seq_In in Em. rewrite (r_ack H) in Em. apply racked_In in Em. destruct Em as [j [E [H1 H2]]].
    apply sq_inj in E; [|unfold M in *; lia|unfold M in *; lia]. subst j.
    destruct (Nat.eqb_spec i R); [lia|exact H].
  - apply mem_seq_false in Em. rewrite (r_next H).
    destruct (N.eqb_spec (sq x0 i) (sq x0 R)) as [E|E].
    + apply sq_inj in E; [|unfold M in *; lia|unfold M in *; lia]. subst i. rewrite Nat.eqb_refl.
      unfold append_packet. simpl. rewrite (r_fut H). simpl.
      eexists _, false. split; [reflexivity|]. split; [|discriminate].
      constructor; cbn [in_next in_future in_acked in_total in_buf p_data pk p_seq].
      * rewrite (r_next H). apply sq_next.
      * reflexivity.
      * rewrite (r_ack H). symmetry. apply racked_step.
      * rewrite (r_tot H), (firstn_S_nth ([] : bytes)) by lia. rewrite concat_app, app_length. simpl. rewrite app_nil_r. lia.
      * rewrite (firstn_S_nth ([] : bytes)) by lia. rewrite concat_app. simpl. rewrite app_nil_r, app_assoc, (r_buf H). reflexivity.
      * lia.
    + assert (i <> R) by (intro; subst; auto). destruct (Nat.eqb_spec i R); [lia|].
      assert (Hwin : in_window (sq x0 R) (sq x0 i) = false).
      { unfold in_window. rewrite win_lo, win_hi. apply andb_false_iff. right. apply N.ltb_ge.
        unfold sq, u16, M in *. lia. }
      rewrite Hwin. exists q, true. split; [reflexivity|]. split; [exact H|]. intros _.
      destruct (Nat.le_gt_cases R (i + 128)); [|lia]. exfalso. apply Em. rewrite (r_ack H). apply In_racked; lia.
Qed.

Lemma append_none q : in_append q None = (q, false).
Proof. reflexivity. Qed.

Lemma read_rinv x0 hist R q rd n :
  RInv x0 hist R q rd -> RInv x0 hist R (fst (in_read q n)) (rev_append (snd (in_read q n)) rd).
Proof.
  intros H. constructor; simpl; try (apply H).
  rewrite rev_append_rev, rev_app_distr, rev_involutive, <- app_assoc, firstn_skipn. apply H.
Qed.
