(* C01 on the DNS carrier / C07 at wire level: the two tunnel endpoints of Queue/Link.v, but every message that crosses the
   network is the thing that is really on the wire.

   - A query is formed as ClientDnsConnection.SendAndReceive + QueryWithData form it: PacketRequest{UserId, LastAckedSeqNo =
     in.NextSeqNo - 1, Packet = out.NextChunk()} -> Serializer.EncodeDnsRequestWithParams (upstream codec cu, domain dom, three
     cache characters) -> the question section packed by the DNS library (Wire/Requests.v, Wire/Name.v: the C09 pipeline).
     What is stored in the network is that OCTET STRING.
   - The server (ServerDnsListener.onMessage + packet) unpacks the question, strips the domain, decodes the request with the
     session's upstream codec, runs UpdateAcked / Append / NextChunk (the very server_handle of Queue/Link.v), and answers with
     PacketResponse{LastAckedSeqNo, Packet} or PacketResponse{Err} -> Serializer.EncodeDnsResponse (downstream codec cd, record type
     = the QTYPE of the question, owner name = the name of the question) -> Msg.Pack (Wrap/Responses.v, Wrap/Wrap.v: the C10
     pipeline).  What is stored in the network is that packed MESSAGE (Wrap.wire).
   - The client unpacks, unwraps and decodes the answer (DecodeDnsResponseWithParams) and then does what SendAndReceive does:
     an answer that does not decode, an error response, a response of another command or a packet response carrying an error ends the
     exchange with an error; otherwise UpdateAcked, Append (the client_handle of Queue/Link.v).
   - The network is the adversary of Queue/Link.v: it keeps every query and every answer ever formed and delivers any of them, any
     number of times, at any later point.

   Nothing abstract crosses the network: the state below holds octets / packed messages only (the `queries`/`answers` fields of the
   embedded `sys` stay empty for ever).  Definitions only; proofs are in WireLink_proofs.v. *)
From Coq Require Import String List NArith ZArith Bool Arith.
From SA Require Import Base.Tok Codec.Codec Gen.QueueConsts Queue.Queues Queue.Link.
From SA Require Wire.Name Wire.Requests Wrap.Wrap Wrap.Responses.
Import ListNotations.
Open Scope N_scope.

(* the negotiated tuple of one session *)
Record wparams := {
  wp_dom : bytes;               (* the tunnel domain *)
  wp_cu : codec;                (* upstream codec (client -> server, inside the question name) *)
  wp_cd : codec;                (* downstream codec (server -> client, inside the answer records) *)
  wp_rt : Wrap.rtype;           (* the record type the client asks for *)
  wp_uid : N }.                 (* the session's user id *)

(* ------------------------------------------------------------------------------------------------ *)
(* the text of the error InQueue.Append returns for a packet outside the window:
     errors.Wrapf(ErrInvalidSequenceNumber, "Received #%d but expected #%d. Acked: %v", val.SeqNo, q.NextSeqNo, q.acked)
   i.e. the formatted message, ": ", "invalid chunk sequence"; %v of a []uint16 is "[a b c]" *)
Fixpoint dec_fuel (fuel : nat) (n : N) (acc : bytes) : bytes :=
  match fuel with
  | O => acc
  | S f => let acc' := (48 + n mod 10) :: acc in if n <? 10 then acc' else dec_fuel f (n / 10) acc'
  end.
Definition dec (n : N) : bytes := dec_fuel 24 n [].

Fixpoint join_sp (l : list bytes) : bytes :=
  match l with
  | [] => []
  | [x] => x
  | x :: r => x ++ 32 :: join_sp r
  end.

Definition seq_err_text (got next : N) (acked : list N) : bytes :=
  wd "Received #" ++ dec got ++ wd " but expected #" ++ dec next ++ wd ". Acked: [" ++ join_sp (map dec acked)
  ++ wd "]: invalid chunk sequence".

(* ------------------------------------------------------------------------------------------------ *)
(* packets <-> the (SeqNo, Data) pairs of the request / response layouts *)
Definition pkt_fields (p : option packet) : option (N * bytes) :=
  match p with Some x => Some (p_seq x, p_data x) | None => None end.
Definition fields_pkt (p : option (N * bytes)) : option packet :=
  match p with Some (s, d) => Some {| p_seq := s; p_data := d |} | None => None end.

(* ------------------------------------------------------------------------------------------------ *)
(* client -> wire: the query *)
Definition form_query (P : wparams) (ack : N) (p : option packet) (r : bytes) : res bytes :=
  do name <- Requests.encode_dns_request (wp_cu P) (wp_dom P) (Requests.RPacket (wp_uid P) ack (pkt_fields p)) r ;;
  Name.pack_question name (Wrap.rtype_code (wp_rt P)).

(* wire -> server: Msg.Unpack (question section), ComposeRequest / StripDomain, DecodeDnsRequest with the session's codec *)
Definition decode_query (P : wparams) (wq : bytes) : res (bytes * N * Requests.request) :=
  do '(name, qt) <- Name.unpack_question wq ;;
  do x <- Name.compose_request name (wp_dom P) ;;
  do req <- Requests.decode_request (wp_cu P) x ;;
  Ok (name, qt, req).

(* server -> wire: EncodeDnsResponse on msg.SetReply(request), then Msg.Pack *)
Inductive formed :=
| FOk (w : Wrap.wire) (nrec : nat)
| FEnc (toolong : bool)            (* EncodeDnsResponse failed: the handler returns an error, nothing is sent *)
| FPack (nrec : nat)               (* the DNS library refuses to pack the answer: nothing is sent *)
| FPanic (site : bytes).

Definition form_answer (P : wparams) (qt : N) (qname : bytes) (r : Responses.resp) : formed :=
  match Responses.encode_resp (wp_cd P) r with
  | Panic s => FPanic s
  | Err _ => FEnc false
  | Ok payload =>
    match Wrap.rtype_of_code qt with
    | None => FEnc false                                 (* "Unknown query type" *)
    | Some rt =>
      match Wrap.wrap rt payload (wp_dom P) qname with
      | Panic s => FPanic s
      | Err e => FEnc (bytes_eqb e (wd "toolong"))
      | Ok m =>
        match Wrap.pack m with
        | Panic s => FPanic s
        | Err _ => FPack (List.length (Wrap.m_answers m))
        | Ok w => FOk w (List.length (Wrap.m_answers m))
        end
      end
    end
  end.

(* wire -> client: Msg.Unpack, UnwrapDnsResponse, DecodeDnsResponseWithParams with the downstream codec *)
Definition decode_answer (P : wparams) (w : Wrap.wire) : res Responses.resp :=
  do m <- Wrap.unpack w ;;
  do data <- Wrap.unwrap m (wp_dom P) ;;
  Responses.decode_resp (wp_cd P) data.

(* what the client's end of an exchange makes of a decoded answer (QueryWithData + SendAndReceive):
   0 ok, 1 Append refused the packet, 2 a packet response carrying an error, 3 an error response, 4 the answer does not decode,
   5 a response of another command *)
Inductive cview :=
| VPacket (err : bool) (ack : N) (pkt : option packet)
| VError
| VOther
| VUndecodable
| VPanic (site : bytes).

Definition client_view (P : wparams) (w : Wrap.wire) : cview :=
  match decode_answer P w with
  | Ok (Responses.RPkt e ack pkt) =>
    match e with
    | Responses.ENone => VPacket false ack (fields_pkt pkt)
    | _ => VPacket true ack (fields_pkt pkt)
    end
  | Ok (Responses.RError _) => VError
  | Ok _ => VOther
  | Err _ => VUndecodable
  | Panic s => VPanic s
  end.

(* ------------------------------------------------------------------------------------------------ *)
(* the system *)

Record wsys := {
  base : sys;                               (* the four queues, the clock and the ghost byte histories; queries = answers = [] *)
  wqueries : list (nat * bytes);            (* (stamp, question octets), newest first *)
  wanswers : list (nat * Wrap.wire) }.      (* (stamp, packed answer), newest first *)

Definition set_hist (s : sys) (q a : list msg) : sys :=
  {| c_in := c_in s; c_out := c_out s; s_in := s_in s; s_out := s_out s; queries := q; answers := a;
     clock := clock s; acc_c := acc_c s; acc_s := acc_s s; rd_c := rd_c s; rd_s := rd_s s; n_acc_c := n_acc_c s; n_acc_s := n_acc_s s;
     lost_c := lost_c s; lost_s := lost_s s |}.
Definition clear (s : sys) : sys := set_hist s [] [].

Definition winit (c0 s0 : N) : wsys := {| base := init c0 s0; wqueries := []; wanswers := [] |}.

Inductive wev :=
| WWrite (client : bool) (data : bytes) (mtu : nat)
| WQuery (r : bytes)                         (* the three cache characters of this query *)
| WDeliverS (i : nat)
| WDeliverC (j : nat)
| WRead (client : bool) (n : nat)
| WPump (client : bool) (k : nat) (len : nat) (fill : N) (r : bytes).

Inductive wobs :=
| WO (o : obs)                                             (* write, read, pump, bad index: as in Queue/Link.v *)
| WQ (o : obs) (len : N)                                   (* query formed: OQuery ack seq, length of the packed query message *)
| WQFail (o : obs) (toolong : bool)                        (* EncodeDnsRequest / Pack failed: no query leaves the client *)
| WS (v : cview) (nrec : nat) (len : N)                    (* the server answered; v = what a client makes of that answer *)
| WSDrop (why : bytes)                                     (* the server could not read the query: no state change, no answer *)
| WSNoAnswer (pack : bool) (toolong : bool) (nrec : nat)   (* the server handled the packet but no answer could be sent *)
| WC (o : obs)                                             (* client end of the exchange: OClient code *)
| WPanic (site : bytes).

Definition with_base (ws : wsys) (b : sys) : wsys := {| base := b; wqueries := wqueries ws; wanswers := wanswers ws |}.

(* SendAndReceive, request half, down to the octets *)
Definition w_query (P : wparams) (ws : wsys) (r : bytes) : wsys * wobs :=
  let (b1, o) := do_query (base ws) in
  match queries b1 with
  | m :: _ =>
    match form_query P (m_ack m) (m_pkt m) r with
    | Ok wq => ({| base := clear b1; wqueries := (m_stamp m, wq) :: wqueries ws; wanswers := wanswers ws |},
                WQ o (12 + N.of_nat (List.length wq)))
    | Err e => (with_base ws (clear b1), WQFail o (bytes_eqb e (wd "toolong")))
    | Panic s => (with_base ws (clear b1), WPanic s)
    end
  | [] => (ws, WO OBad)
  end.

(* onMessage + packet() on the octets of a query *)
Definition w_server (P : wparams) (ws : wsys) (wq : bytes) : wsys * wobs :=
  match decode_query P wq with
  | Panic s => (ws, WPanic s)
  | Err e => (ws, WSDrop e)
  | Ok (qname, qt, Requests.RPacket u ack pkt) =>
    if negb (u =? Requests.reduce_uid (wp_uid P)) then (ws, WSDrop (wd "user"))
    else
      let m := {| m_ack := ack; m_pkt := fields_pkt pkt; m_err := false; m_stamp := 0 |} in
      let b := base ws in
      let (b1, _) := server_handle b m in
      match answers b1 with
      | ans :: _ =>
        let r := if m_err ans
                 then Responses.RPkt (Responses.ECustom
                        (seq_err_text (match pkt with Some (s, _) => s | None => 0 end) (in_next (s_in b)) (in_acked (s_in b)))) 0 None
                 else Responses.RPkt Responses.ENone (m_ack ans) (pkt_fields (m_pkt ans)) in
        match form_answer P qt qname r with
        | FOk w n => ({| base := clear b1; wqueries := wqueries ws; wanswers := (m_stamp ans, w) :: wanswers ws |},
                      WS (client_view P w) n (Wrap.wire_len w))
        | FEnc tl => (with_base ws (clear b1), WSNoAnswer false tl 0)
        | FPack n => (with_base ws (clear b1), WSNoAnswer true false n)
        | FPanic s => (with_base ws (clear b1), WPanic s)
        end
      | [] => (ws, WO OBad)
      end
  | Ok _ => (ws, WSDrop (wd "command"))
  end.

(* SendAndReceive, response half, from the packed answer *)
Definition w_client (P : wparams) (ws : wsys) (w : Wrap.wire) : wsys * wobs :=
  match client_view P w with
  | VPacket e ack pkt =>
    let (b1, o) := client_handle (base ws) {| m_ack := ack; m_pkt := pkt; m_err := e; m_stamp := 0 |} in
    (with_base ws b1, WC o)
  | VError => (ws, WC (OClient 3))
  | VUndecodable => (ws, WC (OClient 4))
  | VOther => (ws, WC (OClient 5))
  | VPanic s => (ws, WPanic s)
  end.

Definition w_write (ws : wsys) (c : bool) (d : bytes) (mtu : nat) : wsys * wobs :=
  let (b1, o) := do_write (base ws) c d mtu in (with_base ws b1, WO o).
Definition w_read (ws : wsys) (c : bool) (n : nat) : wsys * wobs :=
  let (b1, o) := do_read (base ws) c n in (with_base ws b1, WO o).
Definition w_check_lost (ws : wsys) : wsys := with_base ws (check_lost (base ws)).

(* one faithful exchange through the wire: the newest stored query reaches the server, the newest stored answer the client *)
Definition w_faithful_round (P : wparams) (ws : wsys) (r : bytes) : wsys :=
  let (w1, _) := w_query P ws r in
  let w2 := match wqueries w1 with (_, q) :: _ => fst (w_server P w1 q) | [] => w1 end in
  let w3 := match wanswers w2 with (_, a) :: _ => fst (w_client P w2 a) | [] => w2 end in
  let w4 := fst (w_read w3 true (List.length (in_buf (c_in (base w3))))) in
  w_check_lost (fst (w_read w4 false (List.length (in_buf (s_in (base w4)))))).

Fixpoint w_pump (P : wparams) (ws : wsys) (client : bool) (k : nat) (len : nat) (fill : N) (r : bytes) : wsys :=
  match k with
  | O => ws
  | S k' =>
    let w1 := fst (w_write ws client (pump_data len fill) len) in
    w_pump P (w_faithful_round P w1 r) client k' len ((fill + 1) mod 251) r
  end.

Definition wstep0 (P : wparams) (ws : wsys) (e : wev) : wsys * wobs :=
  match e with
  | WWrite c d mtu => w_write ws c d mtu
  | WQuery r => w_query P ws r
  | WDeliverS i => match nth_oldest (wqueries ws) i with Some (_, q) => w_server P ws q | None => (ws, WO OBad) end
  | WDeliverC j => match nth_oldest (wanswers ws) j with Some (_, a) => w_client P ws a | None => (ws, WO OBad) end
  | WRead c n => w_read ws c n
  | WPump c k len fill r => (w_pump P ws c k len fill r, WO OPump)
  end.

Definition wstep (P : wparams) (ws : wsys) (e : wev) : wsys * wobs :=
  let (ws', o) := wstep0 P ws e in (w_check_lost ws', o).

Fixpoint wrun (P : wparams) (ws : wsys) (evs : list wev) : wsys * list wobs :=
  match evs with
  | [] => (ws, [])
  | e :: r => let (w1, o) := wstep P ws e in let (w2, os) := wrun P w1 r in (w2, o :: os)
  end.

(* ------------------------------------------------------------------------------------------------ *)
(* the abstract event / observation a wire-level one stands for *)
Definition abs_ev (e : wev) : ev :=
  match e with
  | WWrite c d mtu => EWrite c d mtu
  | WQuery _ => EQuery
  | WDeliverS i => EDeliverS i
  | WDeliverC j => EDeliverC j
  | WRead c n => ERead c n
  | WPump c k len fill _ => EPump c k len fill
  end.

Definition abs_obs (o : wobs) : obs :=
  match o with
  | WO o | WQ o _ | WQFail o _ | WC o => o
  | WS (VPacket e a p) _ _ => OServer e a (seq_of p)
  | WS _ _ _ | WSDrop _ | WSNoAnswer _ _ _ | WPanic _ => OBad
  end.

(* an exchange that failed in any way: the errors of Queue/Link.v, an answer the client cannot use, a message that was not formed,
   could not be read or was dropped *)
Definition w_is_err (o : wobs) : bool :=
  match o with
  | WO _ | WQ _ _ => false
  | WS (VPacket e _ _) _ _ => e
  | WC (OClient c) => negb (c =? 0)
  | _ => true
  end.

(* ------------------------------------------------------------------------------------------------ *)
(* harness protocol
   c01w <cu> <cd> <rrtype> <uid> <#domain> <c0> <s0> events...
     events: w <side 0=client 1=server> <#data> <mtu> | q <#cache> | ds <i> | dc <j> | r <side> <n> | pump <side> <k> <len> <fill> <#cache> *)
Fixpoint parse_wevs (fuel : nat) (ts : list tok) : list wev :=
  match fuel with
  | O => []
  | S f =>
    match ts with
    | t :: rest =>
      if is_word "w" t then
        match rest with
        | TI side :: TB d :: TI mtu :: rest1 => WWrite (Z.eqb side 0) d (Z.to_nat mtu) :: parse_wevs f rest1
        | _ => []
        end
      else if is_word "q" t then
        match rest with TB r :: rest1 => WQuery r :: parse_wevs f rest1 | _ => [] end
      else if is_word "ds" t then
        match rest with TI a :: rest1 => WDeliverS (Z.to_nat a) :: parse_wevs f rest1 | _ => [] end
      else if is_word "dc" t then
        match rest with TI a :: rest1 => WDeliverC (Z.to_nat a) :: parse_wevs f rest1 | _ => [] end
      else if is_word "r" t then
        match rest with TI a :: TI b :: rest1 => WRead (Z.eqb a 0) (Z.to_nat b) :: parse_wevs f rest1 | _ => [] end
      else if is_word "pump" t then
        match rest with
        | TI a :: TI b :: TI c :: TI d :: TB r :: rest1 =>
          WPump (Z.eqb a 0) (Z.to_nat b) (Z.to_nat c) (Z.to_N d) r :: parse_wevs f rest1
        | _ => []
        end
      else []
    | [] => []
    end
  end.

Definition cview_toks (v : cview) : list tok :=
  match v with
  | VPacket e a p => [Tbool e; TN a; opt_tok (seq_of p)]
  | VError => [W "error"]
  | VOther => [W "other"]
  | VUndecodable => [W "undecodable"]
  | VPanic s => [W "panic"; TW s]
  end.

Definition wobs_toks (o : wobs) : list tok :=
  match o with
  | WO o => obs_toks o
  | WQ o len => obs_toks o ++ [W "ok"; TN len]
  | WQFail o tl => obs_toks o ++ [W "encerr"; W (if tl then "toolong" else "other")]
  | WS v n len => W "s" :: cview_toks v ++ [W "rec"; Tnat n; TN len]
  | WSDrop _ => [W "s"; W "drop"]
  | WSNoAnswer pk tl n => [W "s"; W "noanswer"; W (if pk then "packerr" else if tl then "toolong" else "other"); Tnat n]
  | WC o => obs_toks o
  | WPanic s => [W "panic"; TW s]
  end.

Definition wfinal_toks (ws : wsys) : list tok :=
  final_toks (base ws) ++ [W "wire"; Tnat (List.length (wqueries ws)); Tnat (List.length (wanswers ws))].

Definition dispatch_c01w (ts : list tok) : list tok :=
  match ts with
  | t :: TI cu :: TI cd :: TI qt :: TI uid :: TB dom :: TI c0 :: TI s0 :: rest =>
    if is_word "c01w" t then
      match Requests.codec_of_z cu, Requests.codec_of_z cd, Wrap.rtype_of_code (Requests.u16 qt) with
      | Some u, Some d, Some rt =>
        let P := {| wp_dom := dom; wp_cu := u; wp_cd := d; wp_rt := rt; wp_uid := Requests.u16 uid |} in
        let (ws, os) := wrun P (winit (Z.to_N c0) (Z.to_N s0)) (parse_wevs (List.length rest + 1) rest) in
        flat_map wobs_toks os ++ wfinal_toks ws
      | _, _, _ => [W "model-error"]
      end
    else [W "model-error"]
  | _ => [W "model-error"]
  end.
