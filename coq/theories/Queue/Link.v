(* C07: two tunnel endpoints wired as SendAndReceive (client) and packet() (server) wire them, and a network that
   keeps every query and every answer ever formed and may deliver any of them, any number of times, at any later time. *)
From Coq Require Import String List NArith ZArith Bool Arith.
From SA Require Import Base.Tok Gen.QueueConsts Queue.Queues.
Import ListNotations.
Open Scope N_scope.

Record msg := { m_ack : N; m_pkt : option packet; m_err : bool; m_stamp : nat }.

Record sys := {
  c_in : inq; c_out : outq; s_in : inq; s_out : outq;
  queries : list msg;            (* newest first *)
  answers : list msg;            (* newest first *)
  clock : nat;                   (* number of messages formed so far *)
  acc_c : bytes; acc_s : bytes;  (* bytes accepted by Write on each side, reversed *)
  rd_c : bytes; rd_s : bytes;    (* bytes returned by Read on each side, reversed *)
  n_acc_c : N; n_acc_s : N;      (* their lengths *)
  lost_c : bool; lost_s : bool;  (* a Write of that side had returned (queue drained) while accepted bytes were not yet at the peer *)
}.

Definition init (c0 s0 : N) : sys :=
  {| c_in := new_inq s0; c_out := new_outq c0; s_in := new_inq c0; s_out := new_outq s0;
     queries := []; answers := []; clock := 0;
     acc_c := []; acc_s := []; rd_c := []; rd_s := []; n_acc_c := 0; n_acc_s := 0; lost_c := false; lost_s := false |}.

Inductive ev :=
| EWrite (client : bool) (data : bytes) (mtu : nat)
| EQuery
| EDeliverS (i : nat)          (* the i-th query ever formed (0 = first) reaches the server *)
| EDeliverC (j : nat)          (* the j-th answer ever formed reaches the client *)
| ERead (client : bool) (n : nat)
| EPump (client : bool) (k : nat) (len : nat) (fill : N).

(* observations *)
Inductive obs :=
| OWrite (chunks : nat) | OBusy | OStuck
| OQuery (ack : N) (p : option N)
| OServer (err : bool) (ack : N) (p : option N)
| OClient (code : N)      (* 0 ok, 1 invalid sequence number, 2 error answer *)
| OBad
| ORead (b : bytes)
| OPump.

Definition upd_c_in (s : sys) (q : inq) : sys :=
  {| c_in := q; c_out := c_out s; s_in := s_in s; s_out := s_out s; queries := queries s; answers := answers s;
     clock := clock s; acc_c := acc_c s; acc_s := acc_s s; rd_c := rd_c s; rd_s := rd_s s ; n_acc_c := n_acc_c s; n_acc_s := n_acc_s s; lost_c := lost_c s; lost_s := lost_s s |}.
Definition upd_c_out (s : sys) (q : outq) : sys :=
  {| c_in := c_in s; c_out := q; s_in := s_in s; s_out := s_out s; queries := queries s; answers := answers s;
     clock := clock s; acc_c := acc_c s; acc_s := acc_s s; rd_c := rd_c s; rd_s := rd_s s ; n_acc_c := n_acc_c s; n_acc_s := n_acc_s s; lost_c := lost_c s; lost_s := lost_s s |}.
Definition upd_s_in (s : sys) (q : inq) : sys :=
  {| c_in := c_in s; c_out := c_out s; s_in := q; s_out := s_out s; queries := queries s; answers := answers s;
     clock := clock s; acc_c := acc_c s; acc_s := acc_s s; rd_c := rd_c s; rd_s := rd_s s ; n_acc_c := n_acc_c s; n_acc_s := n_acc_s s; lost_c := lost_c s; lost_s := lost_s s |}.
Definition upd_s_out (s : sys) (q : outq) : sys :=
  {| c_in := c_in s; c_out := c_out s; s_in := s_in s; s_out := q; queries := queries s; answers := answers s;
     clock := clock s; acc_c := acc_c s; acc_s := acc_s s; rd_c := rd_c s; rd_s := rd_s s ; n_acc_c := n_acc_c s; n_acc_s := n_acc_s s; lost_c := lost_c s; lost_s := lost_s s |}.

Definition nth_oldest {A} (l : list A) (i : nat) : option A :=
  if Nat.ltb i (List.length l) then nth_error l (List.length l - 1 - i) else None.

Definition seq_of (p : option packet) : option N := match p with Some x => Some (p_seq x) | None => None end.

(* Write: allowed when the out queue is empty (Write blocks until then); queues all chunks *)
Definition do_write (s : sys) (client : bool) (data : bytes) (mtu : nat) : sys * obs :=
  let q := if client then c_out s else s_out s in
  match out_q q with
  | _ :: _ => (s, OBusy)
  | [] =>
    match write_chunks (S (List.length data)) q data mtu with
    | None => (s, OStuck)
    | Some q' =>
      let n := List.length (out_q q') in
      if client then
        ({| c_in := c_in s; c_out := q'; s_in := s_in s; s_out := s_out s; queries := queries s; answers := answers s;
            clock := clock s; acc_c := rev_append data (acc_c s); acc_s := acc_s s; rd_c := rd_c s; rd_s := rd_s s; n_acc_c := n_acc_c s + N.of_nat (List.length data); n_acc_s := n_acc_s s; lost_c := lost_c s; lost_s := lost_s s |}, OWrite n)
      else
        ({| c_in := c_in s; c_out := c_out s; s_in := s_in s; s_out := q'; queries := queries s; answers := answers s;
            clock := clock s; acc_c := acc_c s; acc_s := rev_append data (acc_s s); rd_c := rd_c s; rd_s := rd_s s; n_acc_c := n_acc_c s; n_acc_s := n_acc_s s + N.of_nat (List.length data); lost_c := lost_c s; lost_s := lost_s s |}, OWrite n)
    end
  end.

(* SendAndReceive, request half: LastAckedSeqNo = in.NextSeqNo - 1, Packet = out.NextChunk() *)
Definition do_query (s : sys) : sys * obs :=
  let (co, p) := next_chunk (c_out s) in
  let a := u16 (in_next (c_in s) + M - 1) in
  let m := {| m_ack := a; m_pkt := p; m_err := false; m_stamp := clock s |} in
  ({| c_in := c_in s; c_out := co; s_in := s_in s; s_out := s_out s; queries := m :: queries s; answers := answers s;
      clock := S (clock s); acc_c := acc_c s; acc_s := acc_s s; rd_c := rd_c s; rd_s := rd_s s ; n_acc_c := n_acc_c s; n_acc_s := n_acc_s s; lost_c := lost_c s; lost_s := lost_s s |},
   OQuery a (seq_of p)).

(* packet(): UpdateAcked; Append; on success answer (in.NextSeqNo - 1, out.NextChunk()), else the error answer *)
Definition server_handle (s : sys) (m : msg) : sys * obs :=
  let so := update_acked (s_out s) (m_ack m) in
  let (si, err) := in_append (s_in s) (m_pkt m) in
  if err then
    let ans := {| m_ack := 0; m_pkt := None; m_err := true; m_stamp := clock s |} in
    ({| c_in := c_in s; c_out := c_out s; s_in := si; s_out := so; queries := queries s; answers := ans :: answers s;
        clock := S (clock s); acc_c := acc_c s; acc_s := acc_s s; rd_c := rd_c s; rd_s := rd_s s ; n_acc_c := n_acc_c s; n_acc_s := n_acc_s s; lost_c := lost_c s; lost_s := lost_s s |},
     OServer true 0 None)
  else
    let a := u16 (in_next si + M - 1) in
    let (so', p) := next_chunk so in
    let ans := {| m_ack := a; m_pkt := p; m_err := false; m_stamp := clock s |} in
    ({| c_in := c_in s; c_out := c_out s; s_in := si; s_out := so'; queries := queries s; answers := ans :: answers s;
        clock := S (clock s); acc_c := acc_c s; acc_s := acc_s s; rd_c := rd_c s; rd_s := rd_s s ; n_acc_c := n_acc_c s; n_acc_s := n_acc_s s; lost_c := lost_c s; lost_s := lost_s s |},
     OServer false a (seq_of p)).

(* SendAndReceive, response half: an error answer is returned as an error; otherwise UpdateAcked; Append *)
Definition client_handle (s : sys) (m : msg) : sys * obs :=
  if m_err m then (s, OClient 2)
  else
    let co := update_acked (c_out s) (m_ack m) in
    let (ci, err) := in_append (c_in s) (m_pkt m) in
    (upd_c_in (upd_c_out s co) ci, OClient (if err then 1 else 0)).

Definition do_read (s : sys) (client : bool) (n : nat) : sys * obs :=
  if client then
    let (q, b) := in_read (c_in s) n in
    ({| c_in := q; c_out := c_out s; s_in := s_in s; s_out := s_out s; queries := queries s; answers := answers s;
        clock := clock s; acc_c := acc_c s; acc_s := acc_s s; rd_c := rev_append b (rd_c s); rd_s := rd_s s ; n_acc_c := n_acc_c s; n_acc_s := n_acc_s s; lost_c := lost_c s; lost_s := lost_s s |}, ORead b)
  else
    let (q, b) := in_read (s_in s) n in
    ({| c_in := c_in s; c_out := c_out s; s_in := q; s_out := s_out s; queries := queries s; answers := answers s;
        clock := clock s; acc_c := acc_c s; acc_s := acc_s s; rd_c := rd_c s; rd_s := rev_append b (rd_s s) ; n_acc_c := n_acc_c s; n_acc_s := n_acc_s s; lost_c := lost_c s; lost_s := lost_s s |}, ORead b).

(* "a write reported as successful is delivered": Write returns when its queue has drained; at that moment every
   accepted byte must have been appended at the peer *)
Definition check_lost (s : sys) : sys :=
  let lc := match out_q (c_out s) with [] => in_total (s_in s) <? n_acc_c s | _ => false end in
  let ls := match out_q (s_out s) with [] => in_total (c_in s) <? n_acc_s s | _ => false end in
  {| c_in := c_in s; c_out := c_out s; s_in := s_in s; s_out := s_out s; queries := queries s; answers := answers s;
     clock := clock s; acc_c := acc_c s; acc_s := acc_s s; rd_c := rd_c s; rd_s := rd_s s;
     n_acc_c := n_acc_c s; n_acc_s := n_acc_s s; lost_c := lost_c s || lc; lost_s := lost_s s || ls |}.

(* one faithful exchange: the client asks, the server gets exactly that query, the client gets exactly that answer;
   both applications then read whatever arrived *)
Definition faithful_round (s : sys) : sys :=
  let (s1, _) := do_query s in
  let s2 := match queries s1 with m :: _ => fst (server_handle s1 m) | [] => s1 end in
  let s3 := match answers s2 with m :: _ => fst (client_handle s2 m) | [] => s2 end in
  let s4 := fst (do_read s3 true (List.length (in_buf (c_in s3)))) in
  check_lost (fst (do_read s4 false (List.length (in_buf (s_in s4))))).

Definition pump_data (len : nat) (fill : N) : bytes :=
  map (fun j => (fill + N.of_nat j) mod 251) (seq 0 len).

(* k times: write len bytes as one chunk when the out queue is empty, then one faithful exchange *)
Fixpoint pump (s : sys) (client : bool) (k : nat) (len : nat) (fill : N) : sys :=
  match k with
  | O => s
  | S k' =>
    let s1 := fst (do_write s client (pump_data len fill) len) in
    pump (faithful_round s1) client k' len ((fill + 1) mod 251)
  end.

Definition step0 (s : sys) (e : ev) : sys * obs :=
  match e with
  | EWrite c d mtu => do_write s c d mtu
  | EQuery => do_query s
  | EDeliverS i => match nth_oldest (queries s) i with Some m => server_handle s m | None => (s, OBad) end
  | EDeliverC j => match nth_oldest (answers s) j with Some m => client_handle s m | None => (s, OBad) end
  | ERead c n => do_read s c n
  | EPump c k len fill => (pump s c k len fill, OPump)
  end.

Definition step (s : sys) (e : ev) : sys * obs :=
  let (s', o) := step0 s e in (check_lost s', o).

Fixpoint run (s : sys) (evs : list ev) : sys * list obs :=
  match evs with
  | [] => (s, [])
  | e :: r => let (s1, o) := step s e in let (s2, os) := run s1 r in (s2, o :: os)
  end.

(* ---- harness protocol
   c07 <c0> <s0> events...   events: w <side 0=client 1=server> <#data> <mtu> | q | ds <i> | dc <j> | r <side> <n> | pump <side> <k> <len> <fill> *)
Fixpoint parse_evs (fuel : nat) (ts : list tok) : list ev :=
  match fuel with
  | O => []
  | S f =>
    match ts with
    | t :: TI side :: TB d :: TI mtu :: rest =>
      if is_word "w" t then EWrite (Z.eqb side 0) d (Z.to_nat mtu) :: parse_evs f rest else parse_evs1 f ts
    | _ => parse_evs1 f ts
    end
  end
with parse_evs1 (fuel : nat) (ts : list tok) : list ev :=
  match fuel with
  | O => []
  | S f =>
    match ts with
    | t :: rest =>
      if is_word "q" t then EQuery :: parse_evs f rest
      else match rest with
      | TI a :: rest1 =>
        if is_word "ds" t then EDeliverS (Z.to_nat a) :: parse_evs f rest1
        else if is_word "dc" t then EDeliverC (Z.to_nat a) :: parse_evs f rest1
        else match rest1 with
        | TI b :: rest2 =>
          if is_word "r" t then ERead (Z.eqb a 0) (Z.to_nat b) :: parse_evs f rest2
          else match rest2 with
          | TI c :: TI d :: rest3 =>
            if is_word "pump" t then EPump (Z.eqb a 0) (Z.to_nat b) (Z.to_nat c) (Z.to_N d) :: parse_evs f rest3 else []
          | _ => []
          end
        | _ => []
        end
      | _ => []
      end
    | [] => []
    end
  end.

Definition opt_tok (o : option N) : tok := match o with Some x => TN x | None => TI (-1) end.

Definition obs_toks (o : obs) : list tok :=
  match o with
  | OWrite n => [W "w"; Tnat n]
  | OBusy => [W "busy"]
  | OStuck => [W "stuck"]
  | OQuery a p => [W "q"; TN a; opt_tok p]
  | OServer e a p => [W "s"; Tbool e; TN a; opt_tok p]
  | OClient c => [W "c"; TN c]
  | OBad => [W "x"]
  | ORead b => [W "r"; TB b]
  | OPump => [W "p"]
  end.

Definition final_toks (s : sys) : list tok :=
  [W "end"; TN (in_next (c_in s)); TN (out_next (c_out s)); TN (in_next (s_in s)); TN (out_next (s_out s));
   Tnat (List.length (out_q (c_out s))); Tnat (List.length (out_q (s_out s)));
   Tnat (List.length (in_future (c_in s))); Tnat (List.length (in_future (s_in s)));
   Tnat (List.length (in_acked (c_in s))); Tnat (List.length (in_acked (s_in s)));
   Tnat (List.length (out_acked (c_out s))); Tnat (List.length (out_acked (s_out s)));
   TB (in_buf (c_in s)); TB (in_buf (s_in s));
   TB (rev_append (rd_c s) []); TB (rev_append (rd_s s) []); TB (rev_append (acc_c s) []); TB (rev_append (acc_s s) []); Tbool (lost_c s); Tbool (lost_s s)].

Definition dispatch_c07 (ts : list tok) : list tok :=
  match ts with
  | t :: TI c0 :: TI s0 :: rest =>
    if is_word "c07" t then
      let (s, os) := run (init (Z.to_N c0) (Z.to_N s0)) (parse_evs (2 * List.length rest + 2) rest) in
      flat_map obs_toks os ++ final_toks s
    else [W "model-error"]
  | _ => [W "model-error"]
  end.
