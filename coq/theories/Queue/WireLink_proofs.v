(* The wire-level link (Queue/WireLink.v) refines the abstract link (Queue/Link.v): for well-formed parameters and admissible
   histories, the run over octets and packed messages and the run over abstract message records make the same observations and
   reach related states - every stored question decodes (at the server) to the abstract query, every stored answer decodes (at the
   client) to the abstract answer.  The theorems of Queue/Link_proofs.v then hold verbatim for the wire-level system.
   The queue invariant is NOT proved again: the refinement is a simulation, and the C07 theorems are applied to the abstract run. *)
From Coq Require Import String List NArith ZArith Bool Arith Lia.
From Coq Require Import ZifyN ZifyNat ZifyBool.
From SA Require Import Base.Tok Codec.Codec Gen.QueueConsts Queue.Queues Queue.Link Queue.Half Queue.Inv Queue.Link_proofs.
From SA Require Import Queue.WireLink Queue.WireGlue_proofs.
From SA Require Wire.Name Wire.Requests Wrap.Wrap Wrap.Responses Wrap.Wrap_proofs.
Import ListNotations.
Ltac Zify.zify_post_hook ::= Z.to_euclidean_division_equations.
Local Open Scope nat_scope.

Ltac prj := cbn [clear set_hist with_base base wqueries wanswers c_in c_out s_in s_out queries answers clock acc_c acc_s rd_c rd_s
                 n_acc_c n_acc_s lost_c lost_s fst snd upd_c_in upd_c_out upd_s_in upd_s_out] in *.

Lemma u16_lt n : (u16 n < 65536)%N.
Proof. unfold u16, M. lia. Qed.

(* ------------------------------------------------------------------------------------------------ *)
(* the operations of Queue/Link.v do not look at the two message histories *)

Lemma set_hist_eta s : set_hist s (queries s) (answers s) = s.
Proof. destruct s; reflexivity. Qed.

Lemma do_write_clear s c d mtu :
  do_write (clear s) c d mtu = (clear (fst (do_write s c d mtu)), snd (do_write s c d mtu)) /\
  queries (fst (do_write s c d mtu)) = queries s /\ answers (fst (do_write s c d mtu)) = answers s.
Proof.
  unfold do_write. destruct c; prj.
  - destruct (out_q (c_out s)); [|split; [reflexivity | split; reflexivity]].
    destruct (write_chunks _ _ _ _); split; try reflexivity; split; reflexivity.
  - destruct (out_q (s_out s)); [|split; [reflexivity | split; reflexivity]].
    destruct (write_chunks _ _ _ _); split; try reflexivity; split; reflexivity.
Qed.

Lemma do_read_clear s c n :
  do_read (clear s) c n = (clear (fst (do_read s c n)), snd (do_read s c n)) /\
  queries (fst (do_read s c n)) = queries s /\ answers (fst (do_read s c n)) = answers s.
Proof. unfold do_read. destruct c; prj; unfold in_read; prj; split; try reflexivity; split; reflexivity. Qed.

Lemma check_lost_clear s :
  check_lost (clear s) = clear (check_lost s) /\ queries (check_lost s) = queries s /\ answers (check_lost s) = answers s.
Proof. unfold check_lost. prj. split; [reflexivity | split; reflexivity]. Qed.

(* the query do_query forms *)
Definition qm (s : sys) : msg :=
  {| m_ack := u16 (in_next (c_in s) + M - 1); m_pkt := snd (next_chunk (c_out s)); m_err := false; m_stamp := clock s |}.

Lemma do_query_clear s :
  do_query (clear s) = (set_hist (fst (do_query s)) [qm s] [], snd (do_query s)) /\
  queries (fst (do_query s)) = qm s :: queries s /\ answers (fst (do_query s)) = answers s /\
  snd (do_query s) = OQuery (m_ack (qm s)) (seq_of (m_pkt (qm s))) /\
  c_out (fst (do_query s)) = fst (next_chunk (c_out s)) /\ s_out (fst (do_query s)) = s_out s /\
  s_in (fst (do_query s)) = s_in s /\ c_in (fst (do_query s)) = c_in s.
Proof.
  unfold do_query, qm. prj. destruct (next_chunk (c_out s)) as [co p]. prj. repeat split; reflexivity.
Qed.

Lemma client_handle_clear s m :
  client_handle (clear s) m = (clear (fst (client_handle s m)), snd (client_handle s m)) /\
  queries (fst (client_handle s m)) = queries s /\ answers (fst (client_handle s m)) = answers s /\
  s_out (fst (client_handle s m)) = s_out s /\
  (c_out (fst (client_handle s m)) = c_out s \/ c_out (fst (client_handle s m)) = update_acked (c_out s) (m_ack m)).
Proof.
  unfold client_handle. destruct (m_err m); prj; [repeat split; auto|].
  destruct (in_append (c_in s) (m_pkt m)) as [ci e]. prj. repeat split; auto.
Qed.

Lemma client_handle_ext s m m' : m_ack m = m_ack m' -> m_pkt m = m_pkt m' -> m_err m = m_err m' -> client_handle s m = client_handle s m'.
Proof. intros E1 E2 E3. unfold client_handle. rewrite E1, E2, E3. reflexivity. Qed.

Lemma server_handle_ext s m m' : m_ack m = m_ack m' -> m_pkt m = m_pkt m' -> server_handle s m = server_handle s m'.
Proof. intros E1 E2. unfold server_handle. rewrite E1, E2. reflexivity. Qed.

(* the answer server_handle forms: either the error answer (the packet was outside the window) or acknowledgement + next chunk *)
Lemma server_handle_clear s m :
  exists ans,
    server_handle (clear s) m = (set_hist (fst (server_handle s m)) [] [ans], snd (server_handle s m)) /\
    answers (fst (server_handle s m)) = ans :: answers s /\ queries (fst (server_handle s m)) = queries s /\
    snd (server_handle s m) = OServer (m_err ans) (m_ack ans) (seq_of (m_pkt ans)) /\
    m_stamp ans = clock s /\ c_out (fst (server_handle s m)) = c_out s /\
    ((m_err ans = true /\ m_ack ans = 0%N /\ m_pkt ans = None /\ m_pkt m <> None /\
      s_out (fst (server_handle s m)) = update_acked (s_out s) (m_ack m)) \/
     (m_err ans = false /\ m_ack ans = u16 (in_next (s_in (fst (server_handle s m))) + M - 1) /\
      s_out (fst (server_handle s m)) = clean (update_acked (s_out s) (m_ack m)) /\
      m_pkt ans = hd_error (out_q (s_out (fst (server_handle s m)))))).
Proof.
  unfold server_handle. prj.
  destruct (in_append (s_in s) (m_pkt m)) as [si err] eqn:Ea. destruct err.
  - eexists. prj. repeat split; try reflexivity. left. repeat split; try reflexivity.
    intros En. rewrite En in Ea. cbn in Ea. discriminate Ea.
  - unfold next_chunk. prj. eexists. prj. repeat split; try reflexivity. right. repeat split; reflexivity.
Qed.

(* ------------------------------------------------------------------------------------------------ *)
(* what is queued for sending stays well-formed: 16-bit numbers, octets, at most one fragment *)

Definition chunks_ok (bound : nat) (q : outq) : Prop := Forall (chunk_ok bound) (out_q q) /\ (out_next q < 65536)%N.

Lemma remove_first_seq_Forall (Q : packet -> Prop) a l : Forall Q l -> Forall Q (remove_first_seq a l).
Proof.
  induction 1 as [|p l Hp Hl IH]; cbn [remove_first_seq]; [constructor|].
  destruct (N.eqb (p_seq p) a); [exact Hl | constructor; assumption].
Qed.

Lemma clean_ok b q : chunks_ok b q -> chunks_ok b (clean q).
Proof.
  intros [H1 H2]. split; [|exact H2]. unfold clean. cbn [out_q].
  revert H1. generalize (out_q q). induction (out_acked q) as [|a l IH]; intros o Ho; cbn [fold_left]; [exact Ho|].
  apply IH. apply remove_first_seq_Forall, Ho.
Qed.

Lemma update_acked_ok b q a : chunks_ok b q -> chunks_ok b (update_acked q a).
Proof.
  intros H. unfold update_acked. destruct (mem_seq a (out_acked q)); [exact H|].
  apply clean_ok. destruct H as [H1 H2]. split; assumption.
Qed.

Lemma add_chunk_ok b q d : chunks_ok b q -> wf_bytes d -> length d <= b -> chunks_ok b (add_chunk q d).
Proof.
  intros [H1 H2] Hd Hl. split; cbn [add_chunk out_q out_next]; [|apply u16_lt].
  apply Forall_app. split; [exact H1|]. constructor; [|constructor]. repeat split; assumption.
Qed.

Lemma write_chunks_ok b mtu : mtu <= b -> forall fuel q d q',
  chunks_ok b q -> wf_bytes d -> write_chunks fuel q d mtu = Some q' -> chunks_ok b q'.
Proof.
  intros Hm. induction fuel as [|f IH]; intros q d q' Hq Hd; cbn [write_chunks].
  - destruct d; [intros E; injection E as <-; exact Hq | discriminate].
  - destruct d as [|x d']; [intros E; injection E as <-; exact Hq|].
    destruct (Nat.ltb_spec mtu (length (x :: d'))).
    + apply IH.
      * apply add_chunk_ok; [exact Hq | apply Wrap_proofs.Forall_firstn', Hd | rewrite firstn_length; lia].
      * apply Wrap_proofs.Forall_skipn', Hd.
    + intros E. injection E as <-. apply add_chunk_ok; [exact Hq | exact Hd | lia].
Qed.

Lemma hd_chunk_ok b q : chunks_ok b q -> ochunk_ok b (hd_error (out_q q)).
Proof. intros [H _]. destruct (out_q q); [exact I|]. inversion H; subst. assumption. Qed.

Lemma pump_data_wf len fill : wf_bytes (pump_data len fill).
Proof. unfold pump_data. apply Forall_forall. intros b Hb. apply in_map_iff in Hb. destruct Hb as [j [<- _]]. lia. Qed.

(* what the receiving queue of the server remembers, as far as the error text needs it *)
Definition SrvIn (s : sys) : Prop :=
  (in_next (s_in s) < 65536)%N /\ Forall (fun a => (a < 65536)%N) (in_acked (s_in s)) /\ length (in_acked (s_in s)) <= 128.

Lemma inv_srvin A W c0 s0 s : Link_proofs.Inv A W c0 s0 s -> SrvIn s.
Proof.
  intros [g H]. pose proof (hf_r (i_h1 _ _ _ _ _ _ H)) as Hr. unfold SrvIn.
  rewrite (r_next Hr), (r_ack Hr). split; [apply u16_lt|]. split; [|apply racked_len].
  apply Forall_forall. intros a Ha. apply racked_In in Ha. destruct Ha as [i [-> _]]. apply u16_lt.
Qed.

(* nth_oldest over two related histories *)
Lemma nth_oldest_rel {X Y} (Rl : X -> Y -> Prop) l l' i : Forall2 Rl l l' ->
  match nth_oldest l i, nth_oldest l' i with
  | Some x, Some y => Rl x y
  | None, None => True
  | _, _ => False
  end.
Proof.
  intros HF. pose proof (Wrap_proofs.Forall2_length _ _ _ HF) as El. unfold nth_oldest. rewrite <- El.
  destruct (Nat.ltb_spec i (length l)); [|exact I].
  generalize (length l - 1 - i). clear El H. induction HF as [|x y l l' Hxy _ IH]; intros n; destruct n; cbn [nth_error]; auto.
  apply IH.
Qed.

Lemma do_write_out s c d mtu :
  fst (do_write s c d mtu) = s \/
  exists q', write_chunks (S (length d)) (if c then c_out s else s_out s) d mtu = Some q' /\
             c_out (fst (do_write s c d mtu)) = (if c then q' else c_out s) /\
             s_out (fst (do_write s c d mtu)) = (if c then s_out s else q').
Proof.
  unfold do_write. destruct c.
  - destruct (out_q (c_out s)); [|left; reflexivity]. destruct (write_chunks _ _ _ _) as [q'|]; [|left; reflexivity].
    right. exists q'. repeat split; reflexivity.
  - destruct (out_q (s_out s)); [|left; reflexivity]. destruct (write_chunks _ _ _ _) as [q'|]; [|left; reflexivity].
    right. exists q'. repeat split; reflexivity.
Qed.

(* ------------------------------------------------------------------------------------------------ *)
(* well-formed parameters and admissible wire-level histories *)

(* the negotiated tuple: a tunnel domain, an upstream codec the client can commit to, a (record type, downstream codec) pair that
   carries, a user id the listener hands out, and a downstream fragment size one answer can carry *)
Definition params_ok (P : wparams) (fd : nat) : bool :=
  Name.dom_ok (wp_dom P) && Requests.selectable_up (wp_cu P) && Wrap.carries (wp_rt P) (wp_cd P) && (wp_uid P <? 1296)%N &&
  fd_ok (wp_rt P) (wp_dom P) fd.

(* what the endpoints themselves guarantee: the data are octets, the client cuts its writes into fragments of at most its upstream
   fragment size (getUpstreamMtu), the server into fragments of at most the session's downstream fragment size, and the cache
   characters are three characters of [a-z0-9] *)
Definition wev_ok (P : wparams) (fd : nat) (e : wev) : bool :=
  let bound (c : bool) := if c then Requests.upstream_mtu (wp_dom P) (wp_cu P) else fd in
  match e with
  | WWrite c d mtu => wf_bytesb d && Nat.leb mtu (bound c)
  | WQuery r => Requests.cache_ok r
  | WPump c _ len _ r => Requests.cache_ok r && Nat.leb len (bound c)
  | _ => true
  end.

(* the condition of Queue/Link_proofs.v on the network, read off the wire-level histories: a delivered message is at most A message
   formations old; a write uses a positive fragment size and makes at most W chunks *)
Definition w_age_ok (A W : nat) (ws : wsys) (e : wev) : bool :=
  match e with
  | WDeliverS i => match nth_oldest (wqueries ws) i with Some (st, _) => Nat.leb (clock (base ws) - st) A | None => true end
  | WDeliverC j => match nth_oldest (wanswers ws) j with Some (st, _) => Nat.leb (clock (base ws) - st) A | None => true end
  | WWrite _ d mtu => Nat.ltb 0 mtu && Nat.leb (chunks_of (List.length d) mtu) W
  | WPump _ _ _ _ _ => Nat.leb 1 W
  | _ => true
  end.

Fixpoint wire_admissible (P : wparams) (fd A W : nat) (ws : wsys) (evs : list wev) : bool :=
  match evs with
  | [] => true
  | e :: r => wev_ok P fd e && w_age_ok A W ws e && wire_admissible P fd A W (fst (wstep P ws e)) r
  end.

Section REFINE.
Variables (P : wparams) (fd : nat).
Hypothesis HP : params_ok P fd = true.
Notation mu := (Requests.upstream_mtu (wp_dom P) (wp_cu P)).

Lemma HP_facts : Name.dom_ok (wp_dom P) = true /\ Requests.selectable_up (wp_cu P) = true /\
  Wrap.carries (wp_rt P) (wp_cd P) = true /\ (wp_uid P < 1296)%N /\ fd_ok (wp_rt P) (wp_dom P) fd = true.
Proof. unfold params_ok in HP. rewrite !andb_true_iff in HP. destruct HP as [[[[H1 H2] H3] H4] H5]. repeat split; auto. lia. Qed.

(* a stored question decodes to the abstract query; a stored answer decodes to the abstract answer *)
Definition q_rel (w : (nat * bytes)%type) (m : msg) : Prop :=
  fst w = m_stamp m /\ (m_ack m < 65536)%N /\ ochunk_ok mu (m_pkt m) /\
  exists qname, decode_query P (snd w) = Ok (qname, Wrap.rtype_code (wp_rt P), Requests.RPacket (wp_uid P) (m_ack m) (pkt_fields (m_pkt m)))
                /\ Wrap.qname_ok qname = true.
Definition a_rel (w : (nat * Wrap.wire)%type) (m : msg) : Prop :=
  fst w = m_stamp m /\ client_view P (snd w) = VPacket (m_err m) (m_ack m) (m_pkt m).

Definition R (ws : wsys) (s : sys) : Prop :=
  base ws = clear s /\ Forall2 q_rel (wqueries ws) (queries s) /\ Forall2 a_rel (wanswers ws) (answers s).

Definition WF (s : sys) : Prop := chunks_ok mu (c_out s) /\ chunks_ok fd (s_out s).

(* corresponding observations: the same abstract observation, and the same verdict on "did this exchange fail" *)
Definition obs_rel (o : wobs) (o' : obs) : Prop := abs_obs o = o' /\ w_is_err o = is_err o'.

Lemma sim_write ws s (c : bool) d mtu : R ws s -> WF s -> wf_bytes d -> mtu <= (if c then mu else fd) ->
  R (fst (w_write ws c d mtu)) (fst (do_write s c d mtu)) /\ WF (fst (do_write s c d mtu)) /\
  obs_rel (snd (w_write ws c d mtu)) (snd (do_write s c d mtu)).
Proof.
  intros [Eb [Hq Ha]] [W1 W2] Hd Hm.
  destruct (do_write_clear s c d mtu) as [E [Q A]].
  unfold w_write. rewrite Eb, E. prj. split; [|split].
  - split; [reflexivity|]. prj. rewrite Q, A. split; assumption.
  - destruct (do_write_out s c d mtu) as [Es | [q' [Hw [E1 E2]]]]; [rewrite Es; split; assumption|].
    unfold WF. rewrite E1, E2. destruct c.
    + split; [|exact W2]. eapply write_chunks_ok; [exact Hm | exact W1 | exact Hd | exact Hw].
    + split; [exact W1|]. eapply write_chunks_ok; [exact Hm | exact W2 | exact Hd | exact Hw].
  - split; [reflexivity|]. cbn [w_is_err]. symmetry. apply do_write_obs.
Qed.

Lemma sim_read ws s c n : R ws s -> WF s ->
  R (fst (w_read ws c n)) (fst (do_read s c n)) /\ WF (fst (do_read s c n)) /\ obs_rel (snd (w_read ws c n)) (snd (do_read s c n)).
Proof.
  intros [Eb [Hq Ha]] HW.
  destruct (do_read_clear s c n) as [E [Q A]].
  unfold w_read. rewrite Eb, E. prj. split; [|split].
  - split; [reflexivity|]. prj. rewrite Q, A. split; assumption.
  - unfold do_read. destruct c; unfold in_read; prj; exact HW.
  - split; [reflexivity|]. unfold do_read. destruct c; unfold in_read; reflexivity.
Qed.

Lemma sim_check_lost ws s : R ws s -> WF s -> R (w_check_lost ws) (check_lost s) /\ WF (check_lost s).
Proof.
  intros [Eb [Hq Ha]] HW. destruct (check_lost_clear s) as [E [Q A]]. unfold w_check_lost. rewrite Eb, E. split.
  - split; [reflexivity|]. prj. rewrite Q, A. split; assumption.
  - unfold check_lost, WF. prj. exact HW.
Qed.

Lemma sim_query ws s r : R ws s -> WF s -> Requests.cache_ok r = true ->
  R (fst (w_query P ws r)) (fst (do_query s)) /\ WF (fst (do_query s)) /\ obs_rel (snd (w_query P ws r)) (snd (do_query s)).
Proof.
  intros [Eb [Hq Ha]] [W1 W2] Hr.
  destruct HP_facts as [Hdom [Hcu [_ [Huid _]]]].
  destruct (do_query_clear s) as [E [Q [A [O [C1 [C2 _]]]]]].
  assert (Hchunk : ochunk_ok mu (m_pkt (qm s))).
  { unfold qm, next_chunk. cbn [m_pkt snd]. apply hd_chunk_ok, clean_ok, W1. }
  destruct (query_roundtrip P Hdom Hcu Huid (m_ack (qm s)) (m_pkt (qm s)) r Hr (u16_lt _) Hchunk) as [wq [qname [F [D Hn]]]].
  unfold w_query. rewrite Eb, E. prj. rewrite F. prj. split; [|split].
  - split; [reflexivity|]. prj. rewrite Q, A. split; [|exact Ha]. constructor; [|exact Hq].
    split; [reflexivity|]. split; [apply u16_lt|]. split; [exact Hchunk|]. exists qname. split; assumption.
  - unfold WF. rewrite C1, C2. split; [apply clean_ok, W1 | exact W2].
  - split; [reflexivity|]. rewrite O. reflexivity.
Qed.

Lemma client_obs s m : snd (client_handle s m) = OClient 0 \/ snd (client_handle s m) = OClient 1 \/ snd (client_handle s m) = OClient 2.
Proof.
  unfold client_handle. destruct (m_err m); [auto|]. destruct (in_append (c_in s) (m_pkt m)) as [ci [|]]; cbn [snd]; auto.
Qed.

Lemma sim_server ws s st wq m : R ws s -> WF s -> SrvIn s -> q_rel (st, wq) m ->
  R (fst (w_server P ws wq)) (fst (server_handle s m)) /\ WF (fst (server_handle s m)) /\
  obs_rel (snd (w_server P ws wq)) (snd (server_handle s m)).
Proof.
  intros [Eb [Hq Ha]] [W1 W2] [S1 [S2 S3]] [_ [Hack [Hchunk [qname [D Hn]]]]].
  destruct HP_facts as [Hdom [_ [Hcd [Huid Hfd]]]].
  cbn [snd] in D. unfold w_server. rewrite D.
  replace (wp_uid P =? Requests.reduce_uid (wp_uid P))%N with true
    by (unfold Requests.reduce_uid, Requests.max_user_id; rewrite N.mod_small by exact Huid; symmetry; apply N.eqb_refl).
  cbn [negb]. rewrite fields_pkt_fields.
  destruct (server_handle_clear s m) as [ans [E [A [Q [O [St [C1 Hcase]]]]]]].
  rewrite Eb.
  rewrite (server_handle_ext (clear s) {| m_ack := m_ack m; m_pkt := m_pkt m; m_err := false; m_stamp := 0 |} m eq_refl eq_refl).
  rewrite E. prj.
  assert (Hform : exists w n,
            form_answer P (Wrap.rtype_code (wp_rt P)) qname
              (if m_err ans
               then Responses.RPkt (Responses.ECustom
                      (seq_err_text (match pkt_fields (m_pkt m) with Some (sq, _) => sq | None => 0%N end)
                                    (in_next (s_in s)) (in_acked (s_in s)))) 0 None
               else Responses.RPkt Responses.ENone (m_ack ans) (pkt_fields (m_pkt ans))) = FOk w n /\
            client_view P w = VPacket (m_err ans) (m_ack ans) (m_pkt ans) /\ WF (fst (server_handle s m))).
  { destruct Hcase as [[E1 [E2 [E3 [_ E4]]]] | [E1 [E2 [E3 E4]]]].
    - rewrite E1, E2, E3.
      destruct (answer_roundtrip_error P fd Hdom Hcd Hfd qname
                  (match pkt_fields (m_pkt m) with Some (sq, _) => sq | None => 0%N end) (in_next (s_in s)) (in_acked (s_in s)) Hn)
        as [w [n [F V]]]; try assumption.
      + destruct (m_pkt m) as [x|]; cbn [pkt_fields]; [apply Hchunk | lia].
      + exists w, n. split; [exact F|]. split; [exact V|]. unfold WF. rewrite C1, E4. split; [exact W1 | apply update_acked_ok, W2].
    - assert (Hso : chunks_ok fd (s_out (fst (server_handle s m)))) by (rewrite E3; apply clean_ok, update_acked_ok, W2).
      rewrite E1.
      destruct (answer_roundtrip_packet P fd Hdom Hcd Hfd qname (m_ack ans) (m_pkt ans) Hn) as [w [n [F V]]].
      + rewrite E2. apply u16_lt.
      + rewrite E4. apply hd_chunk_ok, Hso.
      + exists w, n. split; [exact F|]. split; [exact V|]. unfold WF. rewrite C1. split; assumption. }
  destruct Hform as [w [n [F [V HWF]]]]. rewrite F. prj. rewrite V. split; [|split].
  - split; [reflexivity|]. prj. rewrite A, Q. split; [exact Hq|]. constructor; [|exact Ha]. split; [reflexivity | exact V].
  - exact HWF.
  - split; [cbn [abs_obs]; symmetry; exact O|]. rewrite O. cbn [w_is_err]. destruct (m_err ans); reflexivity.
Qed.

Lemma sim_client ws s st wa m : R ws s -> WF s -> a_rel (st, wa) m ->
  R (fst (w_client P ws wa)) (fst (client_handle s m)) /\ WF (fst (client_handle s m)) /\
  obs_rel (snd (w_client P ws wa)) (snd (client_handle s m)).
Proof.
  intros [Eb [Hq Ha]] [W1 W2] [_ V]. cbn [snd] in V.
  destruct (client_handle_clear s m) as [E [Q [A [C2 C1]]]].
  unfold w_client. rewrite V, Eb.
  rewrite (client_handle_ext (clear s) {| m_ack := m_ack m; m_pkt := m_pkt m; m_err := m_err m; m_stamp := 0 |} m eq_refl eq_refl eq_refl).
  rewrite E. prj. split; [|split].
  - split; [reflexivity|]. prj. rewrite Q, A. split; assumption.
  - unfold WF. rewrite C2. split; [|exact W2]. destruct C1 as [-> | ->]; [exact W1 | apply update_acked_ok, W1].
  - split; [reflexivity|]. destruct (client_obs s m) as [-> | [-> | ->]]; reflexivity.
Qed.

Lemma srvin_same s s' : s_in s' = s_in s -> SrvIn s -> SrvIn s'.
Proof. unfold SrvIn. intros ->. auto. Qed.

(* one faithful exchange through the wire is one faithful exchange *)
Lemma sim_round ws s r : R ws s -> WF s -> SrvIn s -> Requests.cache_ok r = true ->
  R (w_faithful_round P ws r) (faithful_round s) /\ WF (faithful_round s).
Proof.
  intros HR HW HS Hr.
  destruct (sim_query ws s r HR HW Hr) as [R1 [W1 _]].
  destruct (do_query_clear s) as [_ [Q1 [_ [_ [_ [_ [Sin _]]]]]]].
  unfold w_faithful_round, faithful_round.
  rewrite (surjective_pairing (w_query P ws r)), (surjective_pairing (do_query s)).
  set (w1 := fst (w_query P ws r)) in *. set (s1 := fst (do_query s)) in *.
  rewrite Q1.
  assert (HS1 : SrvIn s1) by (apply (srvin_same s); assumption).
  destruct R1 as [Eb1 [Hq1 Ha1]]. rewrite Q1 in Hq1. inversion Hq1 as [|[st wq] m' lq lq' Hrel Hrest Elq]; subst m'.
  assert (R1 : R w1 s1) by (split; [exact Eb1 | split; [rewrite Q1, <- Elq; constructor; assumption | exact Ha1]]).
  destruct (sim_server w1 s1 st wq (qm s) R1 W1 HS1 Hrel) as [R2 [W2 _]].
  set (w2 := fst (w_server P w1 wq)) in *. set (s2 := fst (server_handle s1 (qm s))) in *.
  destruct (server_handle_clear s1 (qm s)) as [ans [_ [A2 _]]]. fold s2 in A2. rewrite A2.
  destruct R2 as [Eb2 [Hq2 Ha2]]. rewrite A2 in Ha2. inversion Ha2 as [|[st2 wa] m' la la' Hrel2 Hrest2 Ela]; subst m'.
  assert (R2 : R w2 s2) by (split; [exact Eb2 | split; [exact Hq2 | rewrite A2, <- Ela; constructor; assumption]]).
  destruct (sim_client w2 s2 st2 wa ans R2 W2 Hrel2) as [R3 [W3 _]].
  set (w3 := fst (w_client P w2 wa)) in *. set (s3 := fst (client_handle s2 ans)) in *.
  assert (E3 : base w3 = clear s3) by apply R3. rewrite E3. prj.
  destruct (sim_read w3 s3 true (length (in_buf (c_in s3))) R3 W3) as [R4 [W4 _]].
  set (w4 := fst (w_read w3 true (length (in_buf (c_in s3))))) in *. set (s4 := fst (do_read s3 true (length (in_buf (c_in s3))))) in *.
  assert (E4 : base w4 = clear s4) by apply R4. rewrite E4. prj.
  destruct (sim_read w4 s4 false (length (in_buf (s_in s4))) R4 W4) as [R5 [W5 _]].
  apply sim_check_lost; assumption.
Qed.

Section RUNS.
Variables (A0 W : nat) (c0 s0 : N).
Hypothesis HS : (N.of_nat A0 + N.of_nat W + SLACK <= M)%N.
Notation Inv := (Link_proofs.Inv A0 W c0 s0).

Lemma sim_pump (c : bool) len r : Requests.cache_ok r = true -> len <= (if c then mu else fd) -> len = 0 \/ 1 <= W ->
  forall k ws s fill, R ws s -> WF s -> Inv s ->
  R (w_pump P ws c k len fill r) (pump s c k len fill) /\ WF (pump s c k len fill) /\ Inv (pump s c k len fill).
Proof.
  intros Hr Hlen HW. induction k as [|k IH]; intros ws s fill HR HWF HI; cbn [w_pump pump]; [auto|].
  destruct (sim_write ws s c (pump_data len fill) len HR HWF (pump_data_wf len fill) Hlen) as [R1 [W1 _]].
  destruct HI as [g Hg].
  destruct (write_inv _ W c0 s0 (Link_proofs.HN A0 W HS) (Link_proofs.HA A0 W HS) g s c (pump_data len fill) len Hg) as [cs [_ Hw]].
  - destruct len; [left; reflexivity | right; lia].
  - rewrite pump_data_len. pose proof (Link_proofs.nchunks_self A0 W HS len). destruct HW as [-> | HW]; [unfold nchunks; cbn; lia | lia].
  - set (s1 := fst (do_write s c (pump_data len fill) len)) in *.
    assert (HI1 : Inv s1) by (eexists; exact Hw).
    destruct (sim_round _ s1 r R1 W1 (inv_srvin _ _ _ _ _ HI1) Hr) as [R2 W2].
    apply IH; [exact R2 | exact W2 |]. eexists. apply (Link_proofs.round_inv A0 W c0 s0 HS). exact Hw.
Qed.

Lemma age_same ws s e : R ws s -> w_age_ok A0 W ws e = ev_ok A0 W s (abs_ev e).
Proof.
  intros [Eb [Hq Ha]]. destruct e as [c d mtu|r|i|j|c n|c k len fill r]; cbn [w_age_ok ev_ok abs_ev]; try reflexivity; rewrite Eb; prj.
  - pose proof (nth_oldest_rel q_rel _ _ i Hq) as H.
    destruct (nth_oldest (wqueries ws) i) as [[st wq]|], (nth_oldest (queries s) i) as [m|]; try contradiction; [|reflexivity].
    destruct H as [E _]. cbn [fst] in E. rewrite E. reflexivity.
  - pose proof (nth_oldest_rel a_rel _ _ j Ha) as H.
    destruct (nth_oldest (wanswers ws) j) as [[st wa]|], (nth_oldest (answers s) j) as [m|]; try contradiction; [|reflexivity].
    destruct H as [E _]. cbn [fst] in E. rewrite E. reflexivity.
Qed.

Lemma sim_step0 ws s e : R ws s -> WF s -> Inv s -> wev_ok P fd e = true -> ev_ok A0 W s (abs_ev e) = true ->
  R (fst (wstep0 P ws e)) (fst (step0 s (abs_ev e))) /\ WF (fst (step0 s (abs_ev e))) /\
  obs_rel (snd (wstep0 P ws e)) (snd (step0 s (abs_ev e))).
Proof.
  intros HR HWF HI Hok Hev. destruct e as [c d mtu|r|i|j|c n|c k len fill r]; cbn [wstep0 step0 abs_ev wev_ok] in *.
  - apply andb_prop in Hok. destruct Hok as [Hd Hm]. apply sim_write; [assumption | assumption | apply wf_bytesb_spec, Hd | apply Nat.leb_le, Hm].
  - apply sim_query; assumption.
  - destruct HR as [Eb [Hq Ha]]. pose proof (nth_oldest_rel q_rel _ _ i Hq) as H.
    destruct (nth_oldest (wqueries ws) i) as [[st wq]|], (nth_oldest (queries s) i) as [m|]; try contradiction.
    + apply (sim_server ws s st wq m); [split; [exact Eb | split; assumption] | exact HWF | apply (inv_srvin _ _ _ _ _ HI) | exact H].
    + cbn [fst snd]. split; [split; [exact Eb | split; assumption]|]. split; [exact HWF | split; reflexivity].
  - destruct HR as [Eb [Hq Ha]]. pose proof (nth_oldest_rel a_rel _ _ j Ha) as H.
    destruct (nth_oldest (wanswers ws) j) as [[st wa]|], (nth_oldest (answers s) j) as [m|]; try contradiction.
    + apply (sim_client ws s st wa m); [split; [exact Eb | split; assumption] | exact HWF | exact H].
    + cbn [fst snd]. split; [split; [exact Eb | split; assumption]|]. split; [exact HWF | split; reflexivity].
  - apply sim_read; assumption.
  - apply andb_prop in Hok. destruct Hok as [Hr Hl]. cbn [ev_ok] in Hev. cbn [fst snd].
    destruct (sim_pump c len r Hr (proj1 (Nat.leb_le _ _) Hl) (or_intror (proj1 (Nat.leb_le _ _) Hev)) k ws s fill HR HWF HI) as [R1 [W1 _]].
    split; [exact R1|]. split; [exact W1 | split; reflexivity].
Qed.

Lemma sim_run : forall evs ws s, R ws s -> WF s -> Inv s -> wire_admissible P fd A0 W ws evs = true ->
  admissible A0 W s (map abs_ev evs) = true /\
  R (fst (wrun P ws evs)) (fst (run s (map abs_ev evs))) /\ WF (fst (run s (map abs_ev evs))) /\
  Forall2 obs_rel (snd (wrun P ws evs)) (snd (run s (map abs_ev evs))).
Proof.
  induction evs as [|e r IH]; intros ws s HR HWF HI Hadm; cbn [wire_admissible map admissible wrun run] in *.
  - cbn [fst snd]. auto.
  - apply andb_prop in Hadm. destruct Hadm as [Hadm Hrest]. apply andb_prop in Hadm. destruct Hadm as [Hok Hage].
    rewrite (age_same ws s e HR) in Hage. rewrite Hage. cbn [andb].
    destruct (sim_step0 ws s e HR HWF HI Hok Hage) as [R1 [W1 O1]].
    destruct (Link_proofs.step0_inv A0 W c0 s0 HS s (abs_ev e) HI Hage) as [HI1 _].
    assert (Ew : wstep P ws e = (w_check_lost (fst (wstep0 P ws e)), snd (wstep0 P ws e))) by (unfold wstep; destruct (wstep0 P ws e); reflexivity).
    assert (Es : step s (abs_ev e) = (check_lost (fst (step0 s (abs_ev e))), snd (step0 s (abs_ev e)))) by (unfold step; destruct (step0 s (abs_ev e)); reflexivity).
    rewrite Ew in *. rewrite Es. cbn [fst snd] in *.
    destruct (sim_check_lost _ _ R1 W1) as [R2 W2].
    assert (HI2 : Inv (check_lost (fst (step0 s (abs_ev e))))).
    { destruct HI1 as [g Hg]. exists g. apply (check_lost_inv _ W c0 s0 (Link_proofs.HN A0 W HS) (Link_proofs.HA A0 W HS)). exact Hg. }
    destruct (IH _ _ R2 W2 HI2 Hrest) as [Hadm' [R3 [W3 O3]]].
    rewrite (surjective_pairing (wrun P _ r)), (surjective_pairing (run _ (map abs_ev r))). cbn [fst snd].
    split; [exact Hadm'|]. split; [exact R3|]. split; [exact W3|]. constructor; assumption.
Qed.

Lemma R_init : R (winit c0 s0) (init c0 s0) /\ WF (init c0 s0) /\ Inv (init c0 s0).
Proof.
  split; [|split].
  - split; [reflexivity|]. split; constructor.
  - split; (split; [constructor | apply u16_lt]).
  - exists g0. apply (inv_init _ W c0 s0 (Link_proofs.HN A0 W HS) (Link_proofs.HA A0 W HS)).
Qed.

End RUNS.
End REFINE.

(* ================= the theorems ================= *)

Lemma obs_rel_maps wos os : Forall2 obs_rel wos os -> map abs_obs wos = os /\ map w_is_err wos = map is_err os.
Proof. induction 1 as [|o o' l l' [E1 E2] _ [IH1 IH2]]; [split; reflexivity|]. cbn [map]. rewrite E1, E2, IH1, IH2. split; reflexivity. Qed.

(* REFINEMENT.  For well-formed parameters, every admissible wire-level history is an admissible abstract history, and the two runs
   agree: same queues, clock and byte histories; every stored question decodes at the server to the abstract query of the same
   position, every stored answer decodes at the client to the abstract answer of the same position; same observations. *)
Theorem wire_refines : forall P fd A W c0 s0 evs,
  params_ok P fd = true -> (N.of_nat A + N.of_nat W + SLACK <= M)%N ->
  wire_admissible P fd A W (winit c0 s0) evs = true ->
  let ws := fst (wrun P (winit c0 s0) evs) in let wos := snd (wrun P (winit c0 s0) evs) in
  let s := fst (run (init c0 s0) (map abs_ev evs)) in let os := snd (run (init c0 s0) (map abs_ev evs)) in
  admissible A W (init c0 s0) (map abs_ev evs) = true /\
  base ws = clear s /\ Forall2 (q_rel P) (wqueries ws) (queries s) /\ Forall2 (a_rel P) (wanswers ws) (answers s) /\
  map abs_obs wos = os /\ map w_is_err wos = map is_err os.
Proof.
  intros P fd A W c0 s0 evs HP HS Hadm. cbv zeta.
  destruct (R_init P fd A W c0 s0 HS) as [R0 [W0 I0]].
  destruct (sim_run P fd HP A W c0 s0 HS evs _ _ R0 W0 I0 Hadm) as [Ha [[Eb [Hq Hans]] [_ Ho]]].
  destruct (obs_rel_maps _ _ Ho) as [O1 O2]. auto 10.
Qed.

(* the C07 theorems, for the wire-level system, for every event sequence *)
Theorem wire_prefix : forall P fd A W c0 s0 evs,
  params_ok P fd = true -> (N.of_nat A + N.of_nat W + SLACK <= M)%N ->
  wire_admissible P fd A W (winit c0 s0) evs = true ->
  let b := base (fst (wrun P (winit c0 s0) evs)) in
  prefix (rev (rd_s b) ++ in_buf (s_in b)) (rev (acc_c b)) /\
  prefix (rev (rd_c b) ++ in_buf (c_in b)) (rev (acc_s b)).
Proof.
  intros P fd A W c0 s0 evs HP HS Hadm. cbv zeta.
  destruct (wire_refines P fd A W c0 s0 evs HP HS Hadm) as [Ha [Eb _]]. rewrite Eb. prj.
  apply (link_prefix A W c0 s0 _ HS Ha).
Qed.

Theorem wire_not_lost : forall P fd A W c0 s0 evs,
  params_ok P fd = true -> (N.of_nat A + N.of_nat W + SLACK <= M)%N ->
  wire_admissible P fd A W (winit c0 s0) evs = true ->
  let b := base (fst (wrun P (winit c0 s0) evs)) in lost_c b = false /\ lost_s b = false.
Proof.
  intros P fd A W c0 s0 evs HP HS Hadm. cbv zeta.
  destruct (wire_refines P fd A W c0 s0 evs HP HS Hadm) as [Ha [Eb _]]. rewrite Eb. prj.
  apply (link_not_lost A W c0 s0 _ HS Ha).
Qed.

Theorem wire_memory : forall P fd A W c0 s0 evs,
  params_ok P fd = true -> (N.of_nat A + N.of_nat W + SLACK <= M)%N ->
  wire_admissible P fd A W (winit c0 s0) evs = true ->
  let b := base (fst (wrun P (winit c0 s0) evs)) in
  in_future (c_in b) = [] /\ in_future (s_in b) = [] /\
  length (in_acked (c_in b)) <= 128 /\ length (in_acked (s_in b)) <= 128 /\
  length (out_acked (c_out b)) <= 128 /\ length (out_acked (s_out b)) <= 128.
Proof.
  intros P fd A W c0 s0 evs HP HS Hadm. cbv zeta.
  destruct (wire_refines P fd A W c0 s0 evs HP HS Hadm) as [Ha [Eb _]]. rewrite Eb. prj.
  apply (link_memory A W c0 s0 _ HS Ha).
Qed.

(* no exchange fails: no message fails to be formed, packed, unpacked or decoded, none is dropped, no error is answered or returned *)
Theorem wire_no_false_error : forall P fd A W c0 s0 evs,
  params_ok P fd = true -> A <= RECENT -> (N.of_nat A + N.of_nat W + SLACK <= M)%N ->
  wire_admissible P fd A W (winit c0 s0) evs = true ->
  forallb (fun o => negb (w_is_err o)) (snd (wrun P (winit c0 s0) evs)) = true.
Proof.
  intros P fd A W c0 s0 evs HP HR HS Hadm.
  destruct (wire_refines P fd A W c0 s0 evs HP HS Hadm) as [Ha [_ [_ [_ [_ Eo]]]]].
  pose proof (link_no_false_error A W c0 s0 _ HR HS Ha) as H.
  rewrite <- (map_id (snd (run _ _))) in H. rewrite forallb_forall in *.
  assert (G : forall b, In b (map w_is_err (snd (wrun P (winit c0 s0) evs))) -> b = false).
  { rewrite Eo. intros b Hb. apply in_map_iff in Hb. destruct Hb as [o [<- Ho]]. rewrite map_id in H. specialize (H o Ho).
    destruct (is_err o); [discriminate | reflexivity]. }
  intros o Ho. rewrite (G (w_is_err o)); [reflexivity | apply in_map, Ho].
Qed.

(* with the queues drained, everything the writes accepted is at the peer (read or buffered): the prefix is the whole *)
Lemma half_complete A W x0 hist K R o q acc nacc rd :
  Half A W x0 hist K R o q acc nacc rd -> in_total q = nacc -> rev rd ++ in_buf q = rev acc.
Proof.
  intros H E. rewrite (r_tot (hf_r H)), (hf_n H) in E. rewrite (r_buf (hf_r H)), (hf_acc H).
  rewrite <- (firstn_skipn R hist) at 2. rewrite concat_app.
  rewrite <- (firstn_skipn R hist) in E at 2. rewrite concat_app, app_length in E.
  assert (length (concat (skipn R hist)) = 0) by lia.
  destruct (concat (skipn R hist)); [rewrite app_nil_r; reflexivity | discriminate].
Qed.

(* once the path stops losing, everything accepted arrives: k faithful exchanges through the wire drain both queues *)
Theorem wire_progress : forall P fd A W c0 s0 evs k r,
  params_ok P fd = true -> (N.of_nat A + N.of_nat W + SLACK <= M)%N ->
  wire_admissible P fd A W (winit c0 s0) evs = true -> Requests.cache_ok r = true ->
  let ws := fst (wrun P (winit c0 s0) evs) in
  k >= 2 * (length (out_q (c_out (base ws))) + length (out_q (s_out (base ws)))) + 2 ->
  let b := base (w_pump P ws true k 0 0%N r) in
  out_q (c_out b) = [] /\ out_q (s_out b) = [] /\
  rev (rd_s b) ++ in_buf (s_in b) = rev (acc_c b) /\ rev (rd_c b) ++ in_buf (c_in b) = rev (acc_s b).
Proof.
  intros P fd A W c0 s0 evs k r HP HS Hadm Hr. cbv zeta.
  destruct (R_init P fd A W c0 s0 HS) as [R0 [W0 I0]].
  destruct (sim_run P fd HP A W c0 s0 HS evs _ _ R0 W0 I0 Hadm) as [Ha [R1 [W1 _]]].
  destruct (inv_run A W c0 s0 HS _ Ha) as [I1 _].
  set (ws := fst (wrun P (winit c0 s0) evs)) in *. set (s := fst (run (init c0 s0) (map abs_ev evs))) in *.
  assert (Eb : base ws = clear s) by apply R1. rewrite Eb. prj. intros Hk.
  destruct (sim_pump P fd HP A W c0 s0 HS true 0 r Hr (Nat.le_0_l _) (or_introl eq_refl) k ws s 0%N R1 W1 I1) as [[Eb2 _] [_ [g Hg]]].
  rewrite Eb2. prj.
  destruct (link_progress A W c0 s0 _ k HS Ha Hk) as [D1 [D2 [D3 D4]]]. fold s in D1, D2, D3, D4.
  split; [exact D1|]. split; [exact D2|]. split.
  - apply (half_complete _ _ _ _ _ _ _ _ _ _ _ (i_h1 _ _ _ _ _ _ Hg) D3).
  - apply (half_complete _ _ _ _ _ _ _ _ _ _ _ (i_h2 _ _ _ _ _ _ Hg) D4).
Qed.

Print Assumptions wire_refines.
Print Assumptions wire_prefix.
Print Assumptions wire_not_lost.
Print Assumptions wire_memory.
Print Assumptions wire_no_false_error.
Print Assumptions wire_progress.
