(* C07 proofs, part 2: the invariant of the two-endpoint system and its preservation by every operation. *)
From Coq Require Import String List NArith ZArith Bool Arith Lia.
From SA Require Import Base.Tok Gen.QueueConsts Queue.Queues Queue.Link.
From SA Require Import Queue.Half.
Import ListNotations.
Ltac Zify.zify_post_hook ::= Z.to_euclidean_division_equations.
Local Open Scope nat_scope.

(* ghost state: direction 1 is client -> server (c_out, s_in), direction 2 is server -> client (s_out, c_in).
   h: every chunk ever queued; K: chunks removed from the sender's queue; R: chunks appended at the receiver *)
Record ghost := { h1 : list bytes; K1 : nat; R1 : nat; h2 : list bytes; K2 : nat; R2 : nat }.

Record Half (A W : nat) (x0 : N) (hist : list bytes) (K R : nat) (o : outq) (q : inq) (acc : bytes) (nacc : N) (rd : bytes) : Prop := {
  hf_s : SInv A W x0 hist K o;
  hf_r : RInv x0 hist R q rd;
  hf_KR : K <= R;
  hf_RK : R <= S K;
  hf_acc : rev acc = concat hist;
  hf_n : nacc = N.of_nat (length (concat hist)) }.
Arguments hf_s {A W x0 hist K R o q acc nacc rd}.
Arguments hf_r {A W x0 hist K R o q acc nacc rd}.
Arguments hf_KR {A W x0 hist K R o q acc nacc rd}.
Arguments hf_RK {A W x0 hist K R o q acc nacc rd}.
Arguments hf_acc {A W x0 hist K R o q acc nacc rd}.
Arguments hf_n {A W x0 hist K R o q acc nacc rd}.

(* the packet part of a formed message: index i <= K, and the ticking quantity T has not run away from it *)
Definition pkt_ok (x0 : N) (hist : list bytes) (K T clk : nat) (m : msg) : Prop :=
  match m_pkt m with
  | None => True
  | Some p => exists i, p = pk x0 hist i /\ i <= K /\ i < length hist /\ T + m_stamp m <= i + clk
  end.
(* the acknowledgement part *)
Definition ack_ok (x0 : N) (R T clk : nat) (m : msg) : Prop :=
  exists r, m_ack m = ackv x0 r /\ r <= R /\ T + m_stamp m + 1 <= r + clk.

Lemma pkt_ok_mono x0 hist t K K' T T' clk d m :
  pkt_ok x0 hist K T clk m -> K <= K' -> T' <= T + d -> pkt_ok x0 (hist ++ t) K' T' (clk + d) m.
Proof.
  unfold pkt_ok. destruct (m_pkt m); [|auto]. intros [i [E [H1 [H2 H3]]]] HK HT.
  exists i. rewrite pk_ext by exact H2. rewrite app_length. repeat split; auto; lia.
Qed.

Lemma ack_ok_mono x0 R R' T T' clk d m :
  ack_ok x0 R T clk m -> R <= R' -> T' <= T + d -> ack_ok x0 R' T' (clk + d) m.
Proof. intros [r [E [H1 H2]]] HR HT. exists r. repeat split; auto; lia. Qed.

Section SYS.
Variables (A W : nat) (c0 s0 : N).
Hypothesis HN : NUM A W.
Hypothesis HA : 1 <= A.
Set Default Proof Using "Type HN HA".

Notation x1 := (u16 c0) (only parsing).
Notation x2 := (u16 s0) (only parsing).

Definition qmsg_ok (g : ghost) (clk : nat) (m : msg) : Prop :=
  m_stamp m < clk /\ pkt_ok x1 (h1 g) (K1 g) (R1 g) clk m /\ ack_ok x2 (R2 g) (K2 g) clk m.
Definition amsg_ok (g : ghost) (clk : nat) (m : msg) : Prop :=
  m_stamp m < clk /\ (m_err m = true \/ (pkt_ok x2 (h2 g) (K2 g) (S (K2 g)) clk m /\ ack_ok x1 (R1 g) (R1 g) clk m)).

(* ghost states only move forward; R1 and K2 advance at most as fast as the clock *)
Definition gle (g g' : ghost) (d : nat) : Prop :=
  (exists t, h1 g' = h1 g ++ t) /\ (exists t, h2 g' = h2 g ++ t) /\
  K1 g <= K1 g' /\ R1 g <= R1 g' <= R1 g + d /\ K2 g <= K2 g' <= K2 g + d /\ R2 g <= R2 g'.

Lemma gle_refl g d : gle g g d.
Proof. unfold gle. repeat split; try lia; exists []; rewrite app_nil_r; reflexivity. Qed.

Lemma qmsg_mono g g' d clk m : qmsg_ok g clk m -> gle g g' d -> qmsg_ok g' (clk + d) m.
Proof.
  intros [H0 [H1 H2]] [[t1 E1] [[t2 E2] [G1 [G2 [G3 G4]]]]]. unfold qmsg_ok. rewrite E1. split; [lia|]. split.
  - eapply pkt_ok_mono; eauto. lia.
  - eapply ack_ok_mono; eauto. lia.
Qed.

Lemma amsg_mono g g' d clk m : amsg_ok g clk m -> gle g g' d -> amsg_ok g' (clk + d) m.
Proof.
  intros [H0 H] [[t1 E1] [[t2 E2] [G1 [G2 [G3 G4]]]]]. unfold amsg_ok. rewrite E2. split; [lia|].
  destruct H as [H|[H1 H2]]; [left; exact H|right]. split.
  - eapply pkt_ok_mono; eauto; lia.
  - eapply ack_ok_mono; eauto; lia.
Qed.

Record InvG (g : ghost) (s : sys) : Prop := {
  i_h1 : Half A W x1 (h1 g) (K1 g) (R1 g) (c_out s) (s_in s) (acc_c s) (n_acc_c s) (rd_s s);
  i_h2 : Half A W x2 (h2 g) (K2 g) (R2 g) (s_out s) (c_in s) (acc_s s) (n_acc_s s) (rd_c s);
  i_q : Forall (qmsg_ok g (clock s)) (queries s);
  i_a : Forall (amsg_ok g (clock s)) (answers s);
  i_lc : lost_c s = false;
  i_ls : lost_s s = false;
  i_ne : A <= 128 -> Forall (fun m => m_err m = false) (answers s) }.

Lemma Forall_q_mono g g' d clk l : gle g g' d -> Forall (qmsg_ok g clk) l -> Forall (qmsg_ok g' (clk + d)) l.
Proof. intros G. apply Forall_impl. intros m H. eapply qmsg_mono; eauto. Qed.
Lemma Forall_a_mono g g' d clk l : gle g g' d -> Forall (amsg_ok g clk) l -> Forall (amsg_ok g' (clk + d)) l.
Proof. intros G. apply Forall_impl. intros m H. eapply amsg_mono; eauto. Qed.

(* ---- initial state *)
Definition g0 : ghost := {| h1 := []; K1 := 0; R1 := 0; h2 := []; K2 := 0; R2 := 0 |}.

Lemma sq_0 x : sq (u16 x) 0 = u16 x.
Proof. unfold sq, u16, M. lia. Qed.

Lemma half_init x : Half A W (u16 x) [] 0 0 (new_outq x) (new_inq x) [] 0%N [].
Proof.
  constructor; simpl; try lia; try reflexivity.
  - constructor; simpl; try lia; try exact I; try reflexivity. symmetry; apply sq_0.
  - constructor; simpl; try lia; try reflexivity. symmetry; apply sq_0.
Qed.

Lemma inv_init : InvG g0 (init c0 s0).
Proof. constructor; simpl; auto; apply half_init. Qed.

(* ---- check_lost *)
Lemma half_not_lost x0 hist K R o q acc nacc rd :
  Half A W x0 hist K R o q acc nacc rd ->
  match out_q o with [] => (in_total q <? nacc)%N | _ => false end = false.
Proof.
  intros H. destruct (out_q o) eqn:E; [|reflexivity].
  pose proof (f_equal (@length _) (s_q (hf_s H))) as L. rewrite E in L. unfold pkts in L. rewrite map_length, seq_length in L. simpl in L.
  pose proof (s_K (hf_s H)). pose proof (hf_KR H). pose proof (r_R (hf_r H)).
  rewrite (r_tot (hf_r H)), (hf_n H). rewrite firstn_all2 by lia. apply N.ltb_irrefl.
Qed.

Lemma check_lost_inv g s : InvG g s -> InvG g (check_lost s).
Proof.
  intros H. constructor; simpl; try apply H.
  - rewrite (i_lc _ _ H). simpl. apply (half_not_lost _ _ _ _ _ _ _ _ _ (i_h1 _ _ H)).
  - rewrite (i_ls _ _ H). simpl. apply (half_not_lost _ _ _ _ _ _ _ _ _ (i_h2 _ _ H)).
Qed.

(* ---- Read *)
Lemma half_read x0 hist K R o q acc nacc rd n :
  Half A W x0 hist K R o q acc nacc rd ->
  Half A W x0 hist K R o (fst (in_read q n)) acc nacc (rev_append (snd (in_read q n)) rd).
Proof. intros H. constructor; try apply H. apply read_rinv. apply H. Qed.

Lemma read_inv g s c n : InvG g s -> InvG g (fst (do_read s c n)).
Proof.
  intros H. unfold do_read. destruct c; simpl.
  - constructor; simpl; try apply H. apply (half_read _ _ _ _ _ _ _ _ _ n (i_h2 _ _ H)).
  - constructor; simpl; try apply H. apply (half_read _ _ _ _ _ _ _ _ _ n (i_h1 _ _ H)).
Qed.

(* ---- Write *)
Lemma half_write x0 hist K R o q acc nacc rd d mtu o' :
  Half A W x0 hist K R o q acc nacc rd -> out_q o = [] -> (d = [] \/ 0 < mtu) -> nchunks (length d) mtu <= W ->
  write_chunks (S (length d)) o d mtu = Some o' ->
  exists cs, (d = [] -> cs = []) /\
    Half A W x0 (hist ++ cs) K R o' q (rev_append d acc) (nacc + N.of_nat (length d))%N rd.
Proof.
  intros H E Hd Hn Hw.
  pose proof (f_equal (@length _) (s_q (hf_s H))) as L. rewrite E in L. unfold pkts in L. rewrite map_length, seq_length in L. simpl in L.
  pose proof (s_K (hf_s H)).
  destruct (write_sinv A W x0 _ _ _ _ _ _ _ (hf_s H) Hd Hw ltac:(lia)) as [cs [E1 [E2 E3]]].
  exists cs. split; [exact E2|]. constructor; try apply H.
  - exact E3.
  - apply rinv_ext. apply H.
  - rewrite rev_append_rev, rev_app_distr, rev_involutive, concat_app, (hf_acc H), E1. reflexivity.
  - rewrite concat_app, app_length, (hf_n H), E1. lia.
Qed.

Definition g_write (g : ghost) (c : bool) (cs : list bytes) : ghost :=
  if c then {| h1 := h1 g ++ cs; K1 := K1 g; R1 := R1 g; h2 := h2 g; K2 := K2 g; R2 := R2 g |}
  else {| h1 := h1 g; K1 := K1 g; R1 := R1 g; h2 := h2 g ++ cs; K2 := K2 g; R2 := R2 g |}.

Lemma gle_write g c cs : gle g (g_write g c cs) 0.
Proof.
  unfold gle, g_write. destruct c; simpl; repeat split; try lia;
    try (exists cs; reflexivity); try (exists []; rewrite app_nil_r; reflexivity).
Qed.

Lemma g_write_nil g c : g_write g c [] = g.
Proof. unfold g_write. destruct g, c; simpl; rewrite app_nil_r; reflexivity. Qed.

Lemma write_inv g s c d mtu :
  InvG g s -> (d = [] \/ 0 < mtu) -> nchunks (length d) mtu <= W ->
  exists cs, (d = [] -> cs = []) /\ InvG (g_write g c cs) (fst (do_write s c d mtu)).
Proof.
  intros H Hd Hn. unfold do_write.
  destruct c.
  - destruct (out_q (c_out s)) eqn:E; [|exists []; rewrite g_write_nil; split; [reflexivity|exact H]].
    destruct (write_chunks (S (length d)) (c_out s) d mtu) as [o'|] eqn:Ew; [|exists []; rewrite g_write_nil; split; [reflexivity|exact H]].
    destruct (half_write _ _ _ _ _ _ _ _ _ _ _ _ (i_h1 _ _ H) E Hd Hn Ew) as [cs [E2 H']].
    exists cs. split; [exact E2|]. simpl. constructor; simpl; try apply H.
    all: try exact H'.
    all: try (rewrite <- (Nat.add_0_r (clock s)); eapply Forall_q_mono; [apply (gle_write g true cs)|apply H]).
    all: try (rewrite <- (Nat.add_0_r (clock s)); eapply Forall_a_mono; [apply (gle_write g true cs)|apply H]).
  - destruct (out_q (s_out s)) eqn:E; [|exists []; rewrite g_write_nil; split; [reflexivity|exact H]].
    destruct (write_chunks (S (length d)) (s_out s) d mtu) as [o'|] eqn:Ew; [|exists []; rewrite g_write_nil; split; [reflexivity|exact H]].
    destruct (half_write _ _ _ _ _ _ _ _ _ _ _ _ (i_h2 _ _ H) E Hd Hn Ew) as [cs [E2 H']].
    exists cs. split; [exact E2|]. simpl. constructor; simpl; try apply H.
    all: try exact H'.
    all: try (rewrite <- (Nat.add_0_r (clock s)); eapply Forall_q_mono; [apply (gle_write g false cs)|apply H]).
    all: try (rewrite <- (Nat.add_0_r (clock s)); eapply Forall_a_mono; [apply (gle_write g false cs)|apply H]).
Qed.

(* ---- one half-link: delivery of a packet part, delivery of an acknowledgement *)
Definition bump (oi : option nat) (R : nat) : nat := match oi with Some i => if i =? R then S R else R | None => R end.
Definition kup (r K : nat) : nat := if r =? S K then S K else K.

Lemma half_recv x0 hist K R o q acc nacc rd oi :
  Half A W x0 hist K R o q acc nacc rd ->
  (forall i, oi = Some i -> i <= K /\ i < length hist /\ R <= i + A) ->
  exists q' err, in_append q (option_map (pk x0 hist) oi) = (q', err) /\
    Half A W x0 hist K (bump oi R) o q' acc nacc rd /\ (err = true -> exists i, oi = Some i /\ i + 128 < R).
Proof.
  intros H Hi. destruct oi as [i|]; simpl.
  - destruct (Hi i eq_refl) as [H1 [H2 H3]]. pose proof (hf_KR H). pose proof (hf_RK H).
    destruct (append_rinv x0 hist R q rd i (hf_r H)) as [q' [err [E [HR He]]]]; try lia.
    { unfold NUM, M in *. lia. }
    exists q', err. split; [exact E|]. split.
    + constructor; try apply H; try exact HR; destruct (Nat.eqb_spec i R); lia.
    + intros Ht. exists i. split; [reflexivity|auto].
  - exists q, false. split; [reflexivity|]. split; [exact H|discriminate].
Qed.

Lemma half_send x0 hist K R o q acc nacc rd r :
  Half A W x0 hist K R o q acc nacc rd -> r <= R -> K + 1 <= r + A ->
  Half A W x0 hist (kup r K) R (update_acked o (ackv x0 r)) q acc nacc rd.
Proof.
  intros H Hr Hb. pose proof (hf_KR H). pose proof (hf_RK H). pose proof (r_R (hf_r H)).
  constructor; try apply H.
  - apply upd_sinv; auto; try lia. apply H.
  - unfold kup. destruct (Nat.eqb_spec r (S K)); lia.
  - unfold kup. destruct (Nat.eqb_spec r (S K)); lia.
Qed.

(* ---- forming a query *)
Definition hidx (hist : list bytes) (K : nat) : option nat := if K <? length hist then Some K else None.
Lemma headp_hidx x0 hist K : headp x0 hist K = option_map (pk x0 hist) (hidx hist K).
Proof. unfold headp, hidx. destruct (K <? length hist); reflexivity. Qed.

Lemma query_inv g s : InvG g s ->
  let s' := fst (do_query s) in
  InvG g s' /\ clock s' = S (clock s) /\ answers s' = answers s /\
  exists m, queries s' = m :: queries s /\ m_pkt m = headp x1 (h1 g) (K1 g) /\ m_ack m = ackv x2 (R2 g) /\
            m_stamp m = clock s /\ snd (do_query s) = OQuery (m_ack m) (seq_of (m_pkt m)).
Proof.
  intros H. unfold do_query. rewrite (next_chunk_id _ _ _ _ _ _ HN (hf_s (i_h1 _ _ H))). simpl.
  pose proof (hf_KR (i_h1 _ _ H)). pose proof (hf_RK (i_h1 _ _ H)). pose proof (hf_KR (i_h2 _ _ H)).
  split; [|split; [reflexivity|split; [reflexivity|]]].
  - constructor; simpl; try apply H.
    + constructor.
      * split; simpl; [lia|]. split.
        -- unfold pkt_ok, headp. simpl. destruct (Nat.ltb_spec (K1 g) (length (h1 g))); [|exact I].
           exists (K1 g). repeat split; lia.
        -- exists (R2 g). simpl. rewrite (r_next (hf_r (i_h2 _ _ H))). repeat split; lia.
      * rewrite <- Nat.add_1_r. eapply Forall_q_mono; [apply gle_refl|apply H].
    + rewrite <- Nat.add_1_r. eapply Forall_a_mono; [apply gle_refl|apply H].
  - eexists. split; [reflexivity|]. simpl. rewrite (r_next (hf_r (i_h2 _ _ H))). repeat split.
Qed.

(* ---- the server handles a query, the client handles an answer *)
Definition g_server (g : ghost) (oi : option nat) (r : nat) : ghost :=
  {| h1 := h1 g; K1 := K1 g; R1 := bump oi (R1 g); h2 := h2 g; K2 := kup r (K2 g); R2 := R2 g |}.
Definition g_client (g : ghost) (oi : option nat) (r : nat) : ghost :=
  {| h1 := h1 g; K1 := kup r (K1 g); R1 := R1 g; h2 := h2 g; K2 := K2 g; R2 := bump oi (R2 g) |}.

Lemma bump_le oi R : R <= bump oi R <= R + 1.
Proof. unfold bump. destruct oi as [i|]; [destruct (i =? R)|]; lia. Qed.
Lemma kup_le r K : K <= kup r K <= K + 1.
Proof. unfold kup. destruct (r =? S K); lia. Qed.

Lemma gle_server g oi r : gle g (g_server g oi r) 1.
Proof.
  pose proof (bump_le oi (R1 g)). pose proof (kup_le r (K2 g)).
  unfold gle, g_server; simpl; repeat split; try lia; exists []; rewrite app_nil_r; reflexivity.
Qed.
Lemma gle_client g oi r : gle g (g_client g oi r) 0.
Proof.
  pose proof (bump_le oi (R2 g)). pose proof (kup_le r (K1 g)).
  unfold gle, g_client; simpl; repeat split; try lia; exists []; rewrite app_nil_r; reflexivity.
Qed.

Lemma server_inv g s m oi r :
  InvG g s -> m_pkt m = option_map (pk x1 (h1 g)) oi ->
  (forall i, oi = Some i -> i <= K1 g /\ i < length (h1 g) /\ R1 g <= i + A) ->
  m_ack m = ackv x2 r -> r <= R2 g -> K2 g + 1 <= r + A ->
  let g' := g_server g oi r in let s' := fst (server_handle s m) in
  InvG g' s' /\ clock s' = S (clock s) /\ queries s' = queries s /\
  ((forall i, oi = Some i -> R1 g <= i + 128) ->
     exists ans, answers s' = ans :: answers s /\ m_err ans = false /\ m_pkt ans = headp x2 (h2 g) (K2 g') /\
       m_ack ans = ackv x1 (R1 g') /\ m_stamp ans = clock s /\ exists a p, snd (server_handle s m) = OServer false a p).
Proof.
  intros H Ep Hi Ea Hr Hb.
  destruct (half_recv _ _ _ _ _ _ _ _ _ oi (i_h1 _ _ H) Hi) as [q' [err [Eq [Hh1 Herr]]]].
  pose proof (half_send _ _ _ _ _ _ _ _ _ r (i_h2 _ _ H) Hr Hb) as Hh2.
  pose proof (gle_server g oi r) as G.
  unfold server_handle. rewrite Ep, Eq, Ea.
  destruct err.
  - destruct (Herr eq_refl) as [i [Ei Hlt]]. destruct (Hi i Ei) as [_ [_ Hage]].
    simpl. split; [|split; [reflexivity|split; [reflexivity|]]].
    + constructor; simpl; try apply H; try exact Hh1; try exact Hh2.
      * rewrite <- Nat.add_1_r. eapply Forall_q_mono; [exact G|apply H].
      * constructor.
        -- split; simpl; [lia|left; reflexivity].
        -- rewrite <- Nat.add_1_r. eapply Forall_a_mono; [exact G|apply H].
      * intros HA128. lia.
    + intros Hne. specialize (Hne i Ei). lia.
  - rewrite (next_chunk_id _ _ _ _ _ _ HN (hf_s Hh2)). simpl.
    pose proof (s_K (hf_s Hh2)) as HK2.
    split; [|split; [reflexivity|split; [reflexivity|]]].
    + constructor; simpl; try apply H; try exact Hh1; try exact Hh2.
      * rewrite <- Nat.add_1_r. eapply Forall_q_mono; [exact G|apply H].
      * constructor.
        -- split; simpl; [lia|right]. split.
           ++ unfold pkt_ok, headp. simpl. destruct (Nat.ltb_spec (kup r (K2 g)) (length (h2 g))); [|exact I].
              exists (kup r (K2 g)). repeat split; lia.
           ++ exists (bump oi (R1 g)). simpl. rewrite (r_next (hf_r Hh1)). repeat split; lia.
        -- rewrite <- Nat.add_1_r. eapply Forall_a_mono; [exact G|apply H].
      * intros HA128. constructor; [reflexivity|apply H; exact HA128].
    + intros _. eexists. split; [reflexivity|]. simpl. rewrite (r_next (hf_r Hh1)). repeat split. eexists _, _. reflexivity.
Qed.

Lemma client_inv g s m oi r :
  InvG g s -> m_err m = false -> m_pkt m = option_map (pk x2 (h2 g)) oi ->
  (forall i, oi = Some i -> i <= K2 g /\ i < length (h2 g) /\ R2 g <= i + A) ->
  m_ack m = ackv x1 r -> r <= R1 g -> K1 g + 1 <= r + A ->
  let g' := g_client g oi r in let s' := fst (client_handle s m) in
  InvG g' s' /\ clock s' = clock s /\ queries s' = queries s /\ answers s' = answers s /\
  ((forall i, oi = Some i -> R2 g <= i + 128) -> snd (client_handle s m) = OClient 0).
Proof.
  intros H Ee Ep Hi Ea Hr Hb.
  destruct (half_recv _ _ _ _ _ _ _ _ _ oi (i_h2 _ _ H) Hi) as [q' [err [Eq [Hh2 Herr]]]].
  pose proof (half_send _ _ _ _ _ _ _ _ _ r (i_h1 _ _ H) Hr Hb) as Hh1.
  pose proof (gle_client g oi r) as G.
  unfold client_handle. rewrite Ee, Ep, Eq, Ea. simpl.
  split; [|split; [reflexivity|split; [reflexivity|split; [reflexivity|]]]].
  - constructor; simpl; try apply H; try exact Hh1; try exact Hh2.
    all: try (rewrite <- (Nat.add_0_r (clock s)); eapply Forall_q_mono; [exact G|apply H]).
    all: try (rewrite <- (Nat.add_0_r (clock s)); eapply Forall_a_mono; [exact G|apply H]).
  - intros Hne. destruct err; [|reflexivity]. destruct (Herr eq_refl) as [i [Ei Hlt]]. specialize (Hne i Ei). lia.
Qed.

Lemma client_err s m : m_err m = true -> client_handle s m = (s, OClient 2).
Proof. intros E. unfold client_handle. rewrite E. reflexivity. Qed.

End SYS.
