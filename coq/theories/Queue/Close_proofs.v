(* Proofs about Queue/Close.v: the close / end-of-stream protocol of the DNS tunnel connection. *)
From Coq Require Import List NArith ZArith Bool Arith Lia String.
From Coq Require Import ZifyN ZifyNat ZifyBool.
From SA Require Import Base.Tok Queue.Queues Queue.Close.
From SA Require Gen.CloseShape.
Import ListNotations.
Local Open Scope nat_scope.

(* the source, as read on this run, has the shape the theorems are about; one lemma per switch, so that a failing build names the
   statement of the source that changed *)
Lemma source_client_read_eof_iff_closed_and_drained : sh_c_eof_drained code_shape = true.
Proof. reflexivity. Qed.
Lemma source_server_read_eof_iff_closed_and_drained : sh_s_eof_drained code_shape = true.
Proof. reflexivity. Qed.
Lemma source_client_close_closes_in_queue : sh_cc_closes_q code_shape = true.
Proof. reflexivity. Qed.
Lemma source_close_connection_closes_in_queue : sh_sc_closes_q code_shape = true.
Proof. reflexivity. Qed.
Lemma source_sweep_closes_in_queue : sh_sweep_closes_q code_shape = true.
Proof. reflexivity. Qed.
Lemma source_badconn_compared_by_identity_and_query_errors_unwrapped : sh_err_identity code_shape = true.
Proof. reflexivity. Qed.
Lemma source_packet_error_unwrapped : sh_err_identity_packet code_shape = true.
Proof. reflexivity. Qed.
Lemma source_client_close_closes_out_queue : sh_cc_closes_out code_shape = true.
Proof. reflexivity. Qed.
Lemma source_close_connection_closes_out_queue : sh_sc_closes_out code_shape = true.
Proof. reflexivity. Qed.
Lemma source_sweep_closes_out_queue : sh_sweep_closes_out code_shape = true.
Proof. reflexivity. Qed.
Lemma code_shape_intended : code_shape = intended.
Proof. reflexivity. Qed.

(* ------------------------------------------------------------------------------------------------ one in-queue *)

Definition qinv (q : cq) : Prop :=
  q_app q = q_ret q ++ q_buf q /\ q_has q = nonempty (q_buf q) /\
  (q_parked q <> None -> q_buf q = [] /\ q_closed q = false).

(* the first two clauses alone: they hold in the middle of Append and Close too, while the reader about to be released is still listed *)
Definition qinv0 (q : cq) : Prop := q_app q = q_ret q ++ q_buf q /\ q_has q = nonempty (q_buf q).

Lemma qinv_qinv0 q : qinv q -> qinv0 q.
Proof. intros (Ha & Hh & _). split; auto. Qed.

Lemma qinv_new : qinv q_new.
Proof. unfold qinv, q_new; cbn. repeat split; auto; congruence. Qed.

Lemma nonempty_false l : nonempty l = false -> l = [].
Proof. destruct l; cbn; congruence. Qed.

Lemma q_take_inv q n : qinv q -> qinv (fst (q_take q n)).
Proof.
  intros (Ha & Hh & Hp). unfold q_take.
  destruct (negb (nonempty (q_buf q)) && q_closed q) eqn:E; cbn [fst]; [unfold qinv; auto|].
  unfold qinv; cbn. split; [|split].
  - rewrite Ha, <- app_assoc, firstn_skipn. reflexivity.
  - reflexivity.
  - intros H. destruct (Hp H) as [Hb Hc]. rewrite Hb. split; [destruct n; reflexivity|exact Hc].
Qed.

Lemma q_take_closed q n : q_closed (fst (q_take q n)) = q_closed q.
Proof. unfold q_take. destruct (negb (nonempty (q_buf q)) && q_closed q); reflexivity. Qed.

Lemma q_take_parked q n : q_parked (fst (q_take q n)) = q_parked q.
Proof. unfold q_take. destruct (negb (nonempty (q_buf q)) && q_closed q); reflexivity. Qed.

Lemma q_take_app q n : q_app (fst (q_take q n)) = q_app q.
Proof. unfold q_take. destruct (negb (nonempty (q_buf q)) && q_closed q); reflexivity. Qed.

(* end-of-stream is handed out only by a closed queue from which everything appended has been returned; nothing changes *)
Lemma q_take_eof q n : qinv0 q -> snd (q_take q n) = REof ->
  q_closed q = true /\ q_ret q = q_app q /\ fst (q_take q n) = q.
Proof.
  intros (Ha & Hh). unfold q_take.
  destruct (negb (nonempty (q_buf q)) && q_closed q) eqn:E; cbn; [|discriminate].
  intros _. apply andb_prop in E. destruct E as [E1 E2]. apply negb_true_iff, nonempty_false in E1.
  rewrite Ha, E1, app_nil_r. auto.
Qed.

Lemma q_take_bytes q n l : snd (q_take q n) = RBytes l ->
  l = firstn n (q_buf q) /\ q_ret (fst (q_take q n)) = q_ret q ++ l /\ q_buf (fst (q_take q n)) = skipn n (q_buf q).
Proof.
  unfold q_take. destruct (negb (nonempty (q_buf q)) && q_closed q); cbn; [discriminate|].
  intros H. inversion H. auto.
Qed.

Lemma q_take_not_block q n : snd (q_take q n) <> RBlock /\ snd (q_take q n) <> RBusy.
Proof. unfold q_take. destruct (negb (nonempty (q_buf q)) && q_closed q); cbn; split; discriminate. Qed.

Lemma q_set_parked_none_inv q : qinv q -> qinv (q_set_parked q None).
Proof. intros (Ha & Hh & Hp). unfold qinv; cbn. repeat split; auto; congruence. Qed.

Lemma q_read_inv q n : qinv q -> qinv (fst (q_read q n)).
Proof.
  intros H. unfold q_read. destruct (q_parked q) eqn:P; cbn [fst]; auto.
  destruct (q_has q) eqn:Hh; [apply q_take_inv, H|].
  destruct (q_closed q) eqn:C; cbn [fst]; auto.
  destruct H as (Ha & Hh' & Hp). unfold qinv; cbn. repeat split; auto.
  rewrite Hh in Hh'. symmetry in Hh'. apply nonempty_false in Hh'. auto.
Qed.

Lemma q_read_closed q n : q_closed (fst (q_read q n)) = q_closed q.
Proof.
  unfold q_read. destruct (q_parked q); auto. destruct (q_has q); [apply q_take_closed|]. destruct (q_closed q) eqn:C; cbn; auto.
Qed.

Lemma q_read_app q n : q_app (fst (q_read q n)) = q_app q.
Proof.
  unfold q_read. destruct (q_parked q); auto. destruct (q_has q); [apply q_take_app|]. destruct (q_closed q); reflexivity.
Qed.

Lemma q_read_eof q n : qinv q -> snd (q_read q n) = REof ->
  q_closed q = true /\ q_ret q = q_app q /\ fst (q_read q n) = q.
Proof.
  intros H. unfold q_read. destruct (q_parked q); cbn; [discriminate|].
  destruct (q_has q) eqn:Hh; [apply q_take_eof, qinv_qinv0, H|].
  destruct (q_closed q) eqn:C; cbn; [|discriminate].
  intros _. destruct H as (Ha & Hh' & _). rewrite Hh in Hh'. symmetry in Hh'. apply nonempty_false in Hh'.
  rewrite Ha, Hh', app_nil_r. auto.
Qed.

(* a closed queue never parks a reader *)
Lemma q_read_closed_no_block q n : q_closed q = true -> snd (q_read q n) <> RBlock.
Proof.
  intros C. unfold q_read. destruct (q_parked q); cbn; [discriminate|].
  destruct (q_has q); [apply q_take_not_block|]. rewrite C. cbn. discriminate.
Qed.

Lemma q_read_block q n : snd (q_read q n) = RBlock -> q_closed q = false /\ q_parked (fst (q_read q n)) = Some n.
Proof.
  unfold q_read. destruct (q_parked q); cbn; [discriminate|].
  destruct (q_has q); [intros H; exfalso; exact (proj1 (q_take_not_block q n) H)|].
  destruct (q_closed q); cbn; [discriminate|auto].
Qed.

Lemma q_wake_inv0 q : qinv0 q -> qinv (fst (q_wake q)).
Proof.
  intros [Ha Hh]. unfold q_wake. destruct (q_parked q) eqn:P; cbn [fst].
  - destruct (q_take (q_set_parked q None) n) as [q' r] eqn:E. cbn [fst].
    change q' with (fst (q', r)). rewrite <- E. apply q_take_inv. unfold qinv; cbn. repeat split; auto; congruence.
  - unfold qinv. repeat split; auto; congruence.
Qed.

Lemma q_wake_inv q : qinv q -> qinv (fst (q_wake q)).
Proof. intros (Ha & Hh & _). apply q_wake_inv0. split; auto. Qed.

Lemma q_wake_parked q : q_parked (fst (q_wake q)) = None.
Proof.
  unfold q_wake. destruct (q_parked q) eqn:P; cbn [fst]; auto.
  destruct (q_take (q_set_parked q None) n) as [q' r] eqn:E. cbn [fst].
  change q' with (fst (q', r)). rewrite <- E, q_take_parked. reflexivity.
Qed.

Lemma q_wake_closed q : q_closed (fst (q_wake q)) = q_closed q.
Proof.
  unfold q_wake. destruct (q_parked q) eqn:P; cbn [fst]; auto.
  destruct (q_take (q_set_parked q None) n) as [q' r] eqn:E. cbn [fst].
  change q' with (fst (q', r)). rewrite <- E, q_take_closed. reflexivity.
Qed.

Lemma q_wake_app q : q_app (fst (q_wake q)) = q_app q.
Proof.
  unfold q_wake. destruct (q_parked q) eqn:P; cbn [fst]; auto.
  destruct (q_take (q_set_parked q None) n) as [q' r] eqn:E. cbn [fst].
  change q' with (fst (q', r)). rewrite <- E, q_take_app. reflexivity.
Qed.

(* a parked reader is released with an outcome; none parked, none released *)
Lemma q_wake_some q : (exists r, snd (q_wake q) = Some r) <-> q_parked q <> None.
Proof.
  unfold q_wake. destruct (q_parked q) eqn:P.
  - destruct (q_take (q_set_parked q None) n) as [q' r]. cbn. split; [congruence|eauto].
  - cbn. split; [intros [r H]; discriminate|congruence].
Qed.

Lemma q_wake_eof q : qinv0 q -> snd (q_wake q) = Some REof ->
  q_closed (fst (q_wake q)) = true /\ q_ret (fst (q_wake q)) = q_app (fst (q_wake q)).
Proof.
  intros H. unfold q_wake. destruct (q_parked q) eqn:P; cbn; [|discriminate].
  destruct (q_take (q_set_parked q None) n) as [q' r] eqn:E. cbn. intros R. inversion R; subst r.
  assert (H0 : qinv0 (q_set_parked q None)) by (destruct H; split; auto).
  pose proof (q_take_eof (q_set_parked q None) n H0) as T.
  rewrite E in T. cbn in T. destruct (T eq_refl) as (C & A & Q). subst q'. cbn. auto.
Qed.

Lemma q_append_inv q d : qinv q -> qinv (fst (q_append q d)).
Proof.
  intros (Ha & Hh & Hp). unfold q_append.
  set (q1 := {| q_buf := q_buf q ++ d; q_has := nonempty (q_buf q ++ d); q_closed := q_closed q; q_parked := q_parked q;
                q_app := q_app q ++ d; q_ret := q_ret q |}).
  destruct (q_has q1) eqn:E.
  - apply q_wake_inv0. split; cbn; auto. rewrite Ha, app_assoc. reflexivity.
  - cbn [fst]. cbn in E. unfold qinv, q1; cbn. repeat split; auto.
    + rewrite Ha, app_assoc. reflexivity.
    + apply nonempty_false, E.
    + apply Hp, H.
Qed.

Lemma q_append_closed q d : q_closed (fst (q_append q d)) = q_closed q.
Proof. unfold q_append. match goal with |- context [if ?b then _ else _] => destruct b end; [rewrite q_wake_closed|]; reflexivity. Qed.

Lemma q_append_app q d : q_app (fst (q_append q d)) = q_app q ++ d.
Proof. unfold q_append. match goal with |- context [if ?b then _ else _] => destruct b end; [rewrite q_wake_app|]; reflexivity. Qed.

(* what an Append releases a reader with is data, never end-of-stream *)
Lemma q_append_wakes_with_data q d : snd (q_append q d) <> Some REof.
Proof.
  unfold q_append.
  set (q1 := {| q_buf := q_buf q ++ d; q_has := nonempty (q_buf q ++ d); q_closed := q_closed q; q_parked := q_parked q;
                q_app := q_app q ++ d; q_ret := q_ret q |}).
  destruct (q_has q1) eqn:E; cbn [snd]; [|discriminate].
  unfold q_wake. destruct (q_parked q1); cbn [snd]; [|discriminate].
  unfold q_take, q_set_parked. subst q1. cbn [q_buf q_closed q_has] in *. rewrite E. cbn. discriminate.
Qed.

Lemma q_close_inv q : qinv q -> qinv (fst (q_close q)).
Proof. intros (Ha & Hh & _). unfold q_close. apply q_wake_inv0. split; auto. Qed.

Lemma q_close_closed q : q_closed (fst (q_close q)) = true.
Proof. unfold q_close. rewrite q_wake_closed. reflexivity. Qed.

Lemma q_close_parked q : q_parked (fst (q_close q)) = None.
Proof. unfold q_close. apply q_wake_parked. Qed.

Lemma q_close_app q : q_app (fst (q_close q)) = q_app q.
Proof. unfold q_close. rewrite q_wake_app. reflexivity. Qed.

(* Close releases the parked reader, with an outcome *)
Lemma q_close_releases q : q_parked q <> None -> exists r, snd (q_close q) = Some r.
Proof. intros P. unfold q_close. apply q_wake_some. exact P. Qed.

(* a reader released with end-of-stream by Close has been given everything that was ever appended *)
Lemma q_close_eof q : qinv q -> snd (q_close q) = Some REof ->
  q_ret (fst (q_close q)) = q_app (fst (q_close q)).
Proof.
  intros (Ha & Hh & _) E. unfold q_close in *. apply q_wake_eof in E; [tauto|]. split; auto.
Qed.

(* -- draining a closed queue: pieces of n octets, then end-of-stream *)
Lemma chunks_concat f n l : 0 < n -> List.length l <= f -> List.concat (chunks f n l) = l.
Proof.
  intros Hn. revert l. induction f as [|f IH]; intros l Hl.
  - destruct l; cbn in *; [reflexivity|lia].
  - destruct l as [|x l']; [reflexivity|]. cbn [chunks List.concat].
    rewrite IH; [apply firstn_skipn|]. rewrite skipn_length. cbn [List.length] in *. lia.
Qed.

Lemma ceil_div_0 n : 0 < n -> ceil_div 0 n = 0.
Proof. intros H. unfold ceil_div. apply Nat.div_small. lia. Qed.

Lemma ceil_div_step m n : 0 < n -> 0 < m -> ceil_div m n = S (ceil_div (m - n) n).
Proof.
  intros Hn Hm. unfold ceil_div.
  destruct (le_lt_dec m n) as [L|L].
  - replace (m - n) with 0 by lia. replace (0 + n - 1) with (n - 1) by lia. rewrite (Nat.div_small (n - 1) n) by lia.
    symmetry. apply Nat.div_unique with (r := m - 1); lia.
  - replace (m + n - 1) with ((m - n + n - 1) + 1 * n) by lia. rewrite Nat.div_add by lia. lia.
Qed.

Lemma chunks_length f n l : 0 < n -> List.length l <= f -> List.length (chunks f n l) = ceil_div (List.length l) n.
Proof.
  intros Hn. revert l. induction f as [|f IH]; intros l Hl.
  - destruct l; cbn in *; [rewrite ceil_div_0; auto|lia].
  - destruct l as [|x l']; [cbn; rewrite ceil_div_0; auto|].
    cbn [chunks]. rewrite (ceil_div_step (List.length (x :: l')) n) by (cbn; lia).
    cbn [List.length]. rewrite IH by (rewrite skipn_length; cbn [List.length] in *; lia).
    rewrite skipn_length. reflexivity.
Qed.

Lemma chunks_nonempty f n l c : 0 < n -> In c (chunks f n l) -> c <> [].
Proof.
  intros Hn. revert l. induction f as [|f IH]; intros l; cbn; [tauto|].
  destruct l as [|x l']; [cbn; tauto|]. intros [E|I].
  - subst c. destruct n; [lia|]. cbn. discriminate.
  - eapply IH, I.
Qed.

Lemma q_reads_drain f : forall q n, qinv q -> q_closed q = true -> 0 < n -> List.length (q_buf q) <= f ->
  exists q', q_reads q n (List.length (chunks f n (q_buf q)) + 1) = (q', List.map RBytes (chunks f n (q_buf q)) ++ [REof]) /\
             q_buf q' = [] /\ q_ret q' = q_app q /\ qinv q' /\ q_closed q' = true.
Proof.
  induction f as [|f IH]; intros q n I C Hn Hl.
  - assert (B : q_buf q = []) by (destruct (q_buf q); cbn in *; [reflexivity|lia]).
    destruct I as (Ha & Hh & Hp). assert (P : q_parked q = None).
    { destruct (q_parked q) eqn:P; auto. destruct Hp as [_ X]; congruence. }
    exists q. cbn. unfold q_read. rewrite P, Hh, B. cbn. rewrite C. repeat split; auto.
    + rewrite Ha, B, app_nil_r. reflexivity.
    + congruence.
  - destruct (q_buf q) as [|x l'] eqn:B.
    + destruct I as (Ha & Hh & Hp). assert (P : q_parked q = None).
      { destruct (q_parked q) eqn:P; auto. destruct Hp as [_ X]; congruence. }
      exists q. cbn. unfold q_read. rewrite P, Hh, B. cbn. rewrite C. repeat split; auto.
      * rewrite Ha, B, app_nil_r. reflexivity.
      * congruence.
    + pose proof I as (Ha & Hh & Hp). assert (P : q_parked q = None).
      { destruct (q_parked q) eqn:P; auto. destruct Hp as [X _]; congruence. }
      cbn [chunks List.length Nat.add q_reads].
      assert (R : q_read q n = q_take q n) by (unfold q_read; rewrite P, Hh, B; reflexivity).
      rewrite R. unfold q_take at 1. rewrite B. cbn [nonempty negb andb].
      set (q1 := {| q_buf := skipn n (x :: l'); q_has := nonempty (skipn n (x :: l')); q_closed := q_closed q; q_parked := q_parked q;
                    q_app := q_app q; q_ret := q_ret q ++ firstn n (x :: l') |}).
      assert (I1 : qinv q1).
      { pose proof (q_take_inv q n I) as T. unfold q_take in T. rewrite B in T. exact T. }
      destruct (IH q1 n I1 C Hn) as (q' & E & Bq & Rq & Iq & Cq).
      { unfold q1; cbn [q_buf]. rewrite skipn_length. cbn [List.length] in *. lia. }
      exists q'. change (q_buf q1) with (skipn n (x :: l')) in E. rewrite E. cbn [List.map app].
      split; [reflexivity|]. split; [exact Bq|]. split; [exact Rq|]. split; assumption.
Qed.

(* ------------------------------------------------------------------------------------------------ one out-queue *)

Definition oinv0 (o : oq) : Prop := o_sent o = o_ackd o ++ o_q o /\ o_has o = nonempty_l (o_q o).
Definition oinv (o : oq) : Prop := oinv0 o /\ (o_parked o <> None -> o_has o = true /\ o_closed o = false).

Lemma oinv_new : oinv o_new.
Proof. unfold oinv, oinv0, o_new; cbn. repeat split; congruence. Qed.

Lemma oinv_oinv0 o : oinv o -> oinv0 o.
Proof. intros [H _]; exact H. Qed.

Lemma nonempty_l_false {A} (l : list A) : nonempty_l l = false -> l = [].
Proof. destruct l; cbn; congruence. Qed.

Lemma o_enqueue_inv0 o d : oinv0 o -> oinv0 (o_enqueue o d).
Proof. intros [A H]. split; cbn; [rewrite A, app_assoc; reflexivity|destruct (o_q o); reflexivity]. Qed.

Lemma o_dequeue_inv0 o : oinv0 o -> oinv0 (o_dequeue o).
Proof.
  intros [A H]. unfold o_dequeue. destruct (o_q o) as [|h r] eqn:Q; [split; [rewrite A, Q; reflexivity|rewrite H, Q; reflexivity]|].
  split; cbn; [rewrite A, <- app_assoc; reflexivity|reflexivity].
Qed.

Lemma o_check_inv0 o : o_sent o = o_ackd o ++ o_q o -> oinv0 (o_check o).
Proof. intros A. split; cbn; auto. Qed.

Lemma o_dequeue_fields o : o_closed (o_dequeue o) = o_closed o /\ o_parked (o_dequeue o) = o_parked o.
Proof. unfold o_dequeue. destruct (o_q o); cbn; auto. Qed.

(* the last wait of Write: parks only on an open queue that holds chunks *)
Lemma o_final_inv o n : oinv0 o -> o_parked o = None -> oinv (fst (o_final o n)).
Proof.
  intros I P. unfold o_final, o_wait. destruct (o_has o) eqn:H; cbn [negb].
  - destruct (o_closed o) eqn:C; cbn [fst].
    + split; [exact I|rewrite P; congruence].
    + destruct I as [A Hh]. split; [split; cbn; auto|]. cbn. intros _. auto.
  - cbn [fst]. split; [exact I|rewrite P; congruence].
Qed.

Lemma o_final_closed o n : o_closed (fst (o_final o n)) = o_closed o.
Proof. unfold o_final. destruct (o_wait o); reflexivity. Qed.

Lemma o_final_no_park_when_closed o n : o_closed o = true -> o_parked (fst (o_final o n)) = o_parked o /\ forall b, snd (o_final o n) <> WBlock b.
Proof. intros C. unfold o_final, o_wait. rewrite C. destruct (o_has o); cbn; split; auto; discriminate. Qed.

Lemma o_final_done o n m : oinv0 o -> snd (o_final o n) = WDone m -> m = n /\ o_q (fst (o_final o n)) = [] /\ o_sent (fst (o_final o n)) = o_ackd (fst (o_final o n)).
Proof.
  intros [A H]. unfold o_final, o_wait. destruct (o_has o) eqn:Hh; cbn [negb].
  - destruct (o_closed o); cbn; discriminate.
  - cbn. intros E. inversion E. symmetry in H. apply nonempty_l_false in H. rewrite A, H, app_nil_r. auto.
Qed.

Lemma o_final_closed_outcome o n m : snd (o_final o n) = WClosed m -> o_closed o = true.
Proof. unfold o_final, o_wait. destruct (o_has o); cbn; [|discriminate]. destruct (o_closed o); cbn; [auto|discriminate]. Qed.

Lemma o_fill_inv o d sent : oinv0 o -> o_parked o = None -> oinv (fst (o_fill o d sent)).
Proof.
  intros I P. unfold o_fill. destruct d as [|x d'].
  - apply o_final_inv; [apply o_check_inv0, I|exact P].
  - destruct sent as [[|]|].
    + apply o_final_inv; [apply o_dequeue_inv0, o_enqueue_inv0, I|]. rewrite (proj2 (o_dequeue_fields _)). exact P.
    + cbn [fst]. split; [apply o_enqueue_inv0, I|]. cbn. rewrite P. congruence.
    + apply o_final_inv; [apply o_enqueue_inv0, I|exact P].
Qed.

Lemma o_fill_closed o d sent : o_closed (fst (o_fill o d sent)) = o_closed o.
Proof.
  unfold o_fill. destruct d; [rewrite o_final_closed; reflexivity|].
  destruct sent as [[|]|]; [rewrite o_final_closed, (proj1 (o_dequeue_fields _))| |rewrite o_final_closed]; reflexivity.
Qed.

Lemma o_fill_no_park_when_closed o d sent : o_closed o = true -> o_parked o = None ->
  o_parked (fst (o_fill o d sent)) = None /\ forall b, snd (o_fill o d sent) <> WBlock b.
Proof.
  intros C P. unfold o_fill. destruct d.
  - destruct (o_final_no_park_when_closed (o_check o) 0 C) as [A B]. split; [rewrite A; exact P|exact B].
  - destruct sent as [[|]|].
    + destruct (o_final_no_park_when_closed (o_dequeue (o_enqueue o (n :: d))) (List.length (n :: d))) as [A B].
      { rewrite (proj1 (o_dequeue_fields _)). exact C. }
      split; [rewrite A, (proj2 (o_dequeue_fields _)); exact P|exact B].
    + cbn. split; [exact P|discriminate].
    + destruct (o_final_no_park_when_closed (o_enqueue o (n :: d)) (List.length (n :: d)) C) as [A B]. split; [rewrite A; exact P|exact B].
Qed.

(* a Write reports success only when the queue is empty again: every chunk ever queued has been acknowledged *)
Lemma o_fill_done o d sent m : oinv0 o -> snd (o_fill o d sent) = WDone m ->
  m = List.length d /\ o_q (fst (o_fill o d sent)) = [] /\ o_sent (fst (o_fill o d sent)) = o_ackd (fst (o_fill o d sent)).
Proof.
  intros I. unfold o_fill. destruct d as [|x d'].
  - intros E. apply o_final_done in E; [exact E|apply o_check_inv0, I].
  - destruct sent as [[|]|].
    + intros E. apply o_final_done in E; [exact E|apply o_dequeue_inv0, o_enqueue_inv0, I].
    + cbn. discriminate.
    + intros E. apply o_final_done in E; [exact E|apply o_enqueue_inv0, I].
Qed.

Lemma o_fill_closed_outcome o d sent m : snd (o_fill o d sent) = WClosed m -> o_closed o = true.
Proof.
  unfold o_fill. destruct d; [intros E; apply o_final_closed_outcome in E; exact E|].
  destruct sent as [[|]|]; [|cbn; discriminate|]; intros E; apply o_final_closed_outcome in E; [rewrite (proj1 (o_dequeue_fields _)) in E|]; exact E.
Qed.

Lemma o_write_inv o d sent : oinv o -> oinv (fst (o_write o d sent)).
Proof.
  intros I. unfold o_write. destruct (o_parked o) eqn:P; cbn [fst]; auto.
  unfold o_wait. destruct (o_has o) eqn:H; cbn [negb].
  - destruct (o_closed o) eqn:C; cbn [fst]; auto.
    destruct I as [[A Hh] _]. split; [split; cbn; auto|]. cbn. auto.
  - apply o_fill_inv; [apply oinv_oinv0, I|exact P].
Qed.

Lemma o_write_closed o d sent : o_closed (fst (o_write o d sent)) = o_closed o.
Proof.
  unfold o_write. destruct (o_parked o); auto. destruct (o_wait o); [apply o_fill_closed| |]; reflexivity.
Qed.

Lemma o_write_done o d sent m : oinv o -> snd (o_write o d sent) = WDone m ->
  m = List.length d /\ o_q (fst (o_write o d sent)) = [] /\ o_sent (fst (o_write o d sent)) = o_ackd (fst (o_write o d sent)).
Proof.
  intros I. unfold o_write. destruct (o_parked o); [cbn; discriminate|].
  destruct (o_wait o); [apply o_fill_done, oinv_oinv0, I| |]; cbn; discriminate.
Qed.

Lemma o_write_closed_outcome o d sent m : snd (o_write o d sent) = WClosed m -> o_closed o = true.
Proof.
  unfold o_write. destruct (o_parked o); [cbn; discriminate|]. unfold o_wait.
  destruct (o_has o); cbn [negb]; [|apply o_fill_closed_outcome].
  destruct (o_closed o); cbn; [auto|discriminate].
Qed.

(* a closed out-queue parks no writer *)
Lemma o_write_closed_no_block o d sent : o_closed o = true -> forall b, snd (o_write o d sent) <> WBlock b.
Proof.
  intros C b. unfold o_write. destruct (o_parked o) eqn:P; [cbn; discriminate|]. unfold o_wait. rewrite C.
  destruct (o_has o); cbn [negb]; [cbn; discriminate|]. apply o_fill_no_park_when_closed; auto.
Qed.

Lemma o_wake_inv0 o : oinv0 o -> oinv (fst (o_wake o)).
Proof.
  intros I. unfold o_wake. destruct (o_parked o) as [st|] eqn:P; cbn [fst].
  - assert (I0 : oinv0 (o_set_parked o None)) by exact I.
    destruct (o_closed (o_set_parked o None) && o_has (o_set_parked o None)); cbn [fst].
    + split; [exact I0|cbn; congruence].
    + destruct st as [d sent|n]; cbn [fst].
      * pose proof (o_fill_inv (o_set_parked o None) d sent I0 eq_refl) as T.
        destruct (o_fill (o_set_parked o None) d sent). exact T.
      * split; [exact I0|cbn; congruence].
  - split; [exact I|rewrite P; congruence].
Qed.

Lemma o_wake_closed o : o_closed (fst (o_wake o)) = o_closed o.
Proof.
  unfold o_wake. destruct (o_parked o) as [st|]; auto.
  destruct (o_closed (o_set_parked o None) && o_has (o_set_parked o None)); auto.
  destruct st; auto. pose proof (o_fill_closed (o_set_parked o None) d sent) as T. destruct (o_fill (o_set_parked o None) d sent). exact T.
Qed.

Lemma o_wake_some o : (exists r, snd (o_wake o) = Some r) <-> o_parked o <> None.
Proof.
  unfold o_wake. destruct (o_parked o) as [st|].
  - split; [congruence|intros _].
    destruct (o_closed (o_set_parked o None) && o_has (o_set_parked o None)); [cbn; eauto|].
    destruct st; [|cbn; eauto]. destruct (o_fill (o_set_parked o None) d sent). cbn. eauto.
  - cbn. split; [intros [r H]; discriminate|congruence].
Qed.

(* woken on a closed queue: the writer returns and none is parked afterwards *)
Lemma o_wake_when_closed o : o_closed o = true -> o_parked (fst (o_wake o)) = None /\ forall b, snd (o_wake o) <> Some (WBlock b).
Proof.
  intros C. unfold o_wake. destruct (o_parked o) as [st|] eqn:P; [|cbn; split; [exact P|discriminate]].
  destruct (o_closed (o_set_parked o None) && o_has (o_set_parked o None)); [cbn; split; [auto|discriminate]|].
  destruct st as [d sent|n]; [|cbn; split; [auto|discriminate]].
  destruct (o_fill_no_park_when_closed (o_set_parked o None) d sent C eq_refl) as [A B].
  destruct (o_fill (o_set_parked o None) d sent). cbn in *. split; [exact A|]. intros b E. inversion E. exact (B b H0).
Qed.

(* a woken writer reports success only when the queue is empty: everything queued has been acknowledged *)
Lemma o_wake_done o m : oinv0 o -> (o_has o = false \/ o_closed o = true) -> snd (o_wake o) = Some (WDone m) ->
  o_q (fst (o_wake o)) = [] /\ o_sent (fst (o_wake o)) = o_ackd (fst (o_wake o)).
Proof.
  intros I HC. unfold o_wake. destruct (o_parked o) as [st|]; [|cbn; discriminate].
  assert (I0 : oinv0 (o_set_parked o None)) by exact I.
  destruct (o_closed (o_set_parked o None) && o_has (o_set_parked o None)) eqn:E; [cbn; discriminate|].
  destruct st as [d sent|n].
  - pose proof (o_fill_done (o_set_parked o None) d sent m I0) as T. destruct (o_fill (o_set_parked o None) d sent) as [o1 r].
    cbn [fst snd] in *. intros R. inversion R; subst r. destruct (T eq_refl) as (_ & A & B). auto.
  - cbn [fst snd]. intros _. cbn in E. destruct I as [A H].
    assert (Hf : o_has o = false). { destruct HC as [X|X]; [exact X|]. rewrite X in E. cbn in E. exact E. }
    rewrite Hf in H. symmetry in H. apply nonempty_l_false in H. cbn. rewrite A, H, app_nil_r. auto.
Qed.

Lemma o_wake_closed_outcome o m : snd (o_wake o) = Some (WClosed m) -> o_closed o = true.
Proof.
  unfold o_wake. destruct (o_parked o) as [st|]; [|cbn; discriminate].
  destruct (o_closed (o_set_parked o None) && o_has (o_set_parked o None)) eqn:E.
  - intros _. apply andb_prop in E. exact (proj1 E).
  - destruct st as [d sent|n]; [|cbn; discriminate].
    pose proof (o_fill_closed_outcome (o_set_parked o None) d sent m) as T. destruct (o_fill (o_set_parked o None) d sent) as [o1 r].
    cbn [snd] in *. intros R. inversion R; subst r. exact (T eq_refl).
Qed.

Lemma o_ack_inv o : oinv o -> oinv (fst (o_ack o)).
Proof.
  intros [I P]. unfold o_ack. pose proof (o_dequeue_inv0 o I) as I1. destruct (o_dequeue_fields o) as [F1 F2].
  destruct (o_has (o_dequeue o)) eqn:H; cbn [fst].
  - split; [exact I1|]. rewrite F1, F2. intros X. split; [exact H|exact (proj2 (P X))].
  - apply o_wake_inv0, I1.
Qed.

Lemma o_ack_closed o : o_closed (fst (o_ack o)) = o_closed o.
Proof. unfold o_ack. destruct (o_has (o_dequeue o)); [|rewrite o_wake_closed]; apply o_dequeue_fields. Qed.

Lemma o_ack_done o m : oinv o -> snd (o_ack o) = Some (WDone m) -> o_q (fst (o_ack o)) = [] /\ o_sent (fst (o_ack o)) = o_ackd (fst (o_ack o)).
Proof.
  intros [I _]. unfold o_ack. destruct (o_has (o_dequeue o)) eqn:H; [cbn; discriminate|].
  apply o_wake_done; [apply o_dequeue_inv0, I|auto].
Qed.

Lemma o_close_inv o : oinv o -> oinv (fst (o_close o)).
Proof. intros [I _]. unfold o_close. apply o_wake_inv0. exact I. Qed.

Lemma o_close_closed o : o_closed (fst (o_close o)) = true.
Proof. unfold o_close. rewrite o_wake_closed. reflexivity. Qed.

Lemma o_close_parked o : o_parked (fst (o_close o)) = None.
Proof. unfold o_close. apply o_wake_when_closed. reflexivity. Qed.

(* Close releases the parked writer: it returns (it does not park again) *)
Lemma o_close_releases o : o_parked o <> None -> exists r, snd (o_close o) = Some r /\ forall b, r <> WBlock b.
Proof.
  intros P. unfold o_close.
  set (o1 := {| o_q := o_q o; o_has := o_has o; o_closed := true; o_parked := o_parked o; o_sent := o_sent o; o_ackd := o_ackd o |}).
  destruct (proj2 (o_wake_some o1) P) as [r R]. exists r. split; [exact R|].
  intros b E. subst r. exact (proj2 (o_wake_when_closed o1 eq_refl) b R).
Qed.

Lemma o_close_done o m : oinv o -> snd (o_close o) = Some (WDone m) -> o_q (fst (o_close o)) = [] /\ o_sent (fst (o_close o)) = o_ackd (fst (o_close o)).
Proof. intros [I _]. unfold o_close. apply o_wake_done; [exact I|auto]. Qed.

Lemma closed_out_queue_not_parked o : oinv o -> o_closed o = true -> o_parked o = None.
Proof. intros [_ P] C. destruct (o_parked o) eqn:E; auto. destruct P as [_ X]; congruence. Qed.

(* ------------------------------------------------------------------------------------------------ the two ends *)

Definition live (s : slot) : bool := match s with Live => true | _ => false end.

(* holds in every state the connection can get into (shape of the code as it is) *)
Definition conn_inv (c : conn) : Prop :=
  qinv (c_in c) /\ qinv (s_in c) /\
  q_closed (c_in c) = c_comm c /\                    (* the client's in-queue is closed exactly when the client end is *)
  q_closed (s_in c) = negb (live (s_slot c)) /\       (* the server's in-queue is closed exactly when the session is no longer live *)
  (s_closed c = true -> live (s_slot c) = false).

Lemma conn_inv_intro c : qinv (c_in c) -> qinv (s_in c) -> q_closed (c_in c) = c_comm c -> q_closed (s_in c) = negb (live (s_slot c)) ->
  (s_closed c = true -> live (s_slot c) = false) -> conn_inv c.
Proof. unfold conn_inv; tauto. Qed.

Lemma conn_inv_init hs fs : conn_inv (init_conn hs fs).
Proof. apply conn_inv_intro; cbn; auto using qinv_new; congruence. Qed.

(* destruct a pair-valued call and keep its components as projections *)
Ltac split_pair t q w :=
  let E := fresh "E" in
  destruct t as [q w] eqn:E;
  let E1 := fresh "E" in let E2 := fresh "E" in
  pose proof (f_equal fst E) as E1; pose proof (f_equal snd E) as E2; cbn [fst snd] in E1, E2; subst q; subst w; clear E.

(* the three places where the queues are closed, written out for the shape of the code as it is *)
Lemma srv_close_connection_live c : s_slot c = Live ->
  srv_close_connection intended c =
  (set_sout (set_sin (set_srv c true Retired) (fst (q_close (s_in c)))) (fst (o_close (s_out c))),
   woke false (snd (q_close (s_in c))) ++ wwoke false (snd (o_close (s_out c)))).
Proof.
  intros S. unfold srv_close_connection. rewrite S. cbn [sh_sc_closes_q sh_sc_closes_out intended s_in s_out set_srv set_sin].
  destruct (q_close (s_in c)) as [q w]. cbn [s_out set_sin set_srv]. destruct (o_close (s_out c)) as [o wo]. reflexivity.
Qed.

Lemma srv_expire_live c : s_slot c = Live ->
  srv_expire intended c =
  (set_sout (set_sin (set_srv c (s_closed c) Retired) (fst (q_close (s_in c)))) (fst (o_close (s_out c))),
   woke false (snd (q_close (s_in c))) ++ wwoke false (snd (o_close (s_out c)))).
Proof.
  intros S. unfold srv_expire. rewrite S. cbn [sh_sweep_closes_q sh_sweep_closes_out intended s_in s_out set_srv set_sin].
  destruct (q_close (s_in c)) as [q w]. cbn [s_out set_sin set_srv]. destruct (o_close (s_out c)) as [o wo]. reflexivity.
Qed.

Lemma srv_close_connection_not_live sh c : s_slot c <> Live -> srv_close_connection sh c = (c, []).
Proof. unfold srv_close_connection. destruct (s_slot c); congruence. Qed.
Lemma srv_expire_not_live sh c : s_slot c <> Live -> srv_expire sh c = (c, []).
Proof. unfold srv_expire. destruct (s_slot c); congruence. Qed.

Lemma slot_live_dec sl : sl = Live \/ sl <> Live.
Proof. destruct sl; [left; reflexivity|right; discriminate|right; discriminate]. Qed.

Lemma srv_close_connection_inv c : conn_inv c -> conn_inv (fst (srv_close_connection intended c)).
Proof.
  intros I. destruct (slot_live_dec (s_slot c)) as [S|S]; [|rewrite srv_close_connection_not_live by exact S; exact I].
  rewrite (srv_close_connection_live c S). cbn [fst]. destruct I as (I1 & I2 & I3 & I4 & I5).
  apply conn_inv_intro; cbn; auto.
  - apply q_close_inv, I2.
  - apply q_close_closed.
Qed.

Lemma srv_expire_inv c : conn_inv c -> conn_inv (fst (srv_expire intended c)).
Proof.
  intros I. destruct (slot_live_dec (s_slot c)) as [S|S]; [|rewrite srv_expire_not_live by exact S; exact I].
  rewrite (srv_expire_live c S). cbn [fst]. destruct I as (I1 & I2 & I3 & I4 & I5).
  apply conn_inv_intro; cbn; auto.
  - apply q_close_inv, I2.
  - apply q_close_closed.
Qed.

Lemma srv_forget_inv c : conn_inv c -> conn_inv (srv_forget c).
Proof.
  intros (I1 & I2 & I3 & I4 & I5). unfold srv_forget. destruct (s_slot c) eqn:S; try (unfold conn_inv; rewrite S; tauto).
  apply conn_inv_intro; cbn; auto.
Qed.

Lemma srv_event_inv c e : conn_inv c -> conn_inv (fst (srv_event intended c e)).
Proof. intros I. destruct e; cbn [srv_event fst]; auto using srv_close_connection_inv, srv_expire_inv, srv_forget_inv. Qed.

Lemma srv_packet_inv c own up : conn_inv c -> conn_inv (fst (fst (srv_packet c own up))).
Proof.
  intros I. unfold srv_packet. destruct (validate (s_slot c) own); cbn [fst]; auto.
  destruct up as [d|]; cbn [fst]; auto.
  split_pair (q_append (s_in c) d) q w. cbn [fst].
  destruct I as (I1 & I2 & I3 & I4 & I5). apply conn_inv_intro; cbn; auto.
  - apply q_append_inv, I2.
  - rewrite q_append_closed. exact I4.
Qed.

Lemma srv_close_request_inv c own : conn_inv c -> conn_inv (fst (fst (srv_close_request intended c own))).
Proof.
  intros I. unfold srv_close_request. destruct (validate (s_slot c) own); cbn [fst]; auto.
  split_pair (srv_close_connection intended c) c1 o. cbn [fst]. apply srv_close_connection_inv, I.
Qed.

Lemma next_fate_inv fs : forall c acc, conn_inv c -> conn_inv (fst (fst (next_fate intended fs c acc))).
Proof.
  induction fs as [|f r IH]; intros c acc I; cbn [next_fate].
  - cbn [fst]. destruct I as (I1 & I2 & I3 & I4 & I5). apply conn_inv_intro; cbn; auto.
  - destruct f; try (cbn [fst]; destruct I as (I1 & I2 & I3 & I4 & I5); apply conn_inv_intro; cbn; auto; fail).
    split_pair (srv_event intended c e) c1 o. apply IH, srv_event_inv, I.
Qed.

Lemma mk_err_intended c e : mk_err intended c e = (c, e).
Proof. destruct e; reflexivity. Qed.

Lemma set_fresh_inv c k : conn_inv c -> conn_inv (set_fresh c k).
Proof. intros (I1 & I2 & I3 & I4 & I5). apply conn_inv_intro; cbn; auto. Qed.

Lemma set_poll_inv c n l : conn_inv c -> conn_inv (set_poll c n l).
Proof. intros (I1 & I2 & I3 & I4 & I5). apply conn_inv_intro; cbn; auto. Qed.

Lemma sar_inv tries : forall c up, conn_inv c -> conn_inv (fst (fst (sar intended tries c up))).
Proof.
  induction tries as [|t IH]; intros c up I; cbn [sar].
  - rewrite mk_err_intended. cbn [fst]. exact I.
  - destruct (next_fate intended (c_fates c) c []) as [[c1 f] o1] eqn:E.
    assert (I1 : conn_inv c1).
    { pose proof (next_fate_inv (c_fates c) c [] I) as T. rewrite E in T. exact T. }
    destruct f.
    + destruct (srv_packet c1 true up) as [[c2 e] o2] eqn:E2.
      assert (I2 : conn_inv c2) by (pose proof (srv_packet_inv c1 true up I1) as T; rewrite E2 in T; exact T).
      destruct e as [e|].
      * rewrite mk_err_intended. cbn [fst]. exact I2.
      * destruct (nonempty down); cbn [fst]; auto.
        split_pair (q_append (c_in c2) down) q w. cbn [fst].
        destruct I2 as (J1 & J2 & J3 & J4 & J5). apply conn_inv_intro; cbn; auto.
        -- apply q_append_inv, J1.
        -- rewrite q_append_closed. exact J3.
    + specialize (IH c1 up I1). destruct (sar intended t c1 up) as [[c2 r] o2]. exact IH.
    + cbn [fst]. apply set_fresh_inv, I1.
    + destruct (srv_packet c1 false up) as [[c2 e] o2] eqn:E2.
      assert (I2 : conn_inv c2) by (pose proof (srv_packet_inv c1 false up I1) as T; rewrite E2 in T; exact T).
      destruct e as [e|]; [rewrite mk_err_intended|]; cbn [fst]; exact I2.
    + cbn [fst]. exact I1.
Qed.

Lemma cli_close_net_inv c : conn_inv c -> conn_inv (fst (cli_close_net intended c)).
Proof.
  intros I. unfold cli_close_net.
  destruct (negb (c_comm c) && c_hs c); [|exact I].
  destruct (sar intended sar_tries c None) as [[ca ra] oa] eqn:Ea.
  assert (Ia : conn_inv ca) by (pose proof (sar_inv sar_tries c None I) as T; rewrite Ea in T; exact T).
  destruct (next_fate intended (c_fates ca) ca []) as [[cb f] ob] eqn:Eb.
  assert (Ib : conn_inv cb) by (pose proof (next_fate_inv (c_fates ca) ca [] Ia) as T; rewrite Eb in T; exact T).
  destruct f; try exact Ib.
  - destruct (srv_close_request intended cb true) as [[cc ec] oc] eqn:Ec.
    pose proof (srv_close_request_inv cb true Ib) as T; rewrite Ec in T; exact T.
  - destruct (srv_close_request intended cb false) as [[cc ec] oc] eqn:Ec.
    pose proof (srv_close_request_inv cb false Ib) as T; rewrite Ec in T; exact T.
Qed.

Lemma cli_close_eq c :
  cli_close intended c =
  (let c1 := fst (cli_close_net intended c) in
   (set_comm (set_cout (set_cin c1 (fst (q_close (c_in c1)))) (fst (o_close (c_out c1)))) true,
    snd (cli_close_net intended c) ++ woke true (snd (q_close (c_in c1))) ++ wwoke true (snd (o_close (c_out c1))))).
Proof.
  unfold cli_close. destruct (cli_close_net intended c) as [c1 o1]. cbn [sh_cc_closes_q sh_cc_closes_out intended fst snd].
  destruct (q_close (c_in c1)) as [q w]. cbn [c_out set_cin]. destruct (o_close (c_out c1)) as [o wo]. reflexivity.
Qed.

Lemma cli_close_inv c : conn_inv c -> conn_inv (fst (cli_close intended c)).
Proof.
  intros I. rewrite cli_close_eq. cbn zeta. cbn [fst]. pose proof (cli_close_net_inv c I) as I1.
  destruct I1 as (J1 & J2 & J3 & J4 & J5). apply conn_inv_intro; cbn; auto.
  - apply q_close_inv, J1.
  - apply q_close_closed.
Qed.

Lemma cli_poll_inv c up : conn_inv c -> conn_inv (fst (cli_poll intended c up)).
Proof.
  intros I. unfold cli_poll. destruct (c_comm c || negb (c_hs c)); cbn [fst]; auto.
  destruct (sar intended sar_tries c up) as [[c1 r] o1] eqn:E.
  assert (I1 : conn_inv c1) by (pose proof (sar_inv sar_tries c up I) as T; rewrite E in T; exact T).
  destruct (poll_react (c_cnt c1) (c_last c1) r) as [[cnt last] cl].
  destruct cl; cbn [fst].
  - split_pair (cli_close intended (set_poll c1 cnt last)) c3 o3. cbn [fst]. apply cli_close_inv, set_poll_inv, I1.
  - apply set_poll_inv, I1.
Qed.

Lemma c_read_inv c n : conn_inv c -> conn_inv (fst (c_read intended c n)).
Proof.
  intros I. unfold c_read. destruct (q_parked (c_in c)); cbn [fst]; auto.
  match goal with |- context [if ?b then _ else _] => destruct b end; cbn [fst]; auto.
  split_pair (q_read (c_in c) n) q r. cbn [fst].
  destruct I as (I1 & I2 & I3 & I4 & I5). apply conn_inv_intro; cbn; auto.
  - apply q_read_inv, I1.
  - rewrite q_read_closed. exact I3.
Qed.

Lemma s_read_inv c n : conn_inv c -> conn_inv (fst (s_read intended c n)).
Proof.
  intros I. unfold s_read. destruct (q_parked (s_in c)); cbn [fst]; auto.
  match goal with |- context [if ?b then _ else _] => destruct b end; cbn [fst]; auto.
  split_pair (q_read (s_in c) n) q r. cbn [fst].
  destruct I as (I1 & I2 & I3 & I4 & I5). apply conn_inv_intro; cbn; auto.
  - apply q_read_inv, I2.
  - rewrite q_read_closed. exact I4.
Qed.

Lemma set_sout_inv c o : conn_inv c -> conn_inv (set_sout c o).
Proof. intros (I1 & I2 & I3 & I4 & I5). apply conn_inv_intro; cbn; auto. Qed.
Lemma set_cout_inv c o : conn_inv c -> conn_inv (set_cout c o).
Proof. intros (I1 & I2 & I3 & I4 & I5). apply conn_inv_intro; cbn; auto. Qed.

Lemma s_write_inv c d : conn_inv c -> conn_inv (fst (s_write c d)).
Proof.
  intros I. unfold s_write. destruct (o_parked (s_out c)); [exact I|]. destruct (s_closed c); [exact I|].
  destruct (o_write (s_out c) d None). apply set_sout_inv, I.
Qed.

Lemma srv_ack_inv c own : conn_inv c -> conn_inv (fst (fst (srv_ack c own))).
Proof.
  intros I. unfold srv_ack. destruct (validate (s_slot c) own); [exact I|]. destruct (o_ack (s_out c)). apply set_sout_inv, I.
Qed.

Lemma step_inv c o : conn_inv c -> conn_inv (fst (step intended c o)).
Proof.
  intros I. destruct o; cbn [step].
  - split_pair (q_append (c_in c) d) q w. cbn [fst].
    destruct I as (I1 & I2 & I3 & I4 & I5). apply conn_inv_intro; cbn; auto.
    + apply q_append_inv, I1.
    + rewrite q_append_closed. exact I3.
  - pose proof (srv_packet_inv c true (Some d) I) as T. destruct (srv_packet c true (Some d)) as [[c1 e] os]. exact T.
  - pose proof (c_read_inv c n I) as T. destruct (c_read intended c n). exact T.
  - pose proof (s_read_inv c n I) as T. destruct (s_read intended c n). exact T.
  - pose proof (cli_close_inv c I) as T. destruct (cli_close intended c). exact T.
  - pose proof (srv_close_connection_inv c I) as T. destruct (srv_close_connection intended c). exact T.
  - pose proof (srv_close_request_inv c true I) as T. destruct (srv_close_request intended c true) as [[c1 e] os]. exact T.
  - pose proof (srv_expire_inv c I) as T. destruct (srv_expire intended c). exact T.
  - cbn [fst]. apply srv_forget_inv, I.
  - exact I.
  - pose proof (s_write_inv c d I) as T. destruct (s_write c d). exact T.
  - cbn [fst]. apply set_sout_inv, I.
  - pose proof (srv_ack_inv c true I) as T. destruct (srv_ack c true) as [[c1 e] os]. exact T.
  - destruct (o_write (c_out c) d (Some sent)). cbn [fst]. apply set_cout_inv, I.
  - destruct (o_ack (c_out c)). cbn [fst]. apply set_cout_inv, I.
  - apply cli_poll_inv, I.
Qed.

Lemma run_inv ops : forall c, conn_inv c -> conn_inv (fst (run intended c ops)).
Proof.
  induction ops as [|o r IH]; intros c I; cbn [run fst]; auto.
  pose proof (step_inv c o I) as T. destruct (step intended c o) as [c1 o1]. cbn [fst] in T.
  specialize (IH c1 T). destruct (run intended c1 r) as [c2 o2]. exact IH.
Qed.

(* every state the connection can get into: any handshake state, any path script, any sequence of operations *)
Definition reach (c : conn) : Prop := exists hs fs ops, c = fst (run intended (init_conn hs fs) ops).

Lemma reach_inv c : reach c -> conn_inv c.
Proof. intros (hs & fs & ops & ->). apply run_inv, conn_inv_init. Qed.

Lemma run_app sh ops1 : forall c ops2, fst (run sh c (ops1 ++ ops2)) = fst (run sh (fst (run sh c ops1)) ops2).
Proof.
  induction ops1 as [|o r IH]; intros c ops2; cbn [app run fst]; auto.
  destruct (step sh c o) as [c1 o1]. specialize (IH c1 ops2).
  destruct (run sh c1 (r ++ ops2)) as [c2 o2]. destruct (run sh c1 r) as [c3 o3]. cbn [fst] in *. exact IH.
Qed.

Lemma reach_step c o : reach c -> reach (fst (step intended c o)).
Proof.
  intros (hs & fs & ops & ->). exists hs, fs, (ops ++ [o]). rewrite run_app. cbn [run].
  destruct (step intended (fst (run intended (init_conn hs fs) ops)) o). reflexivity.
Qed.

Lemma reach_run c ops : reach c -> reach (fst (run intended c ops)).
Proof. intros (hs & fs & ops0 & ->). exists hs, fs, (ops0 ++ ops). symmetry. apply run_app. Qed.

(* ---- nothing lost, nothing twice, nothing out of order: on each end, what the reads have returned so far, followed by what is
   still buffered, is exactly what was appended *)
Lemma conn_no_loss c : reach c ->
  q_app (c_in c) = q_ret (c_in c) ++ q_buf (c_in c) /\ q_app (s_in c) = q_ret (s_in c) ++ q_buf (s_in c).
Proof. intros R. destruct (reach_inv c R) as ((A1 & _) & (A2 & _) & _). auto. Qed.

(* ---- end-of-stream means: this end is closed and everything appended to it has been returned *)
Lemma c_read_eof c n : reach c -> snd (c_read intended c n) = REof ->
  c_comm c = true /\ q_ret (c_in c) = q_app (c_in c) /\ fst (c_read intended c n) = c.
Proof.
  intros R. destruct (reach_inv c R) as (I1 & I2 & I3 & I4 & I5). unfold c_read.
  destruct (q_parked (c_in c)); cbn [snd]; [discriminate|].
  cbn [sh_c_eof_drained intended]. destruct (c_comm c && negb (q_has (c_in c))) eqn:E; cbn [fst snd].
  - intros _. apply andb_prop in E. destruct E as [E1 E2]. apply negb_true_iff in E2.
    destruct I1 as (A & H & _). rewrite E2 in H. symmetry in H. apply nonempty_false in H.
    rewrite A, H, app_nil_r. auto.
  - split_pair (q_read (c_in c) n) q r. cbn [fst snd]. intros Q.
    destruct (q_read_eof (c_in c) n I1 Q) as (C & A & F). rewrite F. rewrite <- I3. repeat split; auto.
    destruct c; reflexivity.
Qed.

Lemma s_read_eof c n : reach c -> snd (s_read intended c n) = REof ->
  live (s_slot c) = false /\ q_ret (s_in c) = q_app (s_in c) /\ fst (s_read intended c n) = c.
Proof.
  intros R. destruct (reach_inv c R) as (I1 & I2 & I3 & I4 & I5). unfold s_read.
  destruct (q_parked (s_in c)); cbn [snd]; [discriminate|].
  cbn [sh_s_eof_drained intended]. destruct (s_closed c && negb (q_has (s_in c))) eqn:E; cbn [fst snd].
  - intros _. apply andb_prop in E. destruct E as [E1 E2]. apply negb_true_iff in E2.
    destruct I2 as (A & H & _). rewrite E2 in H. symmetry in H. apply nonempty_false in H.
    rewrite A, H, app_nil_r. auto.
  - split_pair (q_read (s_in c) n) q r. cbn [fst snd]. intros Q.
    destruct (q_read_eof (s_in c) n I2 Q) as (C & A & F). rewrite F. rewrite I4 in C. apply negb_true_iff in C. repeat split; auto.
    destruct c; reflexivity.
Qed.

(* ---- once an end is closed, no reader is parked on it and no Read parks any more *)
Lemma closed_queue_not_parked q : qinv q -> q_closed q = true -> q_parked q = None.
Proof. intros (_ & _ & P) C. destruct (q_parked q) eqn:E; auto. destruct P as [_ X]; congruence. Qed.

Lemma client_closed_released c : reach c -> c_comm c = true ->
  q_parked (c_in c) = None /\ forall n, snd (c_read intended c n) <> RBlock /\ snd (c_read intended c n) <> RBusy.
Proof.
  intros R C. destruct (reach_inv c R) as (I1 & I2 & I3 & I4 & I5). rewrite <- I3 in C.
  pose proof (closed_queue_not_parked _ I1 C) as P. split; auto. intros n. unfold c_read. rewrite P.
  match goal with |- context [if ?b then _ else _] => destruct b end; cbn [snd]; [split; discriminate|].
  split_pair (q_read (c_in c) n) q r. cbn [snd]. split; [apply q_read_closed_no_block, C|].
  unfold q_read. rewrite P. destruct (q_has (c_in c)); [apply q_take_not_block|]. rewrite C. cbn. discriminate.
Qed.

Lemma server_closed_released c : reach c -> live (s_slot c) = false ->
  q_parked (s_in c) = None /\ forall n, snd (s_read intended c n) <> RBlock /\ snd (s_read intended c n) <> RBusy.
Proof.
  intros R L. destruct (reach_inv c R) as (I1 & I2 & I3 & I4 & I5). rewrite L in I4. cbn in I4.
  pose proof (closed_queue_not_parked _ I2 I4) as P. split; auto. intros n. unfold s_read. rewrite P.
  match goal with |- context [if ?b then _ else _] => destruct b end; cbn [snd]; [split; discriminate|].
  split_pair (q_read (s_in c) n) q r. cbn [snd]. split; [apply q_read_closed_no_block, I4|].
  unfold q_read. rewrite P. destruct (q_has (s_in c)); [apply q_take_not_block|]. rewrite I4. cbn. discriminate.
Qed.

Lemma server_closed_flag_not_live c : reach c -> s_closed c = true -> live (s_slot c) = false.
Proof. intros R. destruct (reach_inv c R) as (_ & _ & _ & _ & I5). exact I5. Qed.

(* ---- a session that is no longer live is frozen on the server side: whatever the client or the path does (any shape of the code),
   its in-queue, its closed flag and the fact that it is not live stay as they are; only the application's own Reads touch the queue *)
Definition frozen (c c' : conn) : Prop := live (s_slot c') = false /\ s_in c' = s_in c /\ s_closed c' = s_closed c /\ s_out c' = s_out c.

Lemma frozen_refl c : live (s_slot c) = false -> frozen c c.
Proof. unfold frozen; auto. Qed.

Lemma frozen_trans a b c : frozen a b -> frozen b c -> frozen a c.
Proof. unfold frozen. intros (A1 & A2 & A3 & A4) (B1 & B2 & B3 & B4). repeat split; congruence. Qed.

Lemma srv_close_connection_frozen sh c : live (s_slot c) = false -> srv_close_connection sh c = (c, []).
Proof. unfold srv_close_connection. destruct (s_slot c); cbn; congruence. Qed.

Lemma srv_expire_frozen sh c : live (s_slot c) = false -> srv_expire sh c = (c, []).
Proof. unfold srv_expire. destruct (s_slot c); cbn; congruence. Qed.

Lemma srv_event_frozen sh c e : live (s_slot c) = false -> frozen c (fst (srv_event sh c e)) /\ snd (srv_event sh c e) = [].
Proof.
  intros L. destruct e; cbn [srv_event].
  - rewrite srv_close_connection_frozen by exact L. split; [apply frozen_refl, L|reflexivity].
  - rewrite srv_expire_frozen by exact L. split; [apply frozen_refl, L|reflexivity].
  - cbn [fst snd]. split; [|reflexivity]. unfold srv_forget, frozen. destruct (s_slot c) eqn:S; cbn; rewrite ?S; auto.
Qed.

Lemma validate_not_live sl own : live sl = false -> validate sl own <> None.
Proof. destruct sl, own; cbn; congruence. Qed.

Lemma srv_packet_frozen c own up : live (s_slot c) = false -> exists e, srv_packet c own up = (c, Some e, []).
Proof.
  intros L. unfold srv_packet. pose proof (validate_not_live _ own L) as V.
  destruct (validate (s_slot c) own) as [e|]; [eauto|congruence].
Qed.

Lemma srv_close_request_frozen sh c own : live (s_slot c) = false -> exists e, srv_close_request sh c own = (c, Some e, []).
Proof.
  intros L. unfold srv_close_request. pose proof (validate_not_live _ own L) as V.
  destruct (validate (s_slot c) own) as [e|]; [eauto|congruence].
Qed.

Lemma next_fate_frozen sh fs : forall c acc, live (s_slot c) = false ->
  frozen c (fst (fst (next_fate sh fs c acc))) /\ snd (next_fate sh fs c acc) = acc.
Proof.
  induction fs as [|f r IH]; intros c acc L; cbn [next_fate].
  - cbn [fst snd]. split; [|reflexivity]. unfold frozen; cbn; auto.
  - destruct f; try (cbn [fst snd]; split; [unfold frozen; cbn; auto|reflexivity]).
    destruct (srv_event_frozen sh c e L) as [F O]. destruct (srv_event sh c e) as [c1 o]. cbn [fst snd] in *. subst o.
    destruct (IH c1 (acc ++ []) (proj1 F)) as [F2 O2]. rewrite app_nil_r in *. split; [eapply frozen_trans; eauto|exact O2].
Qed.

Ltac crush_close :=
  repeat match goal with
  | |- context [sh_sc_closes_q ?sh] => destruct (sh_sc_closes_q sh)
  | |- context [sh_sc_closes_out ?sh] => destruct (sh_sc_closes_out sh)
  | |- context [sh_sweep_closes_q ?sh] => destruct (sh_sweep_closes_q sh)
  | |- context [sh_sweep_closes_out ?sh] => destruct (sh_sweep_closes_out sh)
  | |- context [sh_cc_closes_q ?sh] => destruct (sh_cc_closes_q sh)
  | |- context [sh_cc_closes_out ?sh] => destruct (sh_cc_closes_out sh)
  end;
  repeat match goal with
  | |- context [q_close ?x] => destruct (q_close x); cbn [s_in s_out c_in c_out set_sin set_sout set_cin set_cout set_srv]
  | |- context [o_close ?x] => destruct (o_close x); cbn [s_in s_out c_in c_out set_sin set_sout set_cin set_cout set_srv]
  end; cbn; repeat split; auto.

(* what the server-side close / expiry leave alone on the client end, under any shape *)
Lemma srv_close_connection_client sh c : let c' := fst (srv_close_connection sh c) in
  c_comm c' = c_comm c /\ c_hs c' = c_hs c /\ c_in c' = c_in c /\ c_out c' = c_out c.
Proof. unfold srv_close_connection. destruct (s_slot c); [|cbn; repeat split; auto|cbn; repeat split; auto]. crush_close. Qed.
Lemma srv_expire_client sh c : let c' := fst (srv_expire sh c) in
  c_comm c' = c_comm c /\ c_hs c' = c_hs c /\ c_in c' = c_in c /\ c_out c' = c_out c.
Proof. unfold srv_expire. destruct (s_slot c); [|cbn; repeat split; auto|cbn; repeat split; auto]. crush_close. Qed.
Lemma srv_event_client sh c e : let c' := fst (srv_event sh c e) in
  c_comm c' = c_comm c /\ c_hs c' = c_hs c /\ c_in c' = c_in c /\ c_out c' = c_out c.
Proof.
  destruct e; cbn [srv_event]; [apply srv_close_connection_client|apply srv_expire_client|].
  cbn [fst]. unfold srv_forget. destruct (s_slot c); cbn; repeat split; auto.
Qed.

Lemma next_fate_comm sh fs : forall c acc, c_comm (fst (fst (next_fate sh fs c acc))) = c_comm c /\ c_hs (fst (fst (next_fate sh fs c acc))) = c_hs c.
Proof.
  induction fs as [|f r IH]; intros c acc; cbn [next_fate]; [cbn; auto|].
  destruct f; try (cbn; auto; fail).
  pose proof (srv_event_client sh c e) as (E1 & E2 & _). destruct (srv_event sh c e) as [c1 o]. cbn [fst] in E1, E2.
  destruct (IH c1 (acc ++ o)) as [A B]. rewrite A, B. auto.
Qed.

Lemma mk_err_fields sh c e : let c' := fst (mk_err sh c e) in
  c_comm c' = c_comm c /\ c_hs c' = c_hs c /\ s_in c' = s_in c /\ s_slot c' = s_slot c /\ s_closed c' = s_closed c /\ c_in c' = c_in c /\ c_fates c' = c_fates c /\
  s_out c' = s_out c /\ c_out c' = c_out c.
Proof. unfold mk_err. destruct e; match goal with |- context [if ?b then _ else _] => destruct b end; cbn; repeat split; reflexivity. Qed.

Lemma srv_packet_comm c own up : c_comm (fst (fst (srv_packet c own up))) = c_comm c /\ c_hs (fst (fst (srv_packet c own up))) = c_hs c.
Proof.
  unfold srv_packet. destruct (validate (s_slot c) own); [cbn; auto|]. destruct up as [d|]; [|cbn; auto].
  destruct (q_append (s_in c) d). cbn. auto.
Qed.

Lemma sar_comm sh tries : forall c up, c_comm (fst (fst (sar sh tries c up))) = c_comm c /\ c_hs (fst (fst (sar sh tries c up))) = c_hs c.
Proof.
  induction tries as [|t IH]; intros c up; cbn [sar].
  - pose proof (mk_err_fields sh c ETimeout) as M. destruct (mk_err sh c ETimeout). cbn in *. tauto.
  - pose proof (next_fate_comm sh (c_fates c) c []) as [N1 N2].
    destruct (next_fate sh (c_fates c) c []) as [[c1 f] o1]. cbn [fst] in N1, N2. rewrite <- N1, <- N2.
    destruct f.
    + pose proof (srv_packet_comm c1 true up) as [P1 P2]. destruct (srv_packet c1 true up) as [[c2 e] o2]. cbn [fst] in P1, P2.
      rewrite <- P1, <- P2. destruct e as [e|].
      * pose proof (mk_err_fields sh c2 e) as M. destruct (mk_err sh c2 e). cbn in *. tauto.
      * destruct (nonempty down); [|cbn; auto]. destruct (q_append (c_in c2) down). cbn. auto.
    + specialize (IH c1 up). destruct (sar sh t c1 up) as [[c2 r] o2]. exact IH.
    + cbn. auto.
    + pose proof (srv_packet_comm c1 false up) as [P1 P2]. destruct (srv_packet c1 false up) as [[c2 e] o2]. cbn [fst] in P1, P2.
      rewrite <- P1, <- P2. destruct e as [e|]; [|cbn; auto].
      pose proof (mk_err_fields sh c2 e) as M. destruct (mk_err sh c2 e). cbn in *. tauto.
    + cbn. auto.
Qed.

Lemma cli_close_comm sh c : c_comm (fst (cli_close sh c)) = true.
Proof.
  unfold cli_close. destruct (cli_close_net sh c) as [c1 o1]. crush_close.
Qed.

(* closed stays closed *)
Lemma step_comm_stable sh c o : c_comm c = true -> c_comm (fst (step sh c o)) = true.
Proof.
  intros C. destruct o; cbn [step].
  - destruct (q_append (c_in c) d). exact C.
  - pose proof (srv_packet_comm c true (Some d)) as [P _]. destruct (srv_packet c true (Some d)) as [[c1 e] os]. cbn [fst] in *. congruence.
  - unfold c_read. destruct (q_parked (c_in c)); [exact C|].
    match goal with |- context [if ?b then _ else _] => destruct b end; [exact C|]. destruct (q_read (c_in c) n). exact C.
  - unfold s_read. destruct (q_parked (s_in c)); [exact C|].
    match goal with |- context [if ?b then _ else _] => destruct b end; [exact C|]. destruct (q_read (s_in c) n). exact C.
  - pose proof (cli_close_comm sh c) as T. destruct (cli_close sh c). exact T.
  - pose proof (srv_close_connection_client sh c) as (T & _). destruct (srv_close_connection sh c). cbn [fst] in *. congruence.
  - unfold srv_close_request. destruct (validate (s_slot c) true); [exact C|].
    pose proof (srv_close_connection_client sh c) as (T & _). destruct (srv_close_connection sh c). cbn [fst] in *. congruence.
  - pose proof (srv_expire_client sh c) as (T & _). destruct (srv_expire sh c). cbn [fst] in *. congruence.
  - cbn [fst]. unfold srv_forget. destruct (s_slot c); exact C.
  - exact C.
  - unfold s_write. destruct (o_parked (s_out c)); [exact C|]. destruct (s_closed c); [exact C|]. destruct (o_write (s_out c) d None). exact C.
  - exact C.
  - unfold srv_ack. destruct (validate (s_slot c) true); [exact C|]. destruct (o_ack (s_out c)). exact C.
  - destruct (o_write (c_out c) d (Some sent)). exact C.
  - destruct (o_ack (c_out c)). exact C.
  - unfold cli_poll. rewrite C. exact C.
Qed.

Lemma run_comm_stable sh ops : forall c, c_comm c = true -> c_comm (fst (run sh c ops)) = true.
Proof.
  induction ops as [|o r IH]; intros c C; cbn [run fst]; auto.
  pose proof (step_comm_stable sh c o C) as T. destruct (step sh c o) as [c1 o1]. cbn [fst] in T.
  specialize (IH c1 T). destruct (run sh c1 r). exact IH.
Qed.

Lemma frozen_set_client c c' : s_in c' = s_in c -> s_slot c' = s_slot c -> s_closed c' = s_closed c -> s_out c' = s_out c -> live (s_slot c) = false -> frozen c c'.
Proof. unfold frozen. intros A B C D L. rewrite B. auto. Qed.

Lemma sar_frozen sh tries : forall c up, live (s_slot c) = false ->
  frozen c (fst (fst (sar sh tries c up))) /\ (forall r, ~ In (OWoke false r) (snd (sar sh tries c up))).
Proof.
  induction tries as [|t IH]; intros c up L; cbn [sar].
  - pose proof (mk_err_fields sh c ETimeout) as M. destruct (mk_err sh c ETimeout) as [c1 e]. cbn [fst snd] in *.
    split; [apply frozen_set_client; tauto|intros r []].
  - destruct (next_fate_frozen sh (c_fates c) c [] L) as [F O].
    destruct (next_fate sh (c_fates c) c []) as [[c1 f] o1]. cbn [fst snd] in F, O. subst o1.
    pose proof (proj1 F) as L1.
    destruct f.
    + destruct (srv_packet_frozen c1 true up L1) as [e E]. rewrite E.
      pose proof (mk_err_fields sh c1 e) as M. destruct (mk_err sh c1 e) as [c3 e']. cbn [fst snd] in *.
      split; [eapply frozen_trans; [exact F|apply frozen_set_client; tauto]|intros r []].
    + destruct (IH c1 up L1) as [F2 W]. destruct (sar sh t c1 up) as [[c2 r] o2]. cbn [fst snd] in *.
      split; [eapply frozen_trans; eauto|exact W].
    + cbn [fst snd]. split; [eapply frozen_trans; [exact F|apply frozen_set_client; auto]|intros r []].
    + destruct (srv_packet_frozen c1 false up L1) as [e E]. rewrite E.
      pose proof (mk_err_fields sh c1 e) as M. destruct (mk_err sh c1 e) as [c3 e']. cbn [fst snd] in *.
      split; [eapply frozen_trans; [exact F|apply frozen_set_client; tauto]|intros r []].
    + cbn [fst snd]. split; [exact F|intros r []].
Qed.

Lemma woke_client_not_server b w r : In (OWoke b r) (woke (negb b) w) -> False.
Proof. destruct w; cbn; [intros [H|[]]; inversion H; destruct b; discriminate|tauto]. Qed.

Lemma cli_close_net_frozen sh c : live (s_slot c) = false ->
  frozen c (fst (cli_close_net sh c)) /\ (forall r, ~ In (OWoke false r) (snd (cli_close_net sh c))).
Proof.
  intros L. unfold cli_close_net.
  destruct (negb (c_comm c) && c_hs c); [|cbn [fst snd]; split; [apply frozen_refl, L|intros r []]].
  destruct (sar_frozen sh sar_tries c None L) as [Fa Wa].
  destruct (sar sh sar_tries c None) as [[ca ra] oa]. cbn [fst snd] in Fa, Wa.
  destruct (next_fate_frozen sh (c_fates ca) ca [] (proj1 Fa)) as [Fb Ob].
  destruct (next_fate sh (c_fates ca) ca []) as [[cb f] ob]. cbn [fst snd] in Fb, Ob. subst ob.
  pose proof (frozen_trans _ _ _ Fa Fb) as Fab.
  assert (forall own, (let '(c3, _, o3) := srv_close_request sh cb own in (c3, o3)) = (cb, [])) as CR.
  { intros own. destruct (srv_close_request_frozen sh cb own (proj1 Fb)) as [e Ee]. rewrite Ee. reflexivity. }
  destruct f; try (cbn [fst snd]; split; [exact Fab|intros r; rewrite !app_nil_r; apply Wa]; fail).
  - rewrite (CR true). cbn [fst snd]. split; [exact Fab|intros r; rewrite !app_nil_r; apply Wa].
  - rewrite (CR false). cbn [fst snd]. split; [exact Fab|intros r; rewrite !app_nil_r; apply Wa].
Qed.

Lemma cli_close_frozen sh c : live (s_slot c) = false ->
  frozen c (fst (cli_close sh c)) /\ (forall r, ~ In (OWoke false r) (snd (cli_close sh c))).
Proof.
  intros L. unfold cli_close. destruct (cli_close_net_frozen sh c L) as [F1 W1].
  destruct (cli_close_net sh c) as [c1 o1]. cbn [fst snd] in F1, W1.
  assert (NW : forall (w : option wout) r, ~ In (OWoke false r) (wwoke true w)) by (intros [w|] r; cbn; [intros [H|[]]; discriminate|tauto]).
  destruct (sh_cc_closes_q sh); [destruct (q_close (c_in c1)) as [q w]|]; (destruct (sh_cc_closes_out sh); [cbn [c_out set_cin]; destruct (o_close (c_out c1)) as [oo wo]|]); cbn [fst snd]; (split;
    [eapply frozen_trans; [exact F1|]; apply frozen_set_client; cbn; auto; exact (proj1 F1)
    |intros r H; repeat (apply in_app_or in H; destruct H as [H|H]); try exact (W1 r H); try exact (woke_client_not_server false _ r H); try exact (NW _ r H); try destruct H]).
Qed.

Lemma cli_poll_frozen sh c up : live (s_slot c) = false ->
  frozen c (fst (cli_poll sh c up)) /\ (forall r, ~ In (OWoke false r) (snd (cli_poll sh c up))).
Proof.
  intros L. unfold cli_poll. destruct (c_comm c || negb (c_hs c)); [cbn [fst snd]; split; [apply frozen_refl, L|intros r []]|].
  destruct (sar_frozen sh sar_tries c up L) as [F W].
  destruct (sar sh sar_tries c up) as [[c1 r] o1]. cbn [fst snd] in F, W.
  destruct (poll_react (c_cnt c1) (c_last c1) r) as [[cnt last] cl].
  assert (F2 : frozen c (set_poll c1 cnt last)).
  { eapply frozen_trans; [exact F|]. apply frozen_set_client; cbn; auto. exact (proj1 F). }
  destruct cl.
  - destruct (cli_close_frozen sh (set_poll c1 cnt last) (proj1 F2)) as [F3 W3].
    destruct (cli_close sh (set_poll c1 cnt last)) as [c3 o3]. cbn [fst snd] in *.
    split; [eapply frozen_trans; eauto|]. intros r0 H. apply in_app_or in H. destruct H as [H|H]; [exact (W r0 H)|exact (W3 r0 H)].
  - cbn [fst snd]. split; [exact F2|exact W].
Qed.

(* ---- draining: on a closed end, reads of n > 0 octets return the buffered octets in pieces of n, then end-of-stream:
   ceil(buffered / n) + 1 reads in all *)
Lemma set_cin_same c : set_cin c (c_in c) = c.
Proof. destruct c; reflexivity. Qed.
Lemma set_sin_same c : set_sin c (s_in c) = c.
Proof. destruct c; reflexivity. Qed.

Lemma c_read_closed_eq c n : conn_inv c -> c_comm c = true ->
  c_read intended c n = (set_cin c (fst (q_read (c_in c) n)), snd (q_read (c_in c) n)).
Proof.
  intros (I1 & I2 & I3 & I4 & I5) C. rewrite <- I3 in C. pose proof (closed_queue_not_parked _ I1 C) as P.
  unfold c_read. rewrite P. rewrite <- I3, C. cbn [sh_c_eof_drained intended andb].
  destruct (q_has (c_in c)) eqn:H; cbn [negb].
  - destruct (q_read (c_in c) n); reflexivity.
  - unfold q_read. rewrite P, H, C. cbn [fst snd]. rewrite set_cin_same. reflexivity.
Qed.

Lemma s_read_closed_eq c n : conn_inv c -> live (s_slot c) = false ->
  s_read intended c n = (set_sin c (fst (q_read (s_in c) n)), snd (q_read (s_in c) n)).
Proof.
  intros (I1 & I2 & I3 & I4 & I5) L. rewrite L in I4. cbn in I4. pose proof (closed_queue_not_parked _ I2 I4) as P.
  unfold s_read. rewrite P. cbn [sh_s_eof_drained intended].
  destruct (s_closed c && negb (q_has (s_in c))) eqn:E.
  - apply andb_prop in E. destruct E as [_ E]. apply negb_true_iff in E.
    unfold q_read. rewrite P, E, I4. cbn [fst snd]. rewrite set_sin_same. reflexivity.
  - destruct (q_read (s_in c) n); reflexivity.
Qed.

Lemma c_reads_closed_eq k : forall c n, conn_inv c -> c_comm c = true ->
  c_reads intended c n k = (set_cin c (fst (q_reads (c_in c) n k)), snd (q_reads (c_in c) n k)).
Proof.
  induction k as [|k IH]; intros c n I C; cbn [c_reads q_reads].
  - cbn [fst snd]. rewrite set_cin_same. reflexivity.
  - rewrite (c_read_closed_eq c n I C).
    assert (I' : conn_inv (set_cin c (fst (q_read (c_in c) n)))).
    { pose proof (c_read_inv c n I) as T. rewrite (c_read_closed_eq c n I C) in T. exact T. }
    rewrite (IH _ n I' C). cbn [c_in set_cin].
    destruct (q_read (c_in c) n) as [q1 r]. cbn [fst snd]. destruct (q_reads q1 n k) as [q2 rs]. cbn [fst snd].
    destruct c; reflexivity.
Qed.

Lemma s_reads_closed_eq k : forall c n, conn_inv c -> live (s_slot c) = false ->
  s_reads intended c n k = (set_sin c (fst (q_reads (s_in c) n k)), snd (q_reads (s_in c) n k)).
Proof.
  induction k as [|k IH]; intros c n I L; cbn [s_reads q_reads].
  - cbn [fst snd]. rewrite set_sin_same. reflexivity.
  - rewrite (s_read_closed_eq c n I L).
    assert (I' : conn_inv (set_sin c (fst (q_read (s_in c) n)))).
    { pose proof (s_read_inv c n I) as T. rewrite (s_read_closed_eq c n I L) in T. exact T. }
    rewrite (IH _ n I' L). cbn [s_in set_sin].
    destruct (q_read (s_in c) n) as [q1 r]. cbn [fst snd]. destruct (q_reads q1 n k) as [q2 rs]. cbn [fst snd].
    destruct c; reflexivity.
Qed.

Lemma client_drain c n : reach c -> c_comm c = true -> 0 < n ->
  let buf := q_buf (c_in c) in
  let pieces := chunks (List.length buf) n buf in
  List.length pieces = ceil_div (List.length buf) n /\ List.concat pieces = buf /\ (forall p, In p pieces -> p <> []) /\
  snd (c_reads intended c n (ceil_div (List.length buf) n + 1)) = List.map RBytes pieces ++ [REof] /\
  q_ret (c_in (fst (c_reads intended c n (ceil_div (List.length buf) n + 1)))) = q_app (c_in c).
Proof.
  intros R C Hn buf pieces. pose proof (reach_inv c R) as I. pose proof I as (I1 & I2 & I3 & I4 & I5).
  assert (L : List.length pieces = ceil_div (List.length buf) n) by (apply chunks_length; auto).
  split; [exact L|]. split; [apply chunks_concat; auto|]. split; [intros p; apply chunks_nonempty; auto|].
  rewrite (c_reads_closed_eq _ c n I C). cbn [fst snd c_in set_cin].
  rewrite <- I3 in C. destruct (q_reads_drain (List.length buf) (c_in c) n I1 C Hn (le_n _)) as (q' & E & B & Rq & _).
  fold buf in E. fold pieces in E. rewrite L in E. rewrite E. cbn [fst snd]. split; [reflexivity|exact Rq].
Qed.

Lemma server_drain c n : reach c -> live (s_slot c) = false -> 0 < n ->
  let buf := q_buf (s_in c) in
  let pieces := chunks (List.length buf) n buf in
  List.length pieces = ceil_div (List.length buf) n /\ List.concat pieces = buf /\ (forall p, In p pieces -> p <> []) /\
  snd (s_reads intended c n (ceil_div (List.length buf) n + 1)) = List.map RBytes pieces ++ [REof] /\
  q_ret (s_in (fst (s_reads intended c n (ceil_div (List.length buf) n + 1)))) = q_app (s_in c).
Proof.
  intros R Lv Hn buf pieces. pose proof (reach_inv c R) as I. pose proof I as (I1 & I2 & I3 & I4 & I5).
  assert (L : List.length pieces = ceil_div (List.length buf) n) by (apply chunks_length; auto).
  split; [exact L|]. split; [apply chunks_concat; auto|]. split; [intros p; apply chunks_nonempty; auto|].
  rewrite (s_reads_closed_eq _ c n I Lv). cbn [fst snd s_in set_sin].
  rewrite Lv in I4. cbn in I4. destruct (q_reads_drain (List.length buf) (s_in c) n I2 I4 Hn (le_n _)) as (q' & E & B & Rq & _).
  fold buf in E. fold pieces in E. rewrite L in E. rewrite E. cbn [fst snd]. split; [reflexivity|exact Rq].
Qed.

(* ---- a parked reader that is released with end-of-stream: at the end of the operation that released it, its end is closed and
   everything ever appended to it has been returned *)
Definition srv_done (c : conn) : Prop := live (s_slot c) = false /\ q_ret (s_in c) = q_app (s_in c).
Definition cli_done (c : conn) : Prop := c_comm c = true /\ q_ret (c_in c) = q_app (c_in c).

Lemma srv_done_frozen c c' : srv_done c -> frozen c c' -> srv_done c'.
Proof. unfold srv_done, frozen. intros (A & B) (C & D & E). rewrite D. auto. Qed.

Lemma in_woke b r w b' : In (OWoke b r) (woke b' w) -> b = b' /\ w = Some r.
Proof. destruct w; cbn; [intros [H|[]]; inversion H; auto|tauto]. Qed.

Lemma in_wwoke_not_woke b r b' w : In (OWoke b r) (wwoke b' w) -> False.
Proof. destruct w; cbn; [intros [H|[]]; discriminate|tauto]. Qed.

Lemma srv_close_connection_eof c : conn_inv c -> In (OWoke false REof) (snd (srv_close_connection intended c)) ->
  srv_done (fst (srv_close_connection intended c)).
Proof.
  intros (I1 & I2 & I3 & I4 & I5). destruct (slot_live_dec (s_slot c)) as [S|S]; [|rewrite srv_close_connection_not_live by exact S; cbn; tauto].
  rewrite (srv_close_connection_live c S). cbn [fst snd]. intros H. apply in_app_or in H. destruct H as [H|H]; [|destruct (in_wwoke_not_woke _ _ _ _ H)].
  apply in_woke in H. destruct H as [_ H]. split; [reflexivity|]. cbn [s_in set_sin set_sout]. apply q_close_eof; [exact I2|exact H].
Qed.

Lemma srv_expire_eof c : conn_inv c -> In (OWoke false REof) (snd (srv_expire intended c)) -> srv_done (fst (srv_expire intended c)).
Proof.
  intros (I1 & I2 & I3 & I4 & I5). destruct (slot_live_dec (s_slot c)) as [S|S]; [|rewrite srv_expire_not_live by exact S; cbn; tauto].
  rewrite (srv_expire_live c S). cbn [fst snd]. intros H. apply in_app_or in H. destruct H as [H|H]; [|destruct (in_wwoke_not_woke _ _ _ _ H)].
  apply in_woke in H. destruct H as [_ H]. split; [reflexivity|]. cbn [s_in set_sin set_sout]. apply q_close_eof; [exact I2|exact H].
Qed.

Lemma srv_event_eof c e : conn_inv c -> In (OWoke false REof) (snd (srv_event intended c e)) -> srv_done (fst (srv_event intended c e)).
Proof. intros I. destruct e; cbn [srv_event fst snd]; [apply srv_close_connection_eof, I|apply srv_expire_eof, I|cbn; tauto]. Qed.

Lemma srv_packet_no_eof c own up b : ~ In (OWoke b REof) (snd (srv_packet c own up)).
Proof.
  unfold srv_packet. destruct (validate (s_slot c) own); [cbn; tauto|]. destruct up as [d|]; [|cbn; tauto].
  pose proof (q_append_wakes_with_data (s_in c) d) as N. destruct (q_append (s_in c) d) as [q w]. cbn [snd] in *.
  intros H. apply in_woke in H. destruct H as [_ H]. congruence.
Qed.

Lemma srv_packet_no_client_wake c own up r : ~ In (OWoke true r) (snd (srv_packet c own up)).
Proof.
  unfold srv_packet. destruct (validate (s_slot c) own); [cbn; tauto|]. destruct up as [d|]; [|cbn; tauto].
  destruct (q_append (s_in c) d) as [q w]. cbn [snd]. intros H. apply in_woke in H. destruct H; discriminate.
Qed.

Lemma srv_close_connection_no_client_wake sh c r : ~ In (OWoke true r) (snd (srv_close_connection sh c)).
Proof.
  unfold srv_close_connection. destruct (s_slot c); cbn [snd]; try tauto.
  destruct (sh_sc_closes_q sh); [destruct (q_close (s_in (set_srv c true Retired))) as [q w]|];
  (destruct (sh_sc_closes_out sh); [match goal with |- context [o_close ?x] => destruct (o_close x) as [oo wo] end|]); cbn [snd];
  intros H; repeat (apply in_app_or in H; destruct H as [H|H]); try (apply in_woke in H; destruct H; discriminate);
  try (destruct (in_wwoke_not_woke _ _ _ _ H)); try destruct H.
Qed.

Lemma srv_event_no_client_wake sh c e r : ~ In (OWoke true r) (snd (srv_event sh c e)).
Proof.
  destruct e; cbn [srv_event snd]; [apply srv_close_connection_no_client_wake| |tauto].
  unfold srv_expire. destruct (s_slot c); cbn [snd]; try tauto.
  destruct (sh_sweep_closes_q sh); [destruct (q_close (s_in (set_srv c (s_closed c) Retired))) as [q w]|];
  (destruct (sh_sweep_closes_out sh); [match goal with |- context [o_close ?x] => destruct (o_close x) as [oo wo] end|]); cbn [snd];
  intros H; repeat (apply in_app_or in H; destruct H as [H|H]); try (apply in_woke in H; destruct H; discriminate);
  try (destruct (in_wwoke_not_woke _ _ _ _ H)); try destruct H.
Qed.

Lemma srv_close_request_eof c own : conn_inv c -> In (OWoke false REof) (snd (srv_close_request intended c own)) ->
  srv_done (fst (fst (srv_close_request intended c own))).
Proof.
  intros I. unfold srv_close_request. destruct (validate (s_slot c) own); [cbn; tauto|].
  pose proof (srv_close_connection_eof c I) as T. destruct (srv_close_connection intended c) as [c1 o]. exact T.
Qed.

Lemma srv_close_request_no_client_wake sh c own r : ~ In (OWoke true r) (snd (srv_close_request sh c own)).
Proof.
  unfold srv_close_request. destruct (validate (s_slot c) own); [cbn; tauto|].
  pose proof (srv_close_connection_no_client_wake sh c r) as T. destruct (srv_close_connection sh c) as [c1 o]. exact T.
Qed.

Lemma next_fate_eof fs : forall c acc, conn_inv c -> In (OWoke false REof) (snd (next_fate intended fs c acc)) ->
  In (OWoke false REof) acc \/ srv_done (fst (fst (next_fate intended fs c acc))).
Proof.
  induction fs as [|f r IH]; intros c acc I; cbn [next_fate]; [cbn; auto|].
  destruct f; try (cbn; auto; fail).
  pose proof (srv_event_eof c e I) as Ev. pose proof (srv_event_inv c e I) as I1.
  destruct (srv_event intended c e) as [c1 o]. cbn [fst snd] in Ev, I1. intros H.
  destruct (IH c1 (acc ++ o) I1 H) as [H1|H1]; [|auto].
  apply in_app_or in H1. destruct H1 as [H1|H1]; [auto|]. right.
  specialize (Ev H1). eapply srv_done_frozen; [exact Ev|]. apply next_fate_frozen. exact (proj1 Ev).
Qed.

Lemma next_fate_no_client_wake sh fs : forall c acc r, In (OWoke true r) (snd (next_fate sh fs c acc)) -> In (OWoke true r) acc.
Proof.
  induction fs as [|f rest IH]; intros c acc r; cbn [next_fate]; [cbn; auto|].
  destruct f; try (cbn; auto; fail).
  pose proof (srv_event_no_client_wake sh c e r) as N. destruct (srv_event sh c e) as [c1 o]. cbn [snd] in N.
  intros H. apply IH in H. apply in_app_or in H. tauto.
Qed.

Lemma sar_eof tries : forall c up, conn_inv c ->
  ~ In (OWoke true REof) (snd (sar intended tries c up)) /\
  (In (OWoke false REof) (snd (sar intended tries c up)) -> srv_done (fst (fst (sar intended tries c up)))).
Proof.
  induction tries as [|t IH]; intros c up I; cbn [sar].
  - rewrite mk_err_intended. cbn. tauto.
  - pose proof (next_fate_eof (c_fates c) c [] I) as NE. pose proof (next_fate_inv (c_fates c) c [] I) as I1.
    pose proof (next_fate_no_client_wake intended (c_fates c) c [] REof) as NC.
    destruct (next_fate intended (c_fates c) c []) as [[c1 f] o1]. cbn [fst snd] in NE, I1, NC.
    assert (NE' : In (OWoke false REof) o1 -> srv_done c1) by (intros H; destruct (NE H) as [[]|]; auto).
    assert (NC' : ~ In (OWoke true REof) o1) by (intros H; exact (NC H)).
    (* once the server side is done, the rest of the exchange leaves it as it is *)
    destruct f.
    + pose proof (srv_packet_no_eof c1 true up) as PE. pose proof (srv_packet_inv c1 true up I1) as I2.
      destruct (srv_packet c1 true up) as [[c2 e] o2] eqn:E2. cbn [fst snd] in PE, I2.
      assert (D2 : In (OWoke false REof) o1 -> srv_done c2).
      { intros H. specialize (NE' H). destruct (srv_packet_frozen c1 true up (proj1 NE')) as [e0 E0]. rewrite E0 in E2. inversion E2; subst. exact NE'. }
      destruct e as [e|].
      * rewrite mk_err_intended. cbn [fst snd]. split.
        -- intros H. apply in_app_or in H. destruct H as [H|H]; [exact (NC' H)|exact (PE true H)].
        -- intros H. apply in_app_or in H. destruct H as [H|H]; [exact (D2 H)|destruct (PE false H)].
      * destruct (nonempty down).
        -- pose proof (q_append_wakes_with_data (c_in c2) down) as QA. destruct (q_append (c_in c2) down) as [q w]. cbn [fst snd] in *. split.
           ++ intros H. apply in_app_or in H. destruct H as [H|H]; [exact (NC' H)|]. apply in_app_or in H. destruct H as [H|H]; [exact (PE true H)|].
              apply in_woke in H. destruct H as [_ H]. congruence.
           ++ intros H. apply in_app_or in H. destruct H as [H|H].
              ** specialize (D2 H). unfold srv_done in *. cbn. exact D2.
              ** apply in_app_or in H. destruct H as [H|H]; [destruct (PE false H)|]. apply in_woke in H. destruct H; discriminate.
        -- cbn [fst snd]. split.
           ++ intros H. apply in_app_or in H. destruct H as [H|H]; [exact (NC' H)|exact (PE true H)].
           ++ intros H. apply in_app_or in H. destruct H as [H|H]; [exact (D2 H)|destruct (PE false H)].
    + destruct (IH c1 up I1) as [A B]. pose proof (fun L => sar_frozen intended t c1 up L) as FZ.
      destruct (sar intended t c1 up) as [[c2 r] o2]. cbn [fst snd] in *. split.
      * intros H. apply in_app_or in H. destruct H as [H|H]; [exact (NC' H)|exact (A H)].
      * intros H. apply in_app_or in H. destruct H as [H|H]; [|exact (B H)].
        specialize (NE' H). eapply srv_done_frozen; [exact NE'|]. apply FZ. exact (proj1 NE').
    + cbn [fst snd]. split; [exact NC'|]. intros H. specialize (NE' H). unfold srv_done in *. cbn. exact NE'.
    + pose proof (srv_packet_no_eof c1 false up) as PE.
      destruct (srv_packet c1 false up) as [[c2 e] o2] eqn:E2. cbn [fst snd] in PE.
      assert (D2 : In (OWoke false REof) o1 -> srv_done c2).
      { intros H. specialize (NE' H). destruct (srv_packet_frozen c1 false up (proj1 NE')) as [e0 E0]. rewrite E0 in E2. inversion E2; subst. exact NE'. }
      destruct e as [e|]; [rewrite mk_err_intended|]; cbn [fst snd]; split.
      * intros H. apply in_app_or in H. destruct H as [H|H]; [exact (NC' H)|exact (PE true H)].
      * intros H. apply in_app_or in H. destruct H as [H|H]; [exact (D2 H)|destruct (PE false H)].
      * intros H. apply in_app_or in H. destruct H as [H|H]; [exact (NC' H)|exact (PE true H)].
      * intros H. apply in_app_or in H. destruct H as [H|H]; [exact (D2 H)|destruct (PE false H)].
    + cbn [fst snd]. split; [exact NC'|exact NE'].
Qed.

Lemma cli_close_net_eof c : conn_inv c ->
  ~ In (OWoke true REof) (snd (cli_close_net intended c)) /\
  (In (OWoke false REof) (snd (cli_close_net intended c)) -> srv_done (fst (cli_close_net intended c))).
Proof.
  intros I. unfold cli_close_net. destruct (negb (c_comm c) && c_hs c); [|cbn; tauto].
  destruct (sar_eof sar_tries c None I) as [Sa Sb]. pose proof (sar_inv sar_tries c None I) as Ia.
  destruct (sar intended sar_tries c None) as [[ca ra] oa]. cbn [fst snd] in Sa, Sb, Ia.
  pose proof (next_fate_eof (c_fates ca) ca [] Ia) as NE. pose proof (next_fate_inv (c_fates ca) ca [] Ia) as Ib.
  pose proof (next_fate_no_client_wake intended (c_fates ca) ca [] REof) as NC.
  pose proof (fun L => next_fate_frozen intended (c_fates ca) ca [] L) as NF.
  destruct (next_fate intended (c_fates ca) ca []) as [[cb f] ob]. cbn [fst snd] in NE, Ib, NC, NF.
  assert (Db : In (OWoke false REof) (oa ++ ob) -> srv_done cb).
  { intros H. apply in_app_or in H. destruct H as [H|H].
    - specialize (Sb H). eapply srv_done_frozen; [exact Sb|]. apply NF. exact (proj1 Sb).
    - destruct (NE H) as [[]|]; auto. }
  assert (Nb : ~ In (OWoke true REof) (oa ++ ob)).
  { intros H. apply in_app_or in H. destruct H as [H|H]; [exact (Sa H)|exact (NC H)]. }
  assert (CR : forall own, let '(c3, _, o3) := srv_close_request intended cb own in
            ~ In (OWoke true REof) (oa ++ ob ++ o3) /\ (In (OWoke false REof) (oa ++ ob ++ o3) -> srv_done c3)).
  { intros own. pose proof (srv_close_request_eof cb own Ib) as E1. pose proof (srv_close_request_no_client_wake intended cb own REof) as E2.
    pose proof (fun L => srv_close_request_frozen intended cb own L) as E3.
    destruct (srv_close_request intended cb own) as [[c3 e3] o3] eqn:E. cbn [fst snd] in *. split.
    - intros H. rewrite app_assoc in H. apply in_app_or in H. destruct H as [H|H]; [exact (Nb H)|exact (E2 H)].
    - intros H. rewrite app_assoc in H. apply in_app_or in H. destruct H as [H|H]; [|exact (E1 H)].
      specialize (Db H). destruct (E3 (proj1 Db)) as [e0 E0]. inversion E0; subst. exact Db. }
  destruct f; try (cbn [fst snd]; rewrite app_nil_r; split; [exact Nb|exact Db]; fail).
  - specialize (CR true). destruct (srv_close_request intended cb true) as [[c3 e3] o3]. exact CR.
  - specialize (CR false). destruct (srv_close_request intended cb false) as [[c3 e3] o3]. exact CR.
Qed.

Lemma cli_close_eof c : conn_inv c ->
  (In (OWoke true REof) (snd (cli_close intended c)) -> cli_done (fst (cli_close intended c))) /\
  (In (OWoke false REof) (snd (cli_close intended c)) -> srv_done (fst (cli_close intended c))).
Proof.
  intros I. rewrite cli_close_eq. cbn zeta. destruct (cli_close_net_eof c I) as [A B]. pose proof (cli_close_net_inv c I) as I1.
  destruct (cli_close_net intended c) as [c1 o1]. cbn [fst snd] in *. split.
  - intros H. apply in_app_or in H. destruct H as [H|H]; [destruct (A H)|]. apply in_app_or in H. destruct H as [H|H]; [|destruct (in_wwoke_not_woke _ _ _ _ H)].
    apply in_woke in H. destruct H as [_ H]. split; [reflexivity|]. cbn. apply q_close_eof; [exact (proj1 I1)|exact H].
  - intros H. apply in_app_or in H. destruct H as [H|H].
    + specialize (B H). unfold srv_done in *. cbn. exact B.
    + apply in_app_or in H. destruct H as [H|H]; [apply in_woke in H; destruct H; discriminate|destruct (in_wwoke_not_woke _ _ _ _ H)].
Qed.

Lemma cli_poll_eof c up : conn_inv c ->
  (In (OWoke true REof) (snd (cli_poll intended c up)) -> cli_done (fst (cli_poll intended c up))) /\
  (In (OWoke false REof) (snd (cli_poll intended c up)) -> srv_done (fst (cli_poll intended c up))).
Proof.
  intros I. unfold cli_poll. destruct (c_comm c || negb (c_hs c)); [cbn; tauto|].
  destruct (sar_eof sar_tries c up I) as [Sa Sb]. pose proof (sar_inv sar_tries c up I) as I1.
  destruct (sar intended sar_tries c up) as [[c1 r] o1]. cbn [fst snd] in Sa, Sb, I1.
  destruct (poll_react (c_cnt c1) (c_last c1) r) as [[cnt last] cl].
  destruct cl.
  - pose proof (set_poll_inv c1 cnt last I1) as I2. destruct (cli_close_eof _ I2) as [A B].
    pose proof (fun L => cli_close_frozen intended (set_poll c1 cnt last) L) as FZ.
    destruct (cli_close intended (set_poll c1 cnt last)) as [c3 o3]. cbn [fst snd] in *. split.
    + intros H. apply in_app_or in H. destruct H as [H|H]; [destruct (Sa H)|exact (A H)].
    + intros H. apply in_app_or in H. destruct H as [H|H]; [|exact (B H)].
      specialize (Sb H). assert (D : srv_done (set_poll c1 cnt last)) by (unfold srv_done in *; cbn; exact Sb).
      eapply srv_done_frozen; [exact D|]. apply FZ. exact (proj1 D).
  - cbn [fst snd]. split; [intros H; destruct (Sa H)|]. intros H. specialize (Sb H). unfold srv_done in *. cbn. exact Sb.
Qed.

Lemma step_released_eof c o : reach c ->
  (In (OWoke true REof) (snd (step intended c o)) -> cli_done (fst (step intended c o))) /\
  (In (OWoke false REof) (snd (step intended c o)) -> srv_done (fst (step intended c o))).
Proof.
  intros R. pose proof (reach_inv c R) as I. destruct o; cbn [step].
  - pose proof (q_append_wakes_with_data (c_in c) d) as N. destruct (q_append (c_in c) d) as [q w]. cbn [fst snd] in *. split.
    + intros [H|H]; [discriminate|]. apply in_woke in H. destruct H as [_ H]. congruence.
    + intros [H|H]; [discriminate|]. apply in_woke in H. destruct H; discriminate.
  - pose proof (srv_packet_no_eof c true (Some d)) as N. destruct (srv_packet c true (Some d)) as [[c1 e] os]. cbn [fst snd] in *. split.
    + intros [H|H]; [discriminate|destruct (N true H)].
    + intros [H|H]; [discriminate|destruct (N false H)].
  - destruct (c_read intended c n) as [c1 r]. cbn [fst snd]. split; intros [H|[]]; discriminate.
  - destruct (s_read intended c n) as [c1 r]. cbn [fst snd]. split; intros [H|[]]; discriminate.
  - destruct (cli_close_eof c I) as [A B]. destruct (cli_close intended c) as [c1 os]. cbn [fst snd] in *. split.
    + intros [H|H]; [discriminate|exact (A H)].
    + intros [H|H]; [discriminate|exact (B H)].
  - pose proof (srv_close_connection_eof c I) as A. pose proof (srv_close_connection_no_client_wake intended c REof) as B.
    destruct (srv_close_connection intended c) as [c1 os]. cbn [fst snd] in *. split.
    + intros [H|H]; [discriminate|destruct (B H)].
    + intros [H|H]; [discriminate|exact (A H)].
  - pose proof (srv_close_request_eof c true I) as A. pose proof (srv_close_request_no_client_wake intended c true REof) as B.
    destruct (srv_close_request intended c true) as [[c1 e] os]. cbn [fst snd] in *. split.
    + intros [H|H]; [discriminate|destruct (B H)].
    + intros [H|H]; [discriminate|exact (A H)].
  - pose proof (srv_expire_eof c I) as A. pose proof (srv_event_no_client_wake intended c SvExpire REof) as B. cbn [srv_event] in B.
    destruct (srv_expire intended c) as [c1 os]. cbn [fst snd] in *. split.
    + intros [H|H]; [discriminate|destruct (B H)].
    + intros [H|H]; [discriminate|exact (A H)].
  - cbn [fst snd]. split; intros [H|[]]; discriminate.
  - cbn [fst snd]. split; intros [H|[]]; discriminate.
  - destruct (s_write c d) as [c1 r]. cbn [fst snd]. split; intros [H|[]]; discriminate.
  - cbn [fst snd]. split; intros [H|[]]; discriminate.
  - unfold srv_ack. destruct (validate (s_slot c) true); [cbn [fst snd]; split; intros [H|[]]; discriminate|].
    destruct (o_ack (s_out c)) as [oo wo]. cbn [fst snd]. split; (intros [H|H]; [discriminate|destruct (in_wwoke_not_woke _ _ _ _ H)]).
  - destruct (o_write (c_out c) d (Some sent)) as [oo r]. cbn [fst snd]. split; intros [H|[]]; discriminate.
  - destruct (o_ack (c_out c)) as [oo wo]. cbn [fst snd]. split; (intros [H|H]; [discriminate|destruct (in_wwoke_not_woke _ _ _ _ H)]).
  - apply cli_poll_eof, I.
Qed.

(* ------------------------------------------------------------------------------------------------ the poll goroutine *)

Lemma sar_tries_eq : sar_tries = 5.
Proof. reflexivity. Qed.
Lemma give_up_eq : give_up = 5.
Proof. reflexivity. Qed.

Lemma ev_eqb_refl e : ev_eqb e e = true.
Proof. destruct e; cbn; auto. apply N.eqb_refl. Qed.

(* a client that polls a retired session over a path that delivers is told BADCONN and closes its own end at once *)
Lemma poll_badconn_closes c up : c_comm c = false -> c_hs c = true -> s_slot c = Retired ->
  (c_fates c = [] \/ exists d r, c_fates c = FOk d :: r) ->
  c_comm (fst (cli_poll intended c up)) = true.
Proof.
  intros C H S F. unfold cli_poll. rewrite C, H. cbn [negb orb]. rewrite sar_tries_eq. cbn [sar].
  assert (E : exists c1 d, next_fate intended (c_fates c) c [] = (c1, FOk d, []) /\ s_slot c1 = Retired).
  { destruct F as [F|(d & r & F)]; rewrite F; cbn [next_fate]; eexists; eexists; split; try reflexivity; cbn; exact S. }
  destruct E as (c1 & d & E & S1). rewrite E. unfold srv_packet. rewrite S1. cbn [validate]. rewrite mk_err_intended.
  cbn [poll_react ev_eqb].
  match goal with |- context [cli_close intended ?x] => pose proof (cli_close_comm intended x) as T; destruct (cli_close intended x) end.
  exact T.
Qed.

(* the same error value (not BADCONN) again and again: the goroutine closes this end at the latest at the (give_up + 2)-th *)
Lemma react_same e k : ev_eqb e EBadConn = false -> forall cnt, 0 < k -> give_up < cnt + k -> react_n cnt (Some e) e k = true.
Proof.
  intros NB. induction k as [|k IH]; intros cnt K G; [lia|].
  cbn [react_n poll_react]. rewrite NB, ev_eqb_refl.
  destruct (Nat.ltb give_up (S cnt)) eqn:L; [reflexivity|]. cbn [orb]. apply Nat.ltb_ge in L. apply IH; lia.
Qed.

Lemma react_gives_up e cnt last : ev_eqb e EBadConn = false -> react_n cnt last e (give_up + 2) = true.
Proof.
  intros NB. replace (give_up + 2) with (S (give_up + 1)) by lia. cbn [react_n poll_react]. rewrite NB.
  destruct last as [l|].
  - destruct (ev_eqb l e) eqn:E.
    + destruct (Nat.ltb give_up (S cnt)); [reflexivity|]. cbn [orb].
      assert (l = e). { destruct l, e; cbn in E; try discriminate; auto. apply N.eqb_eq in E. congruence. }
      subst l. apply react_same; auto; lia.
    + cbn [orb]. apply react_same; auto; lia.
  - cbn [orb]. apply react_same; auto; lia.
Qed.

(* one round against a forgotten session over a clean path *)
Definition forgotten_idle (c : conn) : Prop := c_comm c = false /\ c_hs c = true /\ s_slot c = Forgotten /\ c_fates c = [].

Lemma forgotten_poll c : forgotten_idle c ->
  let c' := fst (cli_poll intended c None) in
  let '(cnt, last, cl) := poll_react (c_cnt c) (c_last c) (XErr EBadUser) in
  if cl then c_comm c' = true else forgotten_idle c' /\ c_cnt c' = cnt /\ c_last c' = last.
Proof.
  intros (C & H & S & F). unfold cli_poll. rewrite C, H. cbn [negb orb]. rewrite sar_tries_eq. cbn [sar].
  rewrite F. cbn [next_fate]. unfold srv_packet. cbn [s_slot set_fates]. rewrite S. cbn [validate]. rewrite mk_err_intended.
  cbn [c_cnt c_last set_fates].
  destruct (poll_react (c_cnt c) (c_last c) (XErr EBadUser)) as [[cnt last] cl].
  destruct cl.
  - match goal with |- context [cli_close intended ?x] => pose proof (cli_close_comm intended x) as T; destruct (cli_close intended x) end.
    exact T.
  - cbn [fst]. unfold forgotten_idle. cbn. auto.
Qed.

Lemma forgotten_idle_polls k : forall c, forgotten_idle c -> react_n (c_cnt c) (c_last c) EBadUser k = true ->
  c_comm (fst (idle_polls intended k c)) = true.
Proof.
  induction k as [|k IH]; intros c Fi R; [discriminate|].
  cbn [idle_polls]. destruct Fi as (C & H & S & F). rewrite C.
  pose proof (forgotten_poll c (conj C (conj H (conj S F)))) as P. cbn zeta in P.
  cbn [react_n] in R.
  destruct (poll_react (c_cnt c) (c_last c) (XErr EBadUser)) as [[cnt last] cl].
  destruct (cli_poll intended c None) as [c1 o1]. cbn [fst] in P.
  destruct cl.
  - destruct k; cbn [idle_polls]; [exact P|]. rewrite P. exact P.
  - cbn [orb] in R. destruct P as (Fi1 & Pc & Pl). specialize (IH c1 Fi1). rewrite Pc, Pl in IH. specialize (IH R).
    destruct (idle_polls intended k c1). exact IH.
Qed.

Lemma forgotten_session_closes_client c : forgotten_idle c -> c_comm (fst (idle_polls intended (give_up + 2) c)) = true.
Proof. intros Fi. apply forgotten_idle_polls; auto. apply react_gives_up. reflexivity. Qed.

(* ------------------------------------------------------------------------------------------------ the other shapes *)

Definition eof_when_closed_server : shape :=
  {| sh_c_eof_drained := true; sh_s_eof_drained := false; sh_cc_closes_q := true; sh_sc_closes_q := true; sh_sweep_closes_q := true; sh_err_identity := true; sh_err_identity_packet := true; sh_cc_closes_out := true; sh_sc_closes_out := true; sh_sweep_closes_out := true |}.
Definition eof_when_closed_client : shape :=
  {| sh_c_eof_drained := false; sh_s_eof_drained := true; sh_cc_closes_q := true; sh_sc_closes_q := true; sh_sweep_closes_q := true; sh_err_identity := true; sh_err_identity_packet := true; sh_cc_closes_out := true; sh_sc_closes_out := true; sh_sweep_closes_out := true |}.
Definition close_connection_leaves_queue : shape :=
  {| sh_c_eof_drained := true; sh_s_eof_drained := true; sh_cc_closes_q := true; sh_sc_closes_q := false; sh_sweep_closes_q := true; sh_err_identity := true; sh_err_identity_packet := true; sh_cc_closes_out := true; sh_sc_closes_out := true; sh_sweep_closes_out := true |}.
Definition sweep_leaves_queue : shape :=
  {| sh_c_eof_drained := true; sh_s_eof_drained := true; sh_cc_closes_q := true; sh_sc_closes_q := true; sh_sweep_closes_q := false; sh_err_identity := true; sh_err_identity_packet := true; sh_cc_closes_out := true; sh_sc_closes_out := true; sh_sweep_closes_out := true |}.
Definition client_close_leaves_queue : shape :=
  {| sh_c_eof_drained := true; sh_s_eof_drained := true; sh_cc_closes_q := false; sh_sc_closes_q := true; sh_sweep_closes_q := true; sh_err_identity := true; sh_err_identity_packet := true; sh_cc_closes_out := true; sh_sc_closes_out := true; sh_sweep_closes_out := true |}.
Definition errors_wrapped : shape :=
  {| sh_c_eof_drained := true; sh_s_eof_drained := true; sh_cc_closes_q := true; sh_sc_closes_q := true; sh_sweep_closes_q := true; sh_err_identity := false; sh_err_identity_packet := false; sh_cc_closes_out := true; sh_sc_closes_out := true; sh_sweep_closes_out := true |}.

Definition packet_error_wrapped : shape :=
  {| sh_c_eof_drained := true; sh_s_eof_drained := true; sh_cc_closes_q := true; sh_sc_closes_q := true; sh_sweep_closes_q := true; sh_err_identity := true; sh_err_identity_packet := false; sh_cc_closes_out := true; sh_sc_closes_out := true; sh_sweep_closes_out := true |}.

(* end-of-stream as soon as the end is closed: octets that were appended are never returned *)
Lemma eof_when_closed_server_loses :
  let '(c, os) := run eof_when_closed_server (init_conn false []) [OSArrive [1; 2; 3]%N; OSClose; OSRead 2] in
  In (ORead false REof) os /\ q_app (s_in c) = [1; 2; 3]%N /\ q_ret (s_in c) = [].
Proof. vm_compute. repeat split; auto. Qed.

Lemma eof_when_closed_client_loses :
  let '(c, os) := run eof_when_closed_client (init_conn false []) [OCArrive [1; 2; 3]%N; OCClose; OCRead 2] in
  In (ORead true REof) os /\ q_app (c_in c) = [1; 2; 3]%N /\ q_ret (c_in c) = [].
Proof. vm_compute. repeat split; auto. Qed.

(* a session that is not live, with a reader parked: whatever happens next, under any shape, the reader stays parked *)
Definition frozen_in (c c' : conn) : Prop := live (s_slot c') = false /\ s_in c' = s_in c /\ s_closed c' = s_closed c.

Lemma frozen_frozen_in c c' : frozen c c' -> frozen_in c c'.
Proof. unfold frozen, frozen_in. tauto. Qed.
Lemma frozen_in_refl c : live (s_slot c) = false -> frozen_in c c.
Proof. unfold frozen_in; auto. Qed.
Lemma frozen_in_trans a b c : frozen_in a b -> frozen_in b c -> frozen_in a c.
Proof. unfold frozen_in. intros (A1 & A2 & A3) (B1 & B2 & B3). repeat split; congruence. Qed.

Lemma step_frozen_parked sh c o : live (s_slot c) = false -> q_parked (s_in c) <> None -> frozen_in c (fst (step sh c o)).
Proof.
  intros L P. destruct o; cbn [step].
  - destruct (q_append (c_in c) d). cbn [fst]. unfold frozen_in; cbn; auto.
  - destruct (srv_packet_frozen c true (Some d) L) as [e E]. rewrite E. apply frozen_in_refl, L.
  - unfold c_read. destruct (q_parked (c_in c)); [apply frozen_in_refl, L|].
    match goal with |- context [if ?b then _ else _] => destruct b end; [apply frozen_in_refl, L|]. destruct (q_read (c_in c) n).
    cbn [fst]. unfold frozen_in; cbn; auto.
  - unfold s_read. destruct (q_parked (s_in c)); [apply frozen_in_refl, L|congruence].
  - pose proof (cli_close_frozen sh c L) as [T _]. destruct (cli_close sh c). apply frozen_frozen_in, T.
  - rewrite srv_close_connection_frozen by exact L. apply frozen_in_refl, L.
  - destruct (srv_close_request_frozen sh c true L) as [e E]. rewrite E. apply frozen_in_refl, L.
  - rewrite srv_expire_frozen by exact L. apply frozen_in_refl, L.
  - cbn [fst]. pose proof (srv_event_frozen sh c SvForget L) as [T _]. apply frozen_frozen_in, T.
  - apply frozen_in_refl, L.
  - unfold s_write. destruct (o_parked (s_out c)); [apply frozen_in_refl, L|]. destruct (s_closed c); [apply frozen_in_refl, L|].
    destruct (o_write (s_out c) d None). cbn [fst]. unfold frozen_in; cbn; auto.
  - cbn [fst]. unfold frozen_in; cbn; auto.
  - unfold srv_ack. rewrite (proj2 (Bool.not_true_iff_false _) L) || idtac.
    pose proof (validate_not_live _ true L) as V. destruct (validate (s_slot c) true); [apply frozen_in_refl, L|congruence].
  - destruct (o_write (c_out c) d (Some sent)). cbn [fst]. unfold frozen_in; cbn; auto.
  - destruct (o_ack (c_out c)). cbn [fst]. unfold frozen_in; cbn; auto.
  - apply frozen_frozen_in, cli_poll_frozen, L.
Qed.

Lemma run_frozen_parked sh ops : forall c, live (s_slot c) = false -> q_parked (s_in c) <> None -> frozen_in c (fst (run sh c ops)).
Proof.
  induction ops as [|o r IH]; intros c L P; cbn [run fst]; [apply frozen_in_refl, L|].
  pose proof (step_frozen_parked sh c o L P) as F. destruct (step sh c o) as [c1 o1]. cbn [fst] in F.
  assert (P1 : q_parked (s_in c1) <> None) by (destruct F as (_ & E & _); rewrite E; exact P).
  specialize (IH c1 (proj1 F) P1). destruct (run sh c1 r) as [c2 o2]. cbn [fst] in *. eapply frozen_in_trans; eauto.
Qed.

Lemma close_connection_leaves_queue_parks_for_ever hs fs ops :
  let c := fst (run close_connection_leaves_queue (init_conn hs fs) ([OSRead 4; OSClose] ++ ops)) in
  s_closed c = true /\ q_parked (s_in c) = Some 4.
Proof.
  rewrite run_app.
  set (c0 := fst (run close_connection_leaves_queue (init_conn hs fs) [OSRead 4; OSClose])).
  assert (L : live (s_slot c0) = false) by reflexivity.
  assert (P : q_parked (s_in c0) = Some 4) by reflexivity.
  assert (C : s_closed c0 = true) by reflexivity.
  destruct (run_frozen_parked close_connection_leaves_queue ops c0 L) as (_ & E1 & E2); [congruence|].
  cbn zeta. rewrite E1, E2. auto.
Qed.

Lemma sweep_leaves_queue_parks_for_ever hs fs ops :
  let c := fst (run sweep_leaves_queue (init_conn hs fs) ([OSRead 4; OExpire] ++ ops)) in
  live (s_slot c) = false /\ q_parked (s_in c) = Some 4.
Proof.
  rewrite run_app.
  set (c0 := fst (run sweep_leaves_queue (init_conn hs fs) [OSRead 4; OExpire])).
  assert (L : live (s_slot c0) = false) by reflexivity.
  assert (P : q_parked (s_in c0) = Some 4) by reflexivity.
  destruct (run_frozen_parked sweep_leaves_queue ops c0 L) as (L1 & E1 & E2); [congruence|].
  cbn zeta. rewrite E1. auto.
Qed.

(* the client side: a closed client end with a reader parked stays like that unless octets are appended to its queue behind its back *)
Definition not_arrival (o : op) : Prop := match o with OCArrive _ => False | _ => True end.

Lemma step_client_parked o : forall c, not_arrival o -> c_comm c = true -> q_parked (c_in c) <> None ->
  let c' := fst (step client_close_leaves_queue c o) in c_comm c' = true /\ c_in c' = c_in c.
Proof.
  intros c NA C P. pose proof (step_comm_stable client_close_leaves_queue c o C) as T. split; [exact T|].
  destruct o; cbn [step].
  - cbn in NA. tauto.
  - destruct (srv_packet c true (Some d)) as [[c1 e] os] eqn:E. unfold srv_packet in E.
    destruct (validate (s_slot c) true); [inversion E; reflexivity|]. destruct (q_append (s_in c) d). inversion E. reflexivity.
  - unfold c_read. destruct (q_parked (c_in c)); [reflexivity|congruence].
  - unfold s_read. destruct (q_parked (s_in c)); [reflexivity|].
    match goal with |- context [if ?b then _ else _] => destruct b end; [reflexivity|]. destruct (q_read (s_in c) n). reflexivity.
  - unfold cli_close, cli_close_net. rewrite C. cbn [negb andb sh_cc_closes_q sh_cc_closes_out client_close_leaves_queue].
    destruct (o_close (c_out c)). reflexivity.
  - pose proof (srv_close_connection_client client_close_leaves_queue c) as (_ & _ & X & _). destruct (srv_close_connection client_close_leaves_queue c). exact X.
  - unfold srv_close_request. destruct (validate (s_slot c) true); [reflexivity|].
    pose proof (srv_close_connection_client client_close_leaves_queue c) as (_ & _ & X & _). destruct (srv_close_connection client_close_leaves_queue c). exact X.
  - pose proof (srv_expire_client client_close_leaves_queue c) as (_ & _ & X & _). destruct (srv_expire client_close_leaves_queue c). exact X.
  - cbn [fst]. unfold srv_forget. destruct (s_slot c); reflexivity.
  - reflexivity.
  - unfold s_write. destruct (o_parked (s_out c)); [reflexivity|]. destruct (s_closed c); [reflexivity|]. destruct (o_write (s_out c) d None). reflexivity.
  - reflexivity.
  - unfold srv_ack. destruct (validate (s_slot c) true); [reflexivity|]. destruct (o_ack (s_out c)). reflexivity.
  - destruct (o_write (c_out c) d (Some sent)). reflexivity.
  - destruct (o_ack (c_out c)). reflexivity.
  - unfold cli_poll. rewrite C. reflexivity.
Qed.

Lemma client_close_leaves_queue_parks_for_ever ops : forall c, Forall not_arrival ops -> c_comm c = true -> q_parked (c_in c) <> None ->
  let c' := fst (run client_close_leaves_queue c ops) in c_comm c' = true /\ c_in c' = c_in c.
Proof.
  induction ops as [|o r IH]; intros c NA C P; cbn [run fst]; [auto|].
  inversion NA as [|? ? N1 N2]; subst.
  destruct (step_client_parked o c N1 C P) as [C1 E1]. destruct (step client_close_leaves_queue c o) as [c1 o1]. cbn [fst] in *.
  assert (P1 : q_parked (c_in c1) <> None) by (rewrite E1; exact P).
  destruct (IH c1 N2 C1 P1) as [C2 E2]. destruct (run client_close_leaves_queue c1 r) as [c2 o2]. cbn [fst] in *. split; congruence.
Qed.

(* errors wrapped on their way to the poll goroutine: the comparison with BADCONN never holds, no two errors are equal, the client
   polls a retired session for ever and its reader stays parked *)
Definition wrapped_stuck (c : conn) : Prop :=
  c_comm c = false /\ c_hs c = true /\ c_fates c = [] /\ s_slot c = Retired /\ q_parked (c_in c) = Some 4 /\
  (c_last c = None \/ exists j, c_last c = Some (EFresh j) /\ (j < c_fresh c)%N).

Lemma wrapped_poll c : wrapped_stuck c -> wrapped_stuck (fst (cli_poll errors_wrapped c None)).
Proof.
  intros (C & H & F & S & P & L). unfold cli_poll. rewrite C, H. cbn [negb orb]. rewrite sar_tries_eq. cbn [sar].
  rewrite F. cbn [next_fate]. unfold srv_packet. cbn [s_slot set_fates]. rewrite S. cbn [validate].
  unfold mk_err. cbn [sh_err_identity errors_wrapped]. cbn [c_cnt c_last c_fresh set_fresh set_fates].
  assert (R : exists cnt, poll_react (c_cnt c) (c_last c) (XErr (EFresh (c_fresh c))) = (cnt, Some (EFresh (c_fresh c)), false)).
  { unfold poll_react. cbn [ev_eqb]. destruct L as [L|(j & L & Lt)]; rewrite L; [eauto|].
    cbn [ev_eqb]. replace (N.eqb j (c_fresh c)) with false by (symmetry; apply N.eqb_neq; lia). eauto. }
  destruct R as [cnt R]. rewrite R. cbn [fst]. unfold wrapped_stuck. cbn. repeat split; auto.
  right. exists (c_fresh c). split; [reflexivity|lia].
Qed.

Lemma wrapped_polls_for_ever k : forall c, wrapped_stuck c ->
  let c' := fst (idle_polls errors_wrapped k c) in c_comm c' = false /\ q_parked (c_in c') = Some 4 /\ s_slot c' = Retired.
Proof.
  induction k as [|k IH]; intros c W; cbn [idle_polls].
  - destruct W as (C & H & F & S & P & L). cbn. auto.
  - pose proof W as (C & _). rewrite C. pose proof (wrapped_poll c W) as W1.
    destruct (cli_poll errors_wrapped c None) as [c1 o1]. cbn [fst] in W1. specialize (IH c1 W1).
    destruct (idle_polls errors_wrapped k c1). exact IH.
Qed.

Lemma wrapped_start : wrapped_stuck (fst (run errors_wrapped (init_conn true []) [OCRead 4; OSClose])).
Proof. unfold wrapped_stuck. cbn. repeat split; auto. Qed.

(* ------------------------------------------------------------------------------------------------ the byte buffer is C07's *)
(* For a queue with nothing parked out of order whose memory does not hold the expected number (the C07 invariant for a link without
   reordering), Queues.in_append of the expected packet appends its data to the buffer, and Queues.in_read hands out a prefix:
   the buffer of this file is that buffer. *)
Lemma in_append_in_order (q : inq) (d : bytes) :
  in_future q = [] -> mem_seq (in_next q) (in_acked q) = false ->
  in_buf (fst (in_append q (Some {| p_seq := in_next q; p_data := d |}))) = in_buf q ++ d /\
  snd (in_append q (Some {| p_seq := in_next q; p_data := d |})) = false.
Proof.
  intros F M. unfold in_append. cbn [p_seq p_data]. rewrite M, N.eqb_refl.
  unfold append_packet. cbn [in_future in_buf in_next in_acked in_total p_data]. rewrite F. cbn [List.length drain].
  cbn [in_buf fst snd]. auto.
Qed.

Lemma in_read_is_take (q : inq) (n : nat) :
  snd (in_read q n) = firstn n (in_buf q) /\ in_buf (fst (in_read q n)) = skipn n (in_buf q).
Proof. unfold in_read. cbn. auto. Qed.

(* the client-side variant from its start: a Read that parks, then Close (which in this shape leaves the queue alone), with or without a
   completed handshake, over a clean path *)
Lemma client_close_leaves_queue_refuted hs ops : Forall not_arrival ops ->
  let c := fst (run client_close_leaves_queue (init_conn hs []) ([OCRead 4; OCClose] ++ ops)) in
  c_comm c = true /\ q_parked (c_in c) = Some 4.
Proof.
  intros NA. rewrite run_app.
  set (c0 := fst (run client_close_leaves_queue (init_conn hs []) [OCRead 4; OCClose])).
  assert (C : c_comm c0 = true) by (destruct hs; reflexivity).
  assert (P : q_parked (c_in c0) = Some 4) by (destruct hs; reflexivity).
  destruct (client_close_leaves_queue_parks_for_ever ops c0 NA C) as [C1 E1]; [congruence|].
  cbn zeta. rewrite E1. auto.
Qed.

(* ------------------------------------------------------------------------------------------------ the out-queues of the two ends *)

(* holds in every state the connection can get into (shape of the code as it is) *)
Definition out_inv (c : conn) : Prop :=
  oinv (c_out c) /\ oinv (s_out c) /\
  o_closed (c_out c) = c_comm c /\                    (* the client's out-queue is closed exactly when the client end is *)
  o_closed (s_out c) = negb (live (s_slot c)).        (* the server's out-queue is closed exactly when the session is no longer live *)

Definition same_out (c c' : conn) : Prop :=
  c_out c' = c_out c /\ s_out c' = s_out c /\ c_comm c' = c_comm c /\ s_slot c' = s_slot c.

Lemma out_inv_same c c' : out_inv c -> same_out c c' -> out_inv c'.
Proof. unfold out_inv, same_out. intros (A & B & C & D) (E & F & G & H). rewrite E, F, G, H. auto. Qed.

Lemma same_out_refl c : same_out c c.
Proof. unfold same_out; auto. Qed.
Lemma same_out_trans a b c : same_out a b -> same_out b c -> same_out a c.
Proof. unfold same_out. intros (A1 & A2 & A3 & A4) (B1 & B2 & B3 & B4). repeat split; congruence. Qed.

Lemma out_inv_init hs fs : out_inv (init_conn hs fs).
Proof. unfold out_inv; cbn. repeat split; auto using oinv_new; try congruence; apply oinv_new. Qed.

Lemma srv_close_connection_out c : out_inv c -> out_inv (fst (srv_close_connection intended c)).
Proof.
  intros I. destruct (slot_live_dec (s_slot c)) as [S|S]; [|rewrite srv_close_connection_not_live by exact S; exact I].
  rewrite (srv_close_connection_live c S). cbn [fst]. destruct I as (A & B & C & D). unfold out_inv; cbn.
  split; [exact A|]. split; [apply o_close_inv, B|]. split; [exact C|apply o_close_closed].
Qed.

Lemma srv_expire_out c : out_inv c -> out_inv (fst (srv_expire intended c)).
Proof.
  intros I. destruct (slot_live_dec (s_slot c)) as [S|S]; [|rewrite srv_expire_not_live by exact S; exact I].
  rewrite (srv_expire_live c S). cbn [fst]. destruct I as (A & B & C & D). unfold out_inv; cbn.
  split; [exact A|]. split; [apply o_close_inv, B|]. split; [exact C|apply o_close_closed].
Qed.

Lemma srv_forget_out c : out_inv c -> out_inv (srv_forget c).
Proof.
  intros (A & B & C & D). unfold srv_forget. destruct (s_slot c) eqn:S; try (unfold out_inv; rewrite S; tauto).
  unfold out_inv; cbn. auto.
Qed.

Lemma srv_event_out c e : out_inv c -> out_inv (fst (srv_event intended c e)).
Proof. intros I. destruct e; cbn [srv_event fst]; auto using srv_close_connection_out, srv_expire_out, srv_forget_out. Qed.

Lemma srv_packet_same c own up : same_out c (fst (fst (srv_packet c own up))).
Proof.
  unfold srv_packet. destruct (validate (s_slot c) own); [apply same_out_refl|]. destruct up as [d|]; [|apply same_out_refl].
  destruct (q_append (s_in c) d). unfold same_out; cbn; auto.
Qed.

Lemma srv_close_request_out c own : out_inv c -> out_inv (fst (fst (srv_close_request intended c own))).
Proof.
  intros I. unfold srv_close_request. destruct (validate (s_slot c) own); cbn [fst]; auto.
  pose proof (srv_close_connection_out c I) as T. destruct (srv_close_connection intended c). exact T.
Qed.

Lemma next_fate_out fs : forall c acc, out_inv c -> out_inv (fst (fst (next_fate intended fs c acc))).
Proof.
  induction fs as [|f r IH]; intros c acc I; cbn [next_fate].
  - cbn [fst]. eapply out_inv_same; [exact I|unfold same_out; cbn; auto].
  - destruct f; try (cbn [fst]; eapply out_inv_same; [exact I|unfold same_out; cbn; auto]; fail).
    pose proof (srv_event_out c e I) as T. destruct (srv_event intended c e) as [c1 o]. apply IH, T.
Qed.

Lemma sar_out tries : forall c up, out_inv c -> out_inv (fst (fst (sar intended tries c up))).
Proof.
  induction tries as [|t IH]; intros c up I; cbn [sar].
  - rewrite mk_err_intended. exact I.
  - pose proof (next_fate_out (c_fates c) c [] I) as I1. destruct (next_fate intended (c_fates c) c []) as [[c1 f] o1]. cbn [fst] in I1.
    destruct f.
    + pose proof (srv_packet_same c1 true up) as S. destruct (srv_packet c1 true up) as [[c2 e] o2]. cbn [fst] in S.
      pose proof (out_inv_same _ _ I1 S) as I2. destruct e as [e|]; [rewrite mk_err_intended; exact I2|].
      destruct (nonempty down); [|exact I2]. destruct (q_append (c_in c2) down). cbn [fst].
      eapply out_inv_same; [exact I2|unfold same_out; cbn; auto].
    + specialize (IH c1 up I1). destruct (sar intended t c1 up) as [[c2 r] o2]. exact IH.
    + cbn [fst]. eapply out_inv_same; [exact I1|unfold same_out; cbn; auto].
    + pose proof (srv_packet_same c1 false up) as S. destruct (srv_packet c1 false up) as [[c2 e] o2]. cbn [fst] in S.
      pose proof (out_inv_same _ _ I1 S) as I2. destruct e as [e|]; [rewrite mk_err_intended|]; exact I2.
    + exact I1.
Qed.

Lemma cli_close_net_out c : out_inv c -> out_inv (fst (cli_close_net intended c)).
Proof.
  intros I. unfold cli_close_net. destruct (negb (c_comm c) && c_hs c); [|exact I].
  pose proof (sar_out sar_tries c None I) as Ia. destruct (sar intended sar_tries c None) as [[ca ra] oa]. cbn [fst] in Ia.
  pose proof (next_fate_out (c_fates ca) ca [] Ia) as Ib. destruct (next_fate intended (c_fates ca) ca []) as [[cb f] ob]. cbn [fst] in Ib.
  destruct f; try exact Ib.
  - pose proof (srv_close_request_out cb true Ib) as T. destruct (srv_close_request intended cb true) as [[cc ec] oc]. exact T.
  - pose proof (srv_close_request_out cb false Ib) as T. destruct (srv_close_request intended cb false) as [[cc ec] oc]. exact T.
Qed.

Lemma cli_close_out c : out_inv c -> out_inv (fst (cli_close intended c)).
Proof.
  intros I. rewrite cli_close_eq. cbn zeta. cbn [fst]. pose proof (cli_close_net_out c I) as (A & B & C & D).
  unfold out_inv; cbn. split; [apply o_close_inv, A|]. split; [exact B|]. split; [apply o_close_closed|exact D].
Qed.

Lemma cli_poll_out c up : out_inv c -> out_inv (fst (cli_poll intended c up)).
Proof.
  intros I. unfold cli_poll. destruct (c_comm c || negb (c_hs c)); [exact I|].
  pose proof (sar_out sar_tries c up I) as I1. destruct (sar intended sar_tries c up) as [[c1 r] o1]. cbn [fst] in I1.
  destruct (poll_react (c_cnt c1) (c_last c1) r) as [[cnt last] cl].
  assert (I2 : out_inv (set_poll c1 cnt last)) by (eapply out_inv_same; [exact I1|unfold same_out; cbn; auto]).
  destruct cl; [|exact I2]. pose proof (cli_close_out _ I2) as T. destruct (cli_close intended (set_poll c1 cnt last)). exact T.
Qed.

Lemma s_write_out c d : out_inv c -> out_inv (fst (s_write c d)).
Proof.
  intros I. unfold s_write. destruct (o_parked (s_out c)); [exact I|]. destruct (s_closed c); [exact I|].
  pose proof (o_write_inv (s_out c) d None) as T. pose proof (o_write_closed (s_out c) d None) as Cc.
  destruct (o_write (s_out c) d None) as [o r]. cbn [fst] in *. destruct I as (A & B & C & D).
  unfold out_inv; cbn. split; [exact A|]. split; [apply T, B|]. split; [exact C|congruence].
Qed.

Lemma srv_ack_out c own : out_inv c -> out_inv (fst (fst (srv_ack c own))).
Proof.
  intros I. unfold srv_ack. destruct (validate (s_slot c) own); [exact I|].
  pose proof (o_ack_inv (s_out c)) as T. pose proof (o_ack_closed (s_out c)) as Cc.
  destruct (o_ack (s_out c)) as [o w]. cbn [fst] in *. destruct I as (A & B & C & D).
  unfold out_inv; cbn. split; [exact A|]. split; [apply T, B|]. split; [exact C|congruence].
Qed.

Lemma step_out c o : out_inv c -> out_inv (fst (step intended c o)).
Proof.
  intros I. destruct o; cbn [step].
  - destruct (q_append (c_in c) d). eapply out_inv_same; [exact I|unfold same_out; cbn; auto].
  - pose proof (srv_packet_same c true (Some d)) as S. destruct (srv_packet c true (Some d)) as [[c1 e] os]. exact (out_inv_same _ _ I S).
  - unfold c_read. destruct (q_parked (c_in c)); [exact I|].
    match goal with |- context [if ?b then _ else _] => destruct b end; [exact I|]. destruct (q_read (c_in c) n).
    eapply out_inv_same; [exact I|unfold same_out; cbn; auto].
  - unfold s_read. destruct (q_parked (s_in c)); [exact I|].
    match goal with |- context [if ?b then _ else _] => destruct b end; [exact I|]. destruct (q_read (s_in c) n).
    eapply out_inv_same; [exact I|unfold same_out; cbn; auto].
  - pose proof (cli_close_out c I) as T. destruct (cli_close intended c). exact T.
  - pose proof (srv_close_connection_out c I) as T. destruct (srv_close_connection intended c). exact T.
  - pose proof (srv_close_request_out c true I) as T. destruct (srv_close_request intended c true) as [[c1 e] os]. exact T.
  - pose proof (srv_expire_out c I) as T. destruct (srv_expire intended c). exact T.
  - cbn [fst]. apply srv_forget_out, I.
  - exact I.
  - pose proof (s_write_out c d I) as T. destruct (s_write c d). exact T.
  - cbn [fst]. destruct I as (A & B & C & D). unfold out_inv; cbn. split; [exact A|]. split; [|auto].
    destruct B as [B0 BP]. split; [apply o_enqueue_inv0, B0|]. cbn. intros X. split; [reflexivity|exact (proj2 (BP X))].
  - pose proof (srv_ack_out c true I) as T. destruct (srv_ack c true) as [[c1 e] os]. exact T.
  - pose proof (o_write_inv (c_out c) d (Some sent)) as T. pose proof (o_write_closed (c_out c) d (Some sent)) as Cc.
    destruct (o_write (c_out c) d (Some sent)) as [oo r]. cbn [fst] in *. destruct I as (A & B & C & D).
    unfold out_inv; cbn. split; [apply T, A|]. split; [exact B|]. split; [congruence|exact D].
  - pose proof (o_ack_inv (c_out c)) as T. pose proof (o_ack_closed (c_out c)) as Cc.
    destruct (o_ack (c_out c)) as [oo w]. cbn [fst] in *. destruct I as (A & B & C & D).
    unfold out_inv; cbn. split; [apply T, A|]. split; [exact B|]. split; [congruence|exact D].
  - apply cli_poll_out, I.
Qed.

Lemma run_out ops : forall c, out_inv c -> out_inv (fst (run intended c ops)).
Proof.
  induction ops as [|o r IH]; intros c I; cbn [run fst]; auto.
  pose proof (step_out c o I) as T. destruct (step intended c o) as [c1 o1]. cbn [fst] in T.
  specialize (IH c1 T). destruct (run intended c1 r) as [c2 o2]. exact IH.
Qed.

Lemma reach_out c : reach c -> out_inv c.
Proof. intros (hs & fs & ops & ->). apply run_out, out_inv_init. Qed.

(* ---- every chunk ever queued on an end is either acknowledged or still in the queue, in order *)
Lemma conn_out_accounting c : reach c ->
  o_sent (c_out c) = o_ackd (c_out c) ++ o_q (c_out c) /\ o_sent (s_out c) = o_ackd (s_out c) ++ o_q (s_out c).
Proof. intros R. destruct (reach_out c R) as (((A & _) & _) & ((B & _) & _) & _). auto. Qed.

(* ---- once an end is closed, no writer is parked on it and no Write parks any more *)
Lemma client_closed_no_writer c : reach c -> c_comm c = true ->
  o_parked (c_out c) = None /\ forall d sent b, snd (o_write (c_out c) d sent) <> WBlock b /\ snd (o_write (c_out c) d sent) <> WBusy.
Proof.
  intros R C. destruct (reach_out c R) as (A & B & Cc & D). rewrite <- Cc in C.
  pose proof (closed_out_queue_not_parked _ A C) as P. split; [exact P|]. intros d sent b. split; [apply o_write_closed_no_block, C|].
  unfold o_write. rewrite P. destruct (o_wait (c_out c)); [|cbn; discriminate|cbn; discriminate].
  unfold o_fill. destruct d; [unfold o_final; destruct (o_wait (o_check (c_out c))); cbn; discriminate|].
  destruct sent as [[|]|]; [|cbn; discriminate|]; unfold o_final; match goal with |- context [o_wait ?x] => destruct (o_wait x) end; cbn; discriminate.
Qed.

Lemma server_closed_no_writer c : reach c -> live (s_slot c) = false ->
  o_parked (s_out c) = None /\ forall d b, snd (s_write c d) <> WBlock b /\ snd (s_write c d) <> WBusy.
Proof.
  intros R L. destruct (reach_out c R) as (A & B & Cc & D). rewrite L in D. cbn in D.
  pose proof (closed_out_queue_not_parked _ B D) as P. split; [exact P|]. intros d b. unfold s_write. rewrite P.
  destruct (s_closed c); [cbn; split; discriminate|].
  pose proof (o_write_closed_no_block (s_out c) d None D b) as NB.
  destruct (o_write (s_out c) d None) as [o r] eqn:E. cbn [snd] in *. split; [exact NB|].
  unfold o_write in E. rewrite P in E. destruct (o_wait (s_out c)); [|inversion E; discriminate|inversion E; discriminate].
  unfold o_fill in E. destruct d; [unfold o_final in E; destruct (o_wait (o_check (s_out c))); inversion E; discriminate|].
  unfold o_final in E. match type of E with context [o_wait ?x] => destruct (o_wait x) end; inversion E; discriminate.
Qed.

(* ---- a Write reports success only when everything ever queued on that end has been acknowledged; os.ErrClosed only on a closed queue *)
Lemma s_write_done c d n : reach c -> snd (s_write c d) = WDone n ->
  n = List.length d /\ o_q (s_out (fst (s_write c d))) = [] /\ o_sent (s_out (fst (s_write c d))) = o_ackd (s_out (fst (s_write c d))).
Proof.
  intros R. destruct (reach_out c R) as (A & B & _). unfold s_write. destruct (o_parked (s_out c)); [cbn; discriminate|].
  destruct (s_closed c); [cbn; discriminate|].
  pose proof (o_write_done (s_out c) d None n B) as T. destruct (o_write (s_out c) d None) as [o r]. cbn [fst snd s_out set_sout] in *. exact T.
Qed.

Lemma s_write_closed_outcome c d n : reach c -> snd (s_write c d) = WClosed n -> live (s_slot c) = false.
Proof.
  intros R. pose proof (reach_inv c R) as (_ & _ & _ & _ & I5). destruct (reach_out c R) as (_ & _ & _ & D).
  unfold s_write. destruct (o_parked (s_out c)); [cbn; discriminate|].
  destruct (s_closed c) eqn:Sc; [intros _; apply I5; reflexivity|].
  pose proof (o_write_closed_outcome (s_out c) d None n) as T. destruct (o_write (s_out c) d None) as [o r]. cbn [snd] in *.
  intros E. specialize (T E). rewrite T in D. symmetry in D. apply negb_true_iff in D. exact D.
Qed.

Lemma c_out_write_done c d sent n : reach c -> snd (o_write (c_out c) d sent) = WDone n ->
  n = List.length d /\ o_q (fst (o_write (c_out c) d sent)) = [] /\ o_sent (fst (o_write (c_out c) d sent)) = o_ackd (fst (o_write (c_out c) d sent)).
Proof. intros R. destruct (reach_out c R) as (A & _). apply o_write_done, A. Qed.

(* ---- a parked writer is released by whatever closes its end: in a reachable state a closed end has none (see client_closed_no_writer,
   server_closed_no_writer); and the release is a return, never a second park: *)
Lemma released_writer_returns o : o_parked o <> None -> exists r, snd (o_close o) = Some r /\ forall b, r <> WBlock b.
Proof. exact (o_close_releases o). Qed.

(* ---- the code before the repair: no out-queue is ever closed *)
Definition no_out_queue_close : shape :=
  {| sh_c_eof_drained := true; sh_s_eof_drained := true; sh_cc_closes_q := true; sh_sc_closes_q := true; sh_sweep_closes_q := true;
     sh_err_identity := true; sh_err_identity_packet := true; sh_cc_closes_out := false; sh_sc_closes_out := false; sh_sweep_closes_out := false |}.

(* a session that is not live, with a writer parked: whatever happens next, under any shape, the writer stays parked as it is *)
Definition wfrozen (c c' : conn) : Prop := live (s_slot c') = false /\ s_closed c' = s_closed c /\ o_parked (s_out c') = o_parked (s_out c).

Lemma frozen_wfrozen c c' : frozen c c' -> wfrozen c c'.
Proof. unfold frozen, wfrozen. intros (A & B & C & D). rewrite D. auto. Qed.
Lemma wfrozen_refl c : live (s_slot c) = false -> wfrozen c c.
Proof. unfold wfrozen; auto. Qed.
Lemma wfrozen_trans a b c : wfrozen a b -> wfrozen b c -> wfrozen a c.
Proof. unfold wfrozen. intros (A1 & A2 & A3) (B1 & B2 & B3). repeat split; congruence. Qed.

Lemma step_wfrozen sh c o : live (s_slot c) = false -> o_parked (s_out c) <> None -> wfrozen c (fst (step sh c o)).
Proof.
  intros L P. destruct o; cbn [step].
  - destruct (q_append (c_in c) d). cbn [fst]. unfold wfrozen; cbn; auto.
  - destruct (srv_packet_frozen c true (Some d) L) as [e E]. rewrite E. apply wfrozen_refl, L.
  - unfold c_read. destruct (q_parked (c_in c)); [apply wfrozen_refl, L|].
    match goal with |- context [if ?b then _ else _] => destruct b end; [apply wfrozen_refl, L|]. destruct (q_read (c_in c) n).
    cbn [fst]. unfold wfrozen; cbn; auto.
  - unfold s_read. destruct (q_parked (s_in c)); [apply wfrozen_refl, L|].
    match goal with |- context [if ?b then _ else _] => destruct b end; [apply wfrozen_refl, L|]. destruct (q_read (s_in c) n).
    cbn [fst]. unfold wfrozen; cbn; auto.
  - pose proof (cli_close_frozen sh c L) as [T _]. destruct (cli_close sh c). apply frozen_wfrozen, T.
  - rewrite srv_close_connection_frozen by exact L. apply wfrozen_refl, L.
  - destruct (srv_close_request_frozen sh c true L) as [e E]. rewrite E. apply wfrozen_refl, L.
  - rewrite srv_expire_frozen by exact L. apply wfrozen_refl, L.
  - cbn [fst]. pose proof (srv_event_frozen sh c SvForget L) as [T _]. apply frozen_wfrozen, T.
  - apply wfrozen_refl, L.
  - unfold s_write. destruct (o_parked (s_out c)); [apply wfrozen_refl, L|congruence].
  - cbn [fst]. unfold wfrozen; cbn; auto.
  - unfold srv_ack. pose proof (validate_not_live _ true L) as V. destruct (validate (s_slot c) true); [apply wfrozen_refl, L|congruence].
  - destruct (o_write (c_out c) d (Some sent)). cbn [fst]. unfold wfrozen; cbn; auto.
  - destruct (o_ack (c_out c)). cbn [fst]. unfold wfrozen; cbn; auto.
  - apply frozen_wfrozen, cli_poll_frozen, L.
Qed.

Lemma run_wfrozen sh ops : forall c, live (s_slot c) = false -> o_parked (s_out c) <> None -> wfrozen c (fst (run sh c ops)).
Proof.
  induction ops as [|o r IH]; intros c L P; cbn [run fst]; [apply wfrozen_refl, L|].
  pose proof (step_wfrozen sh c o L P) as F. destruct (step sh c o) as [c1 o1]. cbn [fst] in F.
  assert (P1 : o_parked (s_out c1) <> None) by (destruct F as (_ & _ & E); rewrite E; exact P).
  specialize (IH c1 (proj1 F) P1). destruct (run sh c1 r) as [c2 o2]. cbn [fst] in *. eapply wfrozen_trans; eauto.
Qed.

(* closeConnection / the sweep without u.out.Close(): the writer waiting for its acknowledgement waits for ever *)
Lemma close_connection_leaves_writer_parked hs fs ops :
  let c := fst (run no_out_queue_close (init_conn hs fs) ([OSWrite [1; 2; 3; 4; 5]%N; OSClose] ++ ops)) in
  s_closed c = true /\ live (s_slot c) = false /\ o_parked (s_out c) = Some (WFinal 5).
Proof.
  rewrite run_app.
  set (c0 := fst (run no_out_queue_close (init_conn hs fs) [OSWrite [1; 2; 3; 4; 5]%N; OSClose])).
  assert (L : live (s_slot c0) = false) by reflexivity.
  assert (P : o_parked (s_out c0) = Some (WFinal 5)) by reflexivity.
  assert (C : s_closed c0 = true) by reflexivity.
  destruct (run_wfrozen no_out_queue_close ops c0 L) as (L1 & E1 & E2); [congruence|].
  cbn zeta. rewrite E1, E2. auto.
Qed.

Lemma sweep_leaves_writer_parked hs fs ops :
  let c := fst (run no_out_queue_close (init_conn hs fs) ([OSWrite [1; 2; 3; 4; 5]%N; OExpire] ++ ops)) in
  live (s_slot c) = false /\ o_parked (s_out c) = Some (WFinal 5).
Proof.
  rewrite run_app.
  set (c0 := fst (run no_out_queue_close (init_conn hs fs) [OSWrite [1; 2; 3; 4; 5]%N; OExpire])).
  assert (L : live (s_slot c0) = false) by reflexivity.
  assert (P : o_parked (s_out c0) = Some (WFinal 5)) by reflexivity.
  destruct (run_wfrozen no_out_queue_close ops c0 L) as (L1 & E1 & E2); [congruence|].
  cbn zeta. rewrite E2. auto.
Qed.

(* the client side: a chunk left queued by a Write whose exchange failed, a second Write parked behind it, Close: the second Write waits
   for ever (nothing acknowledges the chunk of a closed client: its poll goroutine has ended) *)
Definition not_client_ack (o : op) : Prop := match o with OCAck => False | _ => True end.

Lemma step_client_writer_parked o : forall c, not_client_ack o -> c_comm c = true -> o_parked (c_out c) <> None ->
  let c' := fst (step no_out_queue_close c o) in c_comm c' = true /\ c_out c' = c_out c.
Proof.
  intros c NA C P. pose proof (step_comm_stable no_out_queue_close c o C) as T. split; [exact T|].
  destruct o; cbn [step].
  - destruct (q_append (c_in c) d). reflexivity.
  - destruct (srv_packet c true (Some d)) as [[c1 e] os] eqn:E. unfold srv_packet in E.
    destruct (validate (s_slot c) true); [inversion E; reflexivity|]. destruct (q_append (s_in c) d). inversion E. reflexivity.
  - unfold c_read. destruct (q_parked (c_in c)); [reflexivity|].
    match goal with |- context [if ?b then _ else _] => destruct b end; [reflexivity|]. destruct (q_read (c_in c) n). reflexivity.
  - unfold s_read. destruct (q_parked (s_in c)); [reflexivity|].
    match goal with |- context [if ?b then _ else _] => destruct b end; [reflexivity|]. destruct (q_read (s_in c) n). reflexivity.
  - unfold cli_close, cli_close_net. rewrite C. cbn [negb andb sh_cc_closes_q sh_cc_closes_out no_out_queue_close].
    destruct (q_close (c_in c)). reflexivity.
  - pose proof (srv_close_connection_client no_out_queue_close c) as (_ & _ & _ & X). destruct (srv_close_connection no_out_queue_close c). exact X.
  - unfold srv_close_request. destruct (validate (s_slot c) true); [reflexivity|].
    pose proof (srv_close_connection_client no_out_queue_close c) as (_ & _ & _ & X). destruct (srv_close_connection no_out_queue_close c). exact X.
  - pose proof (srv_expire_client no_out_queue_close c) as (_ & _ & _ & X). destruct (srv_expire no_out_queue_close c). exact X.
  - cbn [fst]. unfold srv_forget. destruct (s_slot c); reflexivity.
  - reflexivity.
  - unfold s_write. destruct (o_parked (s_out c)); [reflexivity|]. destruct (s_closed c); [reflexivity|]. destruct (o_write (s_out c) d None). reflexivity.
  - reflexivity.
  - unfold srv_ack. destruct (validate (s_slot c) true); [reflexivity|]. destruct (o_ack (s_out c)). reflexivity.
  - unfold o_write. destruct (o_parked (c_out c)); [cbn; destruct c; reflexivity|congruence].
  - cbn in NA. tauto.
  - unfold cli_poll. rewrite C. reflexivity.
Qed.

Lemma client_close_leaves_writer_parked hs ops : Forall not_client_ack ops ->
  let c := fst (run no_out_queue_close (init_conn hs []) ([OCOutWrite [1]%N false; OCOutWrite [2; 3]%N true; OCClose] ++ ops)) in
  c_comm c = true /\ o_parked (c_out c) = Some (WEntry [2; 3]%N (Some true)).
Proof.
  intros NA. rewrite run_app.
  set (c0 := fst (run no_out_queue_close (init_conn hs []) [OCOutWrite [1]%N false; OCOutWrite [2; 3]%N true; OCClose])).
  assert (C : c_comm c0 = true) by (destruct hs; reflexivity).
  assert (P : o_parked (c_out c0) = Some (WEntry [2; 3]%N (Some true))) by (destruct hs; reflexivity).
  clearbody c0. revert c0 C P. induction ops as [|o r IH]; intros c0 C P; cbn [run fst]; [auto|].
  inversion NA as [|? ? N1 N2]; subst.
  destruct (step_client_writer_parked o c0 N1 C) as [C1 E1]; [congruence|].
  destruct (step no_out_queue_close c0 o) as [c1 o1]. cbn [fst] in *.
  assert (P1 : o_parked (c_out c1) = Some (WEntry [2; 3]%N (Some true))) by (rewrite E1; exact P).
  specialize (IH N2 c1 C1 P1). destruct (run no_out_queue_close c1 r) as [c2 o2]. exact IH.
Qed.
