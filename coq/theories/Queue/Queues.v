(* C07: faithful model of internal/streams/dns/util/queue.go (InQueue, OutQueue). uint16 arithmetic is written out. *)
From Coq Require Import String List NArith ZArith Bool Arith.
From SA Require Import Base.Tok Gen.QueueConsts.
Import ListNotations.
Open Scope N_scope.

Definition M : N := 65536.
Definition u16 (n : N) : N := n mod M.
Definition max_cached : N := max_cached_chunks.       (* MaxCachedChunks, from the source *)

Record packet := { p_seq : N; p_data : bytes }.

Record inq := { in_next : N; in_buf : bytes; in_future : list packet; in_acked : list N;
                in_total : N (* ghost: bytes ever appended *) }.
Record outq := { out_next : N; out_q : list packet; out_acked : list N }.

Definition new_inq (s : N) : inq := {| in_next := u16 s; in_buf := []; in_future := []; in_acked := []; in_total := 0 |}.
Definition new_outq (s : N) : outq := {| out_next := u16 s; out_q := []; out_acked := [] |}.

Definition mem_seq (s : N) (l : list N) : bool := existsb (N.eqb s) l.

(* ---- InQueue *)

Definition append_packet (q : inq) (p : packet) : inq :=
  {| in_next := u16 (in_next q + 1); in_buf := in_buf q ++ p_data p; in_future := in_future q; in_acked := in_acked q;
     in_total := in_total q + N.of_nat (List.length (p_data p)) |}.

(* remove the first future packet whose number is the expected one *)
Fixpoint take_seq (s : N) (l : list packet) : option (packet * list packet) :=
  match l with
  | [] => None
  | p :: r => if N.eqb (p_seq p) s then Some (p, r)
              else match take_seq s r with Some (x, r') => Some (x, p :: r') | None => None end
  end.

Fixpoint drain (fuel : nat) (q : inq) : inq :=
  match fuel with
  | O => q
  | S f =>
    match take_seq (in_next q) (in_future q) with
    | Some (p, rest) =>
      drain f (append_packet {| in_next := in_next q; in_buf := in_buf q; in_future := rest; in_acked := in_acked q; in_total := in_total q |} p)
    | None => q
    end
  end.

(* the window loop  for i := next+lo; i != next+hi; i++  over uint16 *)
Definition in_window (next s : N) : bool :=
  let d := u16 (s + M - next) in (in_window_lo <=? d) && (d <? in_window_hi).

(* Append: new state and whether ErrInvalidSequenceNumber was returned *)
Definition in_append (q : inq) (op : option packet) : inq * bool :=
  match op with
  | None => (q, false)
  | Some p =>
    if mem_seq (p_seq p) (in_acked q) then (q, false)
    else if N.eqb (p_seq p) (in_next q) then
      let q1 := append_packet q p in
      let q2 := {| in_next := in_next q1; in_buf := in_buf q1; in_future := in_future q1; in_acked := in_acked q1 ++ [p_seq p]; in_total := in_total q1 |} in
      let q3 := drain (List.length (in_future q2)) q2 in
      let acked' := if (max_cached <? N.of_nat (List.length (in_acked q3))) then tl (in_acked q3) else in_acked q3 in
      ({| in_next := in_next q3; in_buf := in_buf q3; in_future := in_future q3; in_acked := acked'; in_total := in_total q3 |}, false)
    else if in_window (in_next q) (p_seq p) then
      ({| in_next := in_next q; in_buf := in_buf q; in_future := in_future q ++ [p]; in_acked := in_acked q ++ [p_seq p]; in_total := in_total q |}, false)
    else (q, true)
  end.

Definition in_read (q : inq) (n : nat) : inq * bytes :=
  ({| in_next := in_next q; in_buf := skipn n (in_buf q); in_future := in_future q; in_acked := in_acked q; in_total := in_total q |},
   firstn n (in_buf q)).

(* ---- OutQueue *)

Fixpoint remove_first_seq (s : N) (l : list packet) : list packet :=
  match l with
  | [] => []
  | p :: r => if N.eqb (p_seq p) s then r else p :: remove_first_seq s r
  end.

(* the truncation of the acknowledgement memory: which end the slice expression keeps comes from the source *)
Definition trunc_acked (a : list N) : list N :=
  if (max_cached <? N.of_nat (List.length a)) then
    (if out_acked_keeps_newest then skipn (List.length a - N.to_nat max_cached) a else firstn (N.to_nat max_cached) a)
  else a.

Definition clean (q : outq) : outq :=
  {| out_next := out_next q;
     out_q := fold_left (fun o a => remove_first_seq a o) (out_acked q) (out_q q);
     out_acked := trunc_acked (out_acked q) |}.

Definition next_chunk (q : outq) : outq * option packet :=
  let q' := clean q in (q', hd_error (out_q q')).

Definition update_acked (q : outq) (s : N) : outq :=
  if mem_seq s (out_acked q) then q
  else clean {| out_next := out_next q; out_q := out_q q; out_acked := out_acked q ++ [s] |}.

Definition add_chunk (q : outq) (d : bytes) : outq :=
  {| out_next := u16 (out_next q + 1); out_q := out_q q ++ [{| p_seq := out_next q; p_data := d |}]; out_acked := out_acked q |}.

(* Write's chunking loop; mtu = 0 never makes progress in Go (an endless loop appending empty chunks): out of fuel *)
Fixpoint write_chunks (fuel : nat) (q : outq) (b : bytes) (mtu : nat) : option outq :=
  match b with
  | [] => Some q
  | _ =>
    match fuel with
    | O => None
    | S f =>
      if Nat.ltb mtu (List.length b) then write_chunks f (add_chunk q (firstn mtu b)) (skipn mtu b) mtu
      else Some (add_chunk q b)
    end
  end.
