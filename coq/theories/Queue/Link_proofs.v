From Coq Require Import String List NArith ZArith Bool Arith Lia.
From SA Require Import Base.Tok Gen.QueueConsts Queue.Queues Queue.Link.
Import ListNotations.
From SA Require Import Queue.Half Queue.Inv.
Ltac Zify.zify_post_hook ::= Z.to_euclidean_division_equations.
Local Open Scope nat_scope.

(* number of chunks a Write makes *)
Definition chunks_of (len mtu : nat) : nat := if Nat.eqb len 0 then 0 else (len + mtu - 1) / mtu.

(* an event is admissible in state s: a delivered message is at most A message-formations old; a write uses a positive
   fragment size and makes at most W chunks *)
Definition ev_ok (A W : nat) (s : sys) (e : ev) : bool :=
  match e with
  | EDeliverS i => match nth_oldest (queries s) i with Some m => Nat.leb (clock s - m_stamp m) A | None => true end
  | EDeliverC j => match nth_oldest (answers s) j with Some m => Nat.leb (clock s - m_stamp m) A | None => true end
  | EWrite _ d mtu => Nat.ltb 0 mtu && Nat.leb (chunks_of (List.length d) mtu) W
  | EPump _ _ len _ => Nat.leb 1 W
  | _ => true
  end.
Fixpoint admissible (A W : nat) (s : sys) (evs : list ev) : bool :=
  match evs with
  | [] => true
  | e :: r => ev_ok A W s e && admissible A W (fst (step s e)) r
  end.
Definition prefix {X} (a b : list X) : Prop := exists t, b = a ++ t.

Definition SLACK : N := 128.
Definition RECENT : nat := 128.
Definition is_err (o : obs) : bool := match o with OServer true _ _ => true | OClient 1%N => true | OClient 2%N => true | _ => false end.

Lemma chunks_of_nchunks len mtu : chunks_of len mtu = nchunks len mtu.
Proof. reflexivity. Qed.

(* ================= the invariant along admissible runs ================= *)
Section RUN.
Variables (A0 W : nat) (c0 s0 : N).
Hypothesis HS : (N.of_nat A0 + N.of_nat W + SLACK <= M)%N.

(* deliveries inside EPump are one message formation old, so the invariant is kept for age max(A0,1) *)
Let A := Nat.max A0 1.

Lemma HN : NUM A W.
Proof. unfold NUM, A, SLACK, M in *. split; lia. Qed.
Lemma HA : 1 <= A.
Proof. unfold A. lia. Qed.
Lemma HA0 : A0 <= A.
Proof. unfold A. lia. Qed.

Notation InvG := (InvG A W c0 s0).
Definition Inv (s : sys) : Prop := exists g, InvG g s.

Lemma nth_oldest_In {X} (l : list X) i m : nth_oldest l i = Some m -> In m l.
Proof. unfold nth_oldest. destruct (i <? length l); [|discriminate]. apply nth_error_In. Qed.

(* a query of age <= A reaches the server *)
Lemma deliverS_inv g s m :
  InvG g s -> In m (queries s) -> clock s <= m_stamp m + A ->
  exists g', InvG g' (fst (server_handle s m)) /\ (A <= 128 -> is_err (snd (server_handle s m)) = false).
Proof.
  intros H Hin Hage. pose proof (i_q _ _ _ _ _ _ H) as Hq. rewrite Forall_forall in Hq.
  destruct (Hq m Hin) as [Hst [Hp [r [Ea [Hr Hb]]]]].
  assert (exists oi, m_pkt m = option_map (pk (u16 c0) (h1 g)) oi /\
            forall i, oi = Some i -> i <= K1 g /\ i < length (h1 g) /\ R1 g <= i + A) as [oi [Ep Hi]].
  { unfold pkt_ok in Hp. destruct (m_pkt m) as [p|].
    - destruct Hp as [i [E [X1 [X2 X3]]]]. exists (Some i). split; [subst p; reflexivity|].
      intros i' Ei. inversion Ei; subst i'. repeat split; lia.
    - exists None. split; [reflexivity|discriminate]. }
  destruct (server_inv A W c0 s0 HN HA g s m oi r H Ep Hi Ea Hr ltac:(lia)) as [Hg [_ [_ Hne]]].
  eexists. split; [exact Hg|]. intros H128.
  destruct Hne as [ans [_ [_ [_ [_ [_ [a [p Eo]]]]]]]].
  { intros i Ei. destruct (Hi i Ei) as [_ [_ X]]. lia. }
  rewrite Eo. reflexivity.
Qed.

(* an answer of age <= A reaches the client *)
Lemma deliverC_inv g s m :
  InvG g s -> In m (answers s) -> clock s <= m_stamp m + A ->
  exists g', InvG g' (fst (client_handle s m)) /\ (A <= 128 -> is_err (snd (client_handle s m)) = false).
Proof.
  intros H Hin Hage. pose proof (i_a _ _ _ _ _ _ H) as Hq. rewrite Forall_forall in Hq.
  destruct (Hq m Hin) as [Hst Hm].
  destruct (m_err m) eqn:Ee.
  - rewrite (client_err A W HN HA) by exact Ee. exists g. split; [exact H|]. intros H128.
    pose proof (i_ne _ _ _ _ _ _ H H128) as Hne. rewrite Forall_forall in Hne. rewrite (Hne m Hin) in Ee. discriminate.
  - destruct Hm as [Hm|[Hp [r [Ea [Hr Hb]]]]]; [discriminate|].
    assert (exists oi, m_pkt m = option_map (pk (u16 s0) (h2 g)) oi /\
              forall i, oi = Some i -> i <= K2 g /\ i < length (h2 g) /\ R2 g <= i + A) as [oi [Ep Hi]].
    { pose proof (hf_RK (i_h2 _ _ _ _ _ _ H)). unfold pkt_ok in Hp. destruct (m_pkt m) as [p|].
      - destruct Hp as [i [E [X1 [X2 X3]]]]. exists (Some i). split; [subst p; reflexivity|].
        intros i' Ei. inversion Ei; subst i'. repeat split; lia.
      - exists None. split; [reflexivity|discriminate]. }
    pose proof (hf_KR (i_h1 _ _ _ _ _ _ H)).
    destruct (client_inv A W c0 s0 HN HA g s m oi r H Ee Ep Hi Ea Hr ltac:(lia)) as [Hg [_ [_ [_ Hne]]]].
    eexists. split; [exact Hg|]. intros H128. rewrite Hne; [reflexivity|].
    intros i Ei. destruct (Hi i Ei) as [_ [_ X]]. lia.
Qed.

(* ---- one faithful exchange *)
Definition g_round (g : ghost) : ghost :=
  let ga := g_server g (hidx (h1 g) (K1 g)) (R2 g) in
  g_client ga (hidx (h2 ga) (K2 ga)) (R1 ga).

Lemma hidx_some hist K i : hidx hist K = Some i -> i = K /\ K < length hist.
Proof. unfold hidx. destruct (Nat.ltb_spec K (length hist)); intros E; inversion E; subst; split; [reflexivity|assumption]. Qed.

Lemma round_inv g s : InvG g s -> InvG (g_round g) (faithful_round s).
Proof.
  intros H. unfold faithful_round.
  pose proof (query_inv A W c0 s0 HN HA g s H) as Q. cbv zeta in Q.
  destruct (do_query s) as [s1 o1]. simpl in Q.
  destruct Q as [H1 [C1 [An1 [m [Q1 [P1 [A1 [St1 _]]]]]]]]. rewrite Q1.
  pose proof (hf_KR (i_h1 _ _ _ _ _ _ H)) as X1. pose proof (hf_RK (i_h1 _ _ _ _ _ _ H)) as X2.
  pose proof (hf_KR (i_h2 _ _ _ _ _ _ H)) as X3. pose proof (hf_RK (i_h2 _ _ _ _ _ _ H)) as X4.
  pose proof HA as HA'.
  rewrite (headp_hidx A W HN HA) in P1.
  assert (Hi1 : forall i, hidx (h1 g) (K1 g) = Some i -> i <= K1 g /\ i < length (h1 g) /\ R1 g <= i + A).
  { intros i Ei. apply hidx_some in Ei. lia. }
  pose proof (server_inv A W c0 s0 HN HA g s1 m _ (R2 g) H1 P1 Hi1 A1 ltac:(lia) ltac:(lia)) as S. cbv zeta in S.
  destruct S as [H2 [C2 [Q2 Hans]]].
  destruct Hans as [ans [An2 [Ee [P2 [A2 [St2 _]]]]]].
  { intros i Ei. apply hidx_some in Ei. lia. }
  set (ga := g_server g (hidx (h1 g) (K1 g)) (R2 g)) in *.
  rewrite An2.
  pose proof (hf_KR (i_h1 _ _ _ _ _ _ H2)) as Y1. pose proof (hf_RK (i_h2 _ _ _ _ _ _ H2)) as Y2.
  rewrite (headp_hidx A W HN HA) in P2. change (h2 g) with (h2 ga) in P2.
  assert (Hi2 : forall i, hidx (h2 ga) (K2 ga) = Some i -> i <= K2 ga /\ i < length (h2 ga) /\ R2 ga <= i + A).
  { intros i Ei. apply hidx_some in Ei. lia. }
  pose proof (client_inv A W c0 s0 HN HA ga _ ans _ (R1 ga) H2 Ee P2 Hi2 A2 ltac:(lia) ltac:(lia)) as C. cbv zeta in C.
  destruct C as [H3 _].
  apply (check_lost_inv A W c0 s0 HN HA). apply (read_inv A W c0 s0 HN HA). apply (read_inv A W c0 s0 HN HA). exact H3.
Qed.

Lemma nchunks_self len : nchunks len len <= 1.
Proof.
  unfold nchunks. destruct (Nat.eqb_spec len 0); [lia|].
  assert ((len + len - 1) / len < 2); [|lia]. apply Nat.div_lt_upper_bound; lia.
Qed.

Lemma pump_data_len len fill : length (pump_data len fill) = len.
Proof. unfold pump_data. rewrite map_length, seq_length. reflexivity. Qed.

Lemma pump_inv c len : 1 <= W -> forall k s fill, Inv s -> Inv (pump s c k len fill).
Proof.
  intros HW. induction k as [|k IH]; intros s fill [g H]; simpl; [exists g; exact H|].
  apply IH.
  destruct (write_inv A W c0 s0 HN HA g s c (pump_data len fill) len H) as [cs [_ Hw]].
  - destruct len; [left; reflexivity|right; lia].
  - rewrite pump_data_len. pose proof (nchunks_self len). lia.
  - eexists. apply round_inv. exact Hw.
Qed.

Lemma do_write_obs s c d mtu : is_err (snd (do_write s c d mtu)) = false.
Proof.
  unfold do_write. destruct c.
  - destruct (out_q (c_out s)); [|reflexivity]. destruct (write_chunks _ _ _ _); reflexivity.
  - destruct (out_q (s_out s)); [|reflexivity]. destruct (write_chunks _ _ _ _); reflexivity.
Qed.

Lemma step0_inv s e :
  Inv s -> ev_ok A0 W s e = true ->
  Inv (fst (step0 s e)) /\ (A <= 128 -> is_err (snd (step0 s e)) = false).
Proof.
  intros [g H] Hok. pose proof HA0 as HA0'. destruct e as [c d mtu| |i|j|c n|c k len fill]; simpl in Hok; cbv beta iota delta [step0].
  - apply andb_prop in Hok. destruct Hok as [Hm Hc]. apply Nat.ltb_lt in Hm. apply Nat.leb_le in Hc.
    destruct (write_inv A W c0 s0 HN HA g s c d mtu H (or_intror Hm) Hc) as [cs [_ Hw]].
    split; [eexists; exact Hw|]. intros _. apply do_write_obs.
  - pose proof (query_inv A W c0 s0 HN HA g s H) as Q. cbv zeta in Q. destruct Q as [H1 [_ [_ [m [_ [_ [_ [_ Eo]]]]]]]].
    split; [exists g; exact H1|]. intros _. rewrite Eo. reflexivity.
  - destruct (nth_oldest (queries s) i) as [m|] eqn:En.
    + apply Nat.leb_le in Hok. apply nth_oldest_In in En.
      destruct (deliverS_inv g s m H En ltac:(lia)) as [g' [Hg He]]. split; [exists g'; exact Hg|exact He].
    + split; [exists g; exact H|reflexivity].
  - destruct (nth_oldest (answers s) j) as [m|] eqn:En.
    + apply Nat.leb_le in Hok. apply nth_oldest_In in En.
      destruct (deliverC_inv g s m H En ltac:(lia)) as [g' [Hg He]]. split; [exists g'; exact Hg|exact He].
    + split; [exists g; exact H|reflexivity].
  - split; [exists g; apply (read_inv A W c0 s0 HN HA); exact H|]. intros _. unfold do_read. destruct c; reflexivity.
  - assert (1 <= W) by (destruct W; [discriminate|lia]). split; [|reflexivity]. apply pump_inv; [assumption|exists g; exact H].
Qed.

Lemma step_fst s e : fst (step s e) = check_lost (fst (step0 s e)).
Proof. unfold step. destruct (step0 s e); reflexivity. Qed.
Lemma step_snd s e : snd (step s e) = snd (step0 s e).
Proof. unfold step. destruct (step0 s e); reflexivity. Qed.

Lemma run_inv : forall evs s,
  Inv s -> admissible A0 W s evs = true ->
  Inv (fst (run s evs)) /\ (A <= 128 -> forallb (fun o => negb (is_err o)) (snd (run s evs)) = true).
Proof.
  induction evs as [|e r IH]; intros s HI Hadm; simpl in *; [split; auto|].
  apply andb_prop in Hadm. destruct Hadm as [Hok Hadm].
  destruct (step0_inv s e HI Hok) as [HI1 He].
  assert (HI2 : Inv (fst (step s e))).
  { rewrite step_fst. destruct HI1 as [g Hg]. exists g. apply (check_lost_inv A W c0 s0 HN HA). exact Hg. }
  destruct (IH _ HI2 Hadm) as [HI3 Hos].
  pose proof (step_snd s e) as Es.
  destruct (step s e) as [s1 o]. simpl in *. destruct (run s1 r) as [s2 os]. simpl in *.
  split; [exact HI3|]. intros H128. rewrite Es, (He H128), (Hos H128). reflexivity.
Qed.

Lemma inv_run evs : admissible A0 W (init c0 s0) evs = true ->
  Inv (fst (run (init c0 s0) evs)) /\
  (A <= 128 -> forallb (fun o => negb (is_err o)) (snd (run (init c0 s0) evs)) = true).
Proof. apply run_inv. exists g0. apply (inv_init A W c0 s0 HN HA). Qed.

(* ---- progress: faithful exchanges without new writes *)
Fixpoint g_rounds (k : nat) (g : ghost) : ghost := match k with 0 => g | S k' => g_rounds k' (g_round g) end.

Lemma pump0_inv c : forall k g s fill, InvG g s -> InvG (g_rounds k g) (pump s c k 0 fill).
Proof.
  induction k as [|k IH]; intros g s fill H; simpl; [exact H|].
  apply IH.
  destruct (write_inv A W c0 s0 HN HA g s c (pump_data 0 fill) 0 H (or_introl eq_refl)) as [cs [Ecs Hw]].
  - unfold nchunks. simpl. lia.
  - rewrite (Ecs eq_refl), (g_write_nil A W HN HA) in Hw. apply round_inv. exact Hw.
Qed.

Definition wfg (g : ghost) : Prop :=
  K1 g <= R1 g <= S (K1 g) /\ R1 g <= length (h1 g) /\ K2 g <= R2 g <= S (K2 g) /\ R2 g <= length (h2 g).

Lemma inv_wfg g s : InvG g s -> wfg g.
Proof.
  intros H. unfold wfg.
  pose proof (hf_KR (i_h1 _ _ _ _ _ _ H)). pose proof (hf_RK (i_h1 _ _ _ _ _ _ H)). pose proof (r_R (hf_r (i_h1 _ _ _ _ _ _ H))).
  pose proof (hf_KR (i_h2 _ _ _ _ _ _ H)). pose proof (hf_RK (i_h2 _ _ _ _ _ _ H)). pose proof (r_R (hf_r (i_h2 _ _ _ _ _ _ H))).
  lia.
Qed.

Lemma g_round_spec g : wfg g ->
  h1 (g_round g) = h1 g /\ h2 (g_round g) = h2 g /\
  K1 (g_round g) = Nat.min (S (K1 g)) (length (h1 g)) /\ R1 (g_round g) = Nat.min (S (K1 g)) (length (h1 g)) /\
  K2 (g_round g) = R2 g /\ R2 (g_round g) = Nat.min (S (R2 g)) (length (h2 g)).
Proof.
  unfold wfg, g_round, g_server, g_client, hidx, bump, kup. cbn [h1 h2 K1 K2 R1 R2]. intros Hw.
  repeat match goal with
  | |- context [?a <? ?b] => destruct (Nat.ltb_spec a b)
  | |- context [?a =? ?b] => destruct (Nat.eqb_spec a b)
  end; cbn [h1 h2 K1 K2 R1 R2]; repeat split; lia.
Qed.

Lemma g_rounds_spec : forall k g, wfg g ->
  wfg (g_rounds k g) /\ h1 (g_rounds k g) = h1 g /\ h2 (g_rounds k g) = h2 g /\
  Nat.min (K1 g + k) (length (h1 g)) <= K1 (g_rounds k g) /\
  (1 <= k -> Nat.min (R2 g + (k - 1)) (length (h2 g)) <= K2 (g_rounds k g)).
Proof.
  induction k as [|k IH]; intros g Hw; cbn [g_rounds].
  - unfold wfg in Hw. repeat split; try apply Hw; lia.
  - destruct (g_round_spec g Hw) as [E1 [E2 [E3 [E4 [E5 E6]]]]].
    assert (Hw1 : wfg (g_round g)).
    { unfold wfg in *. rewrite E1, E2, E3, E4, E5, E6. lia. }
    destruct (IH _ Hw1) as [Hw' [F1 [F2 [F3 F4]]]].
    rewrite E1 in F1. rewrite E2 in F2. rewrite E1, E3 in F3. rewrite E2, E6 in F4.
    split; [exact Hw'|]. split; [exact F1|]. split; [exact F2|]. unfold wfg in Hw. split; [lia|].
    intros _. destruct k as [|k'].
    + cbn [g_rounds]. rewrite E5. lia.
    + specialize (F4 ltac:(lia)). lia.
Qed.

Lemma half_drained x0 hist K R o q acc nacc rd :
  Half A W x0 hist K R o q acc nacc rd -> length hist <= K -> out_q o = [] /\ in_total q = nacc.
Proof.
  intros H HK. pose proof (hf_KR H). pose proof (r_R (hf_r H)). split.
  - rewrite (s_q (hf_s H)). apply pkts_nil. exact HK.
  - rewrite (r_tot (hf_r H)), (hf_n H), firstn_all2 by lia. reflexivity.
Qed.

Lemma half_qlen x0 hist K R o q acc nacc rd :
  Half A W x0 hist K R o q acc nacc rd -> length (out_q o) = length hist - K.
Proof. intros H. rewrite (s_q (hf_s H)). unfold pkts. rewrite map_length, seq_length. reflexivity. Qed.

Lemma progress_inv s k :
  Inv s -> k >= 2 * (length (out_q (c_out s)) + length (out_q (s_out s))) + 2 ->
  let s' := pump s true k 0 0%N in
  out_q (c_out s') = [] /\ out_q (s_out s') = [] /\ in_total (s_in s') = n_acc_c s' /\ in_total (c_in s') = n_acc_s s'.
Proof.
  intros [g H] Hk. cbv zeta.
  pose proof (pump0_inv true k g s 0%N H) as H'.
  pose proof (inv_wfg _ _ H) as Hw.
  destruct (g_rounds_spec k g Hw) as [Hw' [F1 [F2 [F3 F4]]]].
  rewrite (half_qlen _ _ _ _ _ _ _ _ _ (i_h1 _ _ _ _ _ _ H)), (half_qlen _ _ _ _ _ _ _ _ _ (i_h2 _ _ _ _ _ _ H)) in Hk.
  specialize (F4 ltac:(lia)). unfold wfg in Hw, Hw'.
  destruct (half_drained _ _ _ _ _ _ _ _ _ (i_h1 _ _ _ _ _ _ H')) as [D1 D2]; [rewrite F1; lia|].
  destruct (half_drained _ _ _ _ _ _ _ _ _ (i_h2 _ _ _ _ _ _ H')) as [D3 D4]; [rewrite F2; lia|].
  auto.
Qed.

(* ---- what the invariant says about the visible state *)
Lemma half_prefix x0 hist K R o q acc nacc rd :
  Half A W x0 hist K R o q acc nacc rd -> prefix (rev rd ++ in_buf q) (rev acc).
Proof.
  intros H. exists (concat (skipn R hist)).
  rewrite (r_buf (hf_r H)), (hf_acc H), <- concat_app, firstn_skipn. reflexivity.
Qed.

Lemma inv_facts s : Inv s ->
  (prefix (rev (rd_s s) ++ in_buf (s_in s)) (rev (acc_c s)) /\ prefix (rev (rd_c s) ++ in_buf (c_in s)) (rev (acc_s s))) /\
  (lost_c s = false /\ lost_s s = false) /\
  (in_future (c_in s) = [] /\ in_future (s_in s) = [] /\
   length (in_acked (c_in s)) <= 128 /\ length (in_acked (s_in s)) <= 128 /\
   length (out_acked (c_out s)) <= 128 /\ length (out_acked (s_out s)) <= 128).
Proof.
  intros [g H]. pose proof (i_h1 _ _ _ _ _ _ H) as X1. pose proof (i_h2 _ _ _ _ _ _ H) as X2.
  split; [|split].
  - split; eapply half_prefix; eauto.
  - split; apply H.
  - rewrite (r_fut (hf_r X1)), (r_fut (hf_r X2)), (r_ack (hf_r X1)), (r_ack (hf_r X2)).
    repeat split; try apply racked_len; [apply (s_len (hf_s X1))|apply (s_len (hf_s X2))].
Qed.

End RUN.

(* ================= the theorems ================= *)

(* T1: ordering / no gap / no repeat, both directions, any run length (the 16-bit wrap is inside), any starting numbers *)
Theorem link_prefix : forall A W c0 s0 evs,
  (N.of_nat A + N.of_nat W + SLACK <= M)%N ->
  admissible A W (init c0 s0) evs = true ->
  let s := fst (run (init c0 s0) evs) in
  prefix (rev (rd_s s) ++ in_buf (s_in s)) (rev (acc_c s)) /\
  prefix (rev (rd_c s) ++ in_buf (c_in s)) (rev (acc_s s)).
Proof.
  intros A W c0 s0 evs HS Hadm s.
  destruct (inv_run A W c0 s0 HS evs Hadm) as [HI _]. apply (inv_facts A W c0 s0 _ HI).
Qed.

(* T2: a Write that has returned (queue drained) has all its bytes at the peer *)
Theorem link_not_lost : forall A W c0 s0 evs,
  (N.of_nat A + N.of_nat W + SLACK <= M)%N ->
  admissible A W (init c0 s0) evs = true ->
  let s := fst (run (init c0 s0) evs) in lost_c s = false /\ lost_s s = false.
Proof.
  intros A W c0 s0 evs HS Hadm s.
  destruct (inv_run A W c0 s0 HS evs Hadm) as [HI _]. apply (inv_facts A W c0 s0 _ HI).
Qed.

(* T3: the out-of-order store stays empty and the memories stay bounded *)
Theorem link_memory : forall A W c0 s0 evs,
  (N.of_nat A + N.of_nat W + SLACK <= M)%N ->
  admissible A W (init c0 s0) evs = true ->
  let s := fst (run (init c0 s0) evs) in
  in_future (c_in s) = [] /\ in_future (s_in s) = [] /\
  (List.length (in_acked (c_in s)) <= 128)%nat /\ (List.length (in_acked (s_in s)) <= 128)%nat /\
  (List.length (out_acked (c_out s)) <= 128)%nat /\ (List.length (out_acked (s_out s)) <= 128)%nat.
Proof.
  intros A W c0 s0 evs HS Hadm s.
  destruct (inv_run A W c0 s0 HS evs Hadm) as [HI _]. apply (inv_facts A W c0 s0 _ HI).
Qed.

(* T4: loss, duplication and late delivery within RECENT message formations never surface as an error *)
Theorem link_no_false_error : forall A W c0 s0 evs,
  (A <= RECENT)%nat -> (N.of_nat A + N.of_nat W + SLACK <= M)%N ->
  admissible A W (init c0 s0) evs = true ->
  forallb (fun o => negb (is_err o)) (snd (run (init c0 s0) evs)) = true.
Proof.
  intros A W c0 s0 evs HR HS Hadm.
  destruct (inv_run A W c0 s0 HS evs Hadm) as [_ He]. apply He. unfold RECENT in HR. lia.
Qed.

(* T5: once the path stops losing, everything accepted arrives: k faithful exchanges with k large enough drain both queues *)
Theorem link_progress : forall A W c0 s0 evs k,
  (N.of_nat A + N.of_nat W + SLACK <= M)%N ->
  admissible A W (init c0 s0) evs = true ->
  let s := fst (run (init c0 s0) evs) in
  (k >= 2 * (List.length (out_q (c_out s)) + List.length (out_q (s_out s))) + 2)%nat ->
  let s' := pump s true k 0 0%N in
  out_q (c_out s') = [] /\ out_q (s_out s') = [] /\
  in_total (s_in s') = n_acc_c s' /\ in_total (c_in s') = n_acc_s s'.
Proof.
  intros A W c0 s0 evs k HS Hadm s Hk.
  destruct (inv_run A W c0 s0 HS evs Hadm) as [HI _]. apply (progress_inv A W c0 s0 HS _ _ HI Hk).
Qed.

Print Assumptions link_prefix.
Print Assumptions link_not_lost.
Print Assumptions link_memory.
Print Assumptions link_no_false_error.
Print Assumptions link_progress.
