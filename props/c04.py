"""C04 - required or negotiated security never degrades to plaintext."""
PID = "C04"
SCRIPTS = ["none", "strip-cap", "alter-cap", "lower-cap", "multi-cap", "status-500", "strip-security", "fake101-plain", "fake-nocap101"]
RULE = ("c04: server certificate {none, good} x client insecure x client requires security x nine peer / man-in-the-middle scripts (capability "
        "omitted, altered, case/list variants, error status, client's StartTLS request stripped, upgrade accepted without TLS, plaintext after "
        "upgrade) through a real SocketServer, a tampering and recording TCP relay and a real Socket upstream: exhaustive over this matrix. "
        "c05 cells (TLS endpoints, must-secure on every carrier) are part of C05's matrix")
EXPLANATION = ("Props/C04.v: the client-side guarantees hold for every peer behaviour (all capability/status/TLS outcomes); the server-side "
               "'offered means TLS' is refuted with a witness (documented as a suggestion; known finding). The relay records every byte: a "
               "session reported secure must not show the application marker in clear.")
TRUSTED = ["crypto/tls (a completed handshake encrypts; a peer that does not speak TLS makes the handshake fail)"]
EXHAUSTIVE = True
RUN_TIMEOUT = 1800


def cases(tier, rng):
    cs = []
    for cert in ("good", "none"):
        for ins in (0, 1):
            for must in (0, 1):
                for sc in SCRIPTS:
                    line = "c04 %s %d %d %s" % (cert, ins, must, sc)
                    cs.append({"line": line, "key": line, "tags": {"cert": cert, "ins": ins, "must": must, "script": sc}})
    # the glue around the modelled decisions (run on the implementation only):
    # the client command as the CLI builds it (flags -> Command.Startup -> listener) against a server that cannot offer TLS ...
    for ins in (0, 1):
        for sec in (0, 1):
            for early in (0, 1):     # early: a local peer is already connecting while the client starts up
                line = "c04cmd %d %d %d" % (ins, sec, early)
                cs.append({"line": line, "key": line, "model": False, "tags": {"cert": "none", "ins": ins, "must": sec, "script": "command"}})
    # ... and a TLS upstream object that connects again and again (as after every session loss) must start with a TLS hello each time
    for kind in ("tcp+tls", "wss"):
        line = "c04first %s 3" % kind
        cs.append({"line": line, "key": line, "model": False, "tags": {"cert": "none", "ins": 1, "must": 0, "script": "reconnect-" + kind}})
    # every kind of endpoint that is configured for TLS from the first octet answers a TLS hello and nothing else (started from its
    # configuration text and probed on the wire), whatever the socket family ...
    k = 0
    for scheme in ("tcp+tls", "unix+tls", "https", "wss", "http+tls", "ws+tls", "dns+tcp+tls"):
        k += 1
        text = scheme + (":///tmp/verif-c04-%d.sock" % k if scheme.startswith("unix") else "://127.0.0.1:0")
        line = "c18 server json #%s 1" % text.encode("latin-1").hex()
        cs.append({"line": line, "key": line, "model": False, "tags": {"cert": "good", "ins": 0, "must": 0, "script": "tls-endpoint", "scheme": scheme}})
    # ... the standard-stream endpoint cannot be probed on the wire: its input and output are pipes here, and the peer speaks the session
    # handshake in plaintext - a TLS standard-stream endpoint, with or without a certificate, answers none of it
    for scheme in ("stdio+tls", "stdin+tls"):
        for scert in ("good", "none"):
            line = "c04stdio %s %s" % (scert, scheme)
            cs.append({"line": line, "key": line, "model": False, "tags": {"cert": scert, "ins": 0, "must": 0, "script": "tls-stdio-endpoint", "scheme": scheme}})
    line = "c04stdio none stdio"
    cs.append({"line": line, "key": line, "model": False, "tags": {"cert": "none", "ins": 0, "must": 0, "script": "plain-stdio-endpoint", "scheme": "stdio"}})
    # ... and with security required every kind of upstream refuses a server that cannot upgrade, and upgrades with one that can
    # (the cells of C05's matrix that are about C04: run here with the must-secure flag set)
    for carrier, scert in (("plain-socket", "none"), ("plain-ws", "none"), ("plain-kcp", "none"), ("starttls-socket", "good"), ("starttls-ws", "good"), ("starttls-kcp", "good")):
        line = "c05 %s %s 0 none 0 1" % (carrier, scert)
        cs.append({"line": line, "key": line, "model": False, "tags": {"cert": scert, "ins": 0, "must": 1, "script": "must-secure-upstream", "carrier": carrier}})
    # a UDP upstream whose URL carries a shared secret: the packet cipher is not TLS - with security required the session must be
    # upgraded (server with a certificate) or refused (server without)
    for scert in ("none", "good"):
        line = "c05s abc abc %s 1" % scert
        cs.append({"line": line, "key": line, "model": False, "tags": {"cert": scert, "ins": 1, "must": 1, "script": "must-secure-udp-secret", "carrier": "udp-secret"}})
    return cs


def oracle(case, impl):
    t = case["tags"]
    p = impl.split()
    if t["script"] in ("tls-stdio-endpoint", "plain-stdio-endpoint"):
        if not p or p[0] != "first":
            return [("crash", "standard-stream endpoint case failed to run: " + impl[:200])]
        if t["script"] == "plain-stdio-endpoint":
            # (control: the same peer against the plain endpoint is answered - the probe does reach the server)
            return [] if p[1] == "plain-200" and p[3] == "plain-101" else [("plain-endpoint-unreachable", "the plain standard-stream endpoint did not answer the handshake: " + impl)]
        if p[1].startswith("plain-") or p[3].startswith("plain-"):
            return [("tls-endpoint-speaks-plaintext;scheme=" + t["scheme"], "a %s endpoint (certificate: %s) answered a plaintext handshake in plaintext: %s" % (t["scheme"], t["cert"], impl))]
        return []
    if t["script"] == "must-secure-udp-secret":
        if not p or p[0] != "connect":
            return [("crash", "scenario did not complete: %s -> %s" % (case["line"], impl[:100]))]
        tech = p[p.index("tech") + 1] if "tech" in p else "?"
        if p[1] == "ok" and (t["cert"] == "none" or tech != "tls"):
            return [("required-security-degraded;script=must-secure-upstream;carrier=udp-secret", "security is required and the upstream only has the shared-secret packet cipher (protection reported: %s), yet application data was carried: %s" % (tech, impl))]
        if t["cert"] == "good" and p[1] != "ok":
            return [("good-peer-refused;carrier=udp-secret", "a server that offers StartTLS was refused by a client that requires security: " + impl)]
        return []
    if t["script"] == "tls-endpoint":
        if "wire" not in p:
            return [("crash", "a TLS endpoint could not be started or probed: %s -> %s" % (t["scheme"], impl[:100]))]
        w = p[p.index("wire") + 1]
        if w != "tls":
            return [("tls-endpoint-speaks-plaintext;scheme=" + t["scheme"], "an endpoint configured as %s does not answer a TLS hello (on the wire: %s): a plaintext peer can complete a session" % (t["scheme"], w))]
        return []
    if t["script"] == "must-secure-upstream":
        if not p or p[0] in ("panic", "died", "timeout", "harness-error", "startup-err"):
            return [("crash", "scenario did not complete: %s -> %s" % (case["line"], impl[:100]))]
        f = dict(zip(p[2::2], p[3::2]))
        if p[:2] == ["connect", "ok"] and (t["cert"] == "none" or f.get("secure") != "1"):
            return [("required-security-degraded;script=must-secure-upstream;carrier=" + t["carrier"], "security is required, the server %s, yet the upstream carried application data: %s" % ("cannot upgrade" if t["cert"] == "none" else "offers StartTLS", impl))]
        if t["cert"] == "good" and p[:2] != ["connect", "ok"]:
            return [("good-peer-refused;carrier=" + t["carrier"], "a server that offers StartTLS was refused by a client that requires security: " + impl)]
        return []
    if not p or p[0] in ("panic", "died", "timeout", "harness-error") or "hang" in p:
        return [("crash", "scenario did not complete: %s -> %s" % (case["line"], impl[:100]))]
    if p[0] == "startup-err":
        return [("crash", "scenario could not start: " + case["line"])] if t["script"] == "command" else []
    if t["script"] == "command":
        f = dict(zip(p[1::2], p[2::2]))
        if t["must"] and (f.get("echo") == "1" or f.get("leak") == "1" or f.get("hits") != "0"):
            return [("required-security-degraded;script=command", "the client was started with --secure (insecure=%d) against a server without TLS, yet application data was carried: %s" % (t["ins"], impl))]
        early = case["line"].split()[3:4] == ["1"]
        if not t["must"] and early:
            # the early peer occupies start-up; its marker must have travelled
            return [] if f.get("hits") != "0" else [("plain-session-refused;script=command", "without --secure the early connection should work: " + impl)]
        if not t["must"] and f.get("echo") != "1":
            return [("plain-session-refused;script=command", "without --secure the plain session should work: " + impl)]
        return []
    if t["script"].startswith("reconnect-"):
        firsts = p[1:]
        if any(x != "22" for x in firsts):
            return [("tls-upstream-connects-in-clear;script=" + t["script"], "a TLS upstream opened a connection that does not start with a TLS hello (first octets %s)" % " ".join(firsts))]
        return []
    f = dict(zip(p[2::2], p[3::2]))
    ok = p[1] == "ok"
    out = []
    if t["must"] and ok and (f.get("secure") != "1" or f.get("leak") == "1"):
        out.append(("required-security-degraded;script=" + t["script"], "the client requires security but carried application data over a session that is not TLS-protected: " + impl))
    if t["must"] and f.get("appclear") == "1":
        out.append(("required-security-degraded;script=" + t["script"], "application-layer bytes appeared in clear although security is required: " + impl))
    if f.get("secure") == "1" and (f.get("leak") == "1" or f.get("appclear") == "1"):
        out.append(("secure-session-in-clear;script=" + t["script"], "the session reports secure but the payload is visible on the carrier: " + impl))
    if t["cert"] == "good" and ok and f.get("secure") != "1" and not t["script"].startswith("fake"):
        if t["script"] in ("strip-cap", "alter-cap", "strip-security"):
            # the offer (or the client's request) did not get through: the server's choice to go on in plaintext (known finding)
            out.append(("server-offered-starttls;plain-session", "the server offered StartTLS on an unencrypted carrier and completed a plaintext session (script %s)" % t["script"]))
        else:
            # the client did receive a valid offer (in whatever legal spelling of the list) and must take it
            out.append(("offer-not-taken;script=" + t["script"], "the server's StartTLS offer reached the client (%s) but the session was completed in plaintext: %s" % (t["script"], impl)))
    return out


def agree(case, impl, model):
    return None if impl == model else "security-outcome"


def distribution(cs):
    d = {}
    for c in cs:
        d[c["tags"]["script"]] = d.get(c["tags"]["script"], 0) + 1
    return d


META = {
    "level_text": "Coq theorems over the StartTLS decision of both roles and the require-security gate: with security required no session "
                  "without TLS is ever used, for every capability, status and TLS outcome a peer can produce; the secure flag implies a TLS "
                  "layer; TLS endpoints never complete plaintext sessions; the server-side clause 'offered StartTLS means TLS or nothing' is "
                  "refuted with a witness and recorded as a known finding. The matrix of peer scripts is run through a recording relay.",
    "level_note": "crypto/tls enters as an oracle (handshake outcome). The server completing a plaintext session with a client that does not ask "
                  "for StartTLS is documented behaviour ('suggest'), recorded as a finding rather than repaired.",
    "technique": "Coq case-exhaustive proofs over the handshake decision functions + adversarial relay scenarios against the real code",
}
