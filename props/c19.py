"""C19 - stream wrappers close their resource exactly once."""
PID = "C19"
RULE = ("a case is a wrapper composition (term over the real constructors, typed so that Go accepts it, every raw resource used "
        "once) plus a sequence of close/closed/other operations addressed to any wrapper object of the composition; depth <= 2 "
        "x sequences up to length 3 exhaustively over a reduced constructor set, random terms to depth 6 and sequences to length 12; "
        "distinct_nontrivial = distinct (term, ops) with at least two close operations")
EXPLANATION = ("Props/C19.v proves, for every composition (any depth) and every operation sequence, at most one Close per raw "
               "resource, exactly one below a closed wrapper, nil on repeats and the closed-status answers; the run compares the "
               "model with the real constructors over counting fakes. Concurrent closes are outside the model.")
TRUSTED = ["the closed flags are plain bools: concurrent double close is the Go memory model's business and is not modelled"]
EXHAUSTIVE = False

# static types: 0 conn, 1 rwc, 2 rc, 3 wc ; conn <= rwc <= rc, wc
def fits(ty, need):
    if need == 0:
        return ty == 0
    if need == 1:
        return ty in (0, 1)
    if need == 2:
        return ty in (0, 1, 2)
    return ty in (0, 1, 3)


def gen_term(rng, depth, need):
    """returns (tokens, type, n_objects_upper_bound)"""
    if depth == 0 or rng.chance(1, 6):
        return ["raw", str(rng.below(2)), str(1 if rng.chance(1, 4) else 0)], 0
    for _ in range(20):
        k = rng.below(5)
        if k == 0:  # safe fl
            fl = rng.below(4)
            if not fits(fl if fl != 0 else 0, need):
                continue
            t, ty = gen_term(rng, depth - 1, fl)
            return ["safe", str(fl)] + t, fl
        if k == 1:
            fl = rng.below(4)
            if not fits(fl, need):
                continue
            t, ty = gen_term(rng, depth - 1, fl)
            return ["named", str(fl)] + t, fl
        if k == 2:
            if not fits(1, need):
                continue
            r, _ = gen_term(rng, depth - 1, 2)
            w, _ = gen_term(rng, depth - 1, 3)
            return ["pair"] + r + w, 1
        if k >= 3:
            t, _ = gen_term(rng, depth - 1, 1)
            return [rng.choice(["sim", "simw"])] + t, 0
    return ["raw", str(rng.below(2)), "0"], 0


def count_objs(toks):
    # upper bound on object count: number of constructor words
    return sum(1 for t in toks if t in ("raw", "safe", "named", "pair", "sim", "simw", "simwc"))


def raw_positions(toks):
    """object indices (creation order, ignoring NewSafe re-use) that are raw resources"""
    # evaluate creation order: post-order over the term
    pos = [0]
    order = []

    def walk():
        t = toks[pos[0]]
        pos[0] += 1
        if t == "raw":
            pos[0] += 2
            order.append("raw")
            return
        if t in ("safe", "named"):
            pos[0] += 1
            walk()
            order.append(t)
            return
        if t == "pair":
            walk()
            walk()
            order.append(t)
            return
        walk()
        order.append(t)
    walk()
    return order


def mk(term, ops, src):
    line = "c19 " + " ".join(term) + " ops " + " ".join("%s %d" % o for o in ops)
    ncl = sum(1 for o in ops if o[0] == "close")
    return {"line": line.strip(), "key": line if ncl >= 2 else None,
            "tags": {"src": src, "nops": len(ops), "ncons": count_objs(term)}}


def all_terms(depth, need):
    if depth == 0:
        for hc in (0, 1):
            for f in (0, 1):
                yield ["raw", str(hc), str(f)], 0
        return
    for t in all_terms(0, need):
        yield t
    for fl in range(4):
        if fits(fl, need):
            for t, _ in all_terms(depth - 1, fl):
                yield ["safe", str(fl)] + t, fl
                yield ["named", str(fl)] + t, fl
    if fits(1, need):
        for r, _ in all_terms(depth - 1, 2):
            for w, _ in all_terms(depth - 1, 3):
                yield ["pair"] + r + w, 1
    for t, _ in all_terms(depth - 1, 1):
        yield ["sim"] + t, 0


def cases(tier, rng):
    cs = []
    thorough = tier == "thorough"
    # exhaustive part: every term of depth <= 2 with single-bit raws restricted for size, every op sequence of length <= 3
    seen = 0
    for t, _ in all_terms(2, 1):
        if not thorough and t.count("raw") > 1 and rng.chance(3, 4):
            continue
        n = count_objs(t)
        opsets = []
        L = 3 if thorough else 2
        targets = list(range(n))
        # skip raws as targets is done below by the harness-independent rule: raws are objects too; find them
        # (approximation: with NewSafe re-use numbering shifts; the model answers 9 for raws/out of range and so does not constrain)
        seqs = [[]]
        for _ in range(L):
            seqs = [s + [(o, k)] for s in seqs for o in ("close", "closed") for k in targets]
            if len(seqs) > 400:
                seqs = [rng.choice(seqs) for _ in range(400)]
            for s in seqs:
                opsets.append(s)
        if len(opsets) > (200 if thorough else 30):
            opsets = [rng.choice(opsets) for _ in range(200 if thorough else 30)]
        for s in opsets:
            cs.append(mk(t, s, "exh"))
        seen += 1
    # a reader+writer pair under one more wrapper: one half is closed on its own (through the object shared with the pair), then the
    # enclosing wrapper; every short sequence over the half objects, the pair and the outer wrapper
    for outer in (["named", "1"], ["safe", "1"], ["sim"], ["simw"]):
        for rs in ("safe", "named"):
            for ws in ("safe", "named"):
                t = outer + ["pair", rs, "2", "raw", "0", "0", ws, "3", "raw", str(rng.below(2)), "0"]
                objs = [1, 3, 4, 5]
                seqs = [[]]
                out = []
                for _ in range(3):
                    seqs = [q + [(o, k)] for q in seqs for o in ("close", "closed") for k in objs]
                    out += seqs
                if not thorough:
                    out = [q for q in out if len(q) <= 2] + [rng.choice(out) for _ in range(40)]
                for q in out:
                    cs.append(mk(t, q, "pair-under-wrapper"))
    # a stream connection whose CARRIER is itself a state-aware wrapper that gets closed on its own, before or after (implementation only:
    # the stream connection owns the stream's resources, not the carrier's; what happens to the carrier changes nothing of it)
    for outer in ([], ["named", "0"], ["safe", "0"], ["named", "0", "safe", "0"]):
        for carrier in (["safe", "0", "raw", "0", "0"], ["named", "0", "raw", "1", "0"], ["named", "0", "safe", "0", "raw", "0", "0"]):
            for stream in (["safe", "1", "raw", "0", "0"], ["named", "1", "raw", "0", "1"], ["raw", "0", "0"]):
                t = outer + ["simwc"] + carrier + stream
                nc = sum(1 for x in carrier if x in ("raw", "safe", "named"))
                ns = sum(1 for x in stream if x in ("raw", "safe", "named"))
                cobj = nc - 1                         # the carrier's outermost object
                w = nc + ns                           # the stream connection
                top = w + len(outer) // 2             # the outermost object
                seqs = [[("close", cobj), ("closed", w), ("closed", top), ("close", top), ("closed", top), ("close", top)],
                        [("closed", top), ("close", cobj), ("close", cobj), ("close", top), ("closed", w)],
                        [("close", top), ("close", cobj), ("closed", top), ("close", top)],
                        [("close", cobj), ("close", w), ("closed", top), ("close", top)]]
                for q in (seqs if thorough else seqs[:2] + [rng.choice(seqs[2:])]):
                    c = mk(t, q, "carrier-closed-on-its-own")
                    c["model"] = False
                    c["key"] = c["line"]
                    c["tags"]["carrier"] = [cobj, w, top]
                    cs.append(c)
    for _ in range(20000 if thorough else 2500):
        d = rng.range(1, 6)
        t, _ = gen_term(rng, d, 1 if rng.chance(1, 2) else rng.below(4))
        n = count_objs(t)
        ops = []
        for _ in range(rng.range(1, 12)):
            o = rng.weighted([("close", 5), ("closed", 4), ("other", 2)])
            ops.append((o, rng.below(n)))
        cs.append(mk(t, ops, "random"))
    return cs


def oracle(case, impl):
    parts = impl.split()
    if not parts or parts[0] in ("panic", "died", "timeout", "harness-error"):
        return [("crash", "wrapper operation crashed: " + impl[:200])]
    i = parts.index("counts")
    res = [int(x) for x in parts[:i]]
    j = parts.index("owns") if "owns" in parts else len(parts)
    counts = [int(x) for x in parts[i + 1:j]]
    owns = {}
    while j < len(parts):
        k, n = int(parts[j + 1]), int(parts[j + 2])
        owns[k] = [int(x) for x in parts[j + 3:j + 3 + n]]
        j += 3 + n
    out = []
    if any(c > 1 for c in counts):
        out.append(("double-close", "an underlying resource was closed %d times: %s" % (max(counts), case["line"][:300])))
    # repeats return nil; closed answers true after a close of the same object
    toks = case["line"].split()
    ops = toks[toks.index("ops") + 1:]
    closed_objs = set()
    for j in range(0, len(ops), 2):
        o, k = ops[j], int(ops[j + 1])
        r = res[j // 2]
        if r in (8, 9):
            continue
        if o == "close":
            if k in closed_objs and r != 0:
                out.append(("repeat-error", "repeated Close returned an error: " + case["line"][:300]))
            closed_objs.add(k)
        elif o == "closed":
            cw = case["tags"].get("carrier")
            if cw and k >= cw[1] and not any(x >= cw[1] for x in closed_objs) and r != 0:
                out.append(("status-true-before-close", "Closed() of a stream connection (or a wrapper around it) true before it was closed - only its carrier was: " + case["line"][:300]))
            if k in closed_objs and r != 1:
                out.append(("status-false-after-close", "Closed() false after Close: " + case["line"][:300]))
            if not closed_objs and r != 0:
                out.append(("status-true-before-close", "Closed() true before any Close: " + case["line"][:300]))
    # a Close on a wrapper closes every raw resource underneath it (whatever else was closed before, through whichever object)
    for k in closed_objs:
        left = [r for r in owns.get(k, []) if r < len(counts) and counts[r] == 0]
        if left:
            out.append(("not-closed", "object %d was closed but raw resource(s) %r underneath it never were: %s" % (k, left, case["line"][:300])))
            break
    return out


def agree(case, impl, model):
    cut = lambda s: s[:s.index(" owns ")] if " owns " in s else s
    return None if cut(impl) == cut(model) else "close-counts"


def shrink(case):
    toks = case["line"].split()
    i = toks.index("ops")
    ops = toks[i + 1:]
    for j in range(0, len(ops), 2):
        yield {"line": " ".join(toks[:i + 1] + ops[:j] + ops[j + 2:]), "tags": case.get("tags", {})}


def distribution(cs):
    d = {}
    for c in cs:
        t = c["tags"]
        k = "%s/cons%d/ops%d" % (t["src"], min(t["ncons"], 8), min(t["nops"], 12))
        d[k] = d.get(k, 0) + 1
    return d


META = {
    "level_text": "Coq theorems over a tree model of the Safe*/Named*/ReadWriteCloser/Simulated/StreamWrapped wrappers: for every "
                  "composition of any depth over tree-shaped resources and every operation sequence, each raw resource sees at most one "
                  "Close, a closed wrapper has closed everything below it, repeats return nil and the status query is false before and "
                  "true after. The model is run against the real constructors over counting fakes on every check.",
    "level_note": "Sequential semantics only (the closed flags are unsynchronised bools); a reader+writer pair over one shared duplex "
                  "resource is outside tree_shaped. Trusted: Coq kernel, extraction, driver, harness fakes.",
    "technique": "Coq invariant proof by induction over the wrapper tree and the operation list + differential correspondence",
}
