"""C15 - one stalled peer cannot block other peers."""
PID = "C15"
RULE = ("server endpoint kinds reachable by a raw peer (socket, StartTLS socket, TLS socket, websocket, TLS websocket, KCP, KCP+StartTLS, DNS tunnel) x stall "
        "points {after connect, inside the first request line, between the two requests, inside a TLS hello / record header, garbage, none} x 2..3 "
        "well-behaved clients arriving meanwhile, each over its own physical session, each bounded by 3 s; plus the variant in which the "
        "stalled peer's handshake reaches its own time limit first")
EXPLANATION = ("Props/C15.v: the accept-loop model one level up (listener loop, handshake inline or spawned - read from the source for the socket "
               "and packet servers; net/http spawns per request). The scenarios stall a raw peer and require other clients to be served.")
TRUSTED = ["net/http's goroutine per request (websocket endpoints)", "the DNS endpoint's sessions are stalled by real tunnel peers over loopback UDP; its housekeeping pass (once a minute) is reached in the thorough tier only"]
RUN_TIMEOUT = 3000


def cases(tier, rng):
    cs = []
    for c in ("tcp", "tcp-starttls", "ws"):
        for st in ("connect", "halfline", "between", "tlshello", "garbage", "none"):
            if c == "ws" and st not in ("connect", "garbage", "none", "halfline"):
                continue
            if st == "tlshello" and c != "tcp-starttls":
                continue
            n = 3 if tier == "thorough" else 2
            line = "c15 %s %s %d" % (c, st, n)
            cs.append({"line": line, "key": line if st != "none" else None, "tags": {"carrier": c, "stall": st}})
    n = 3 if tier == "thorough" else 2
    # endpoints that speak TLS from the first octet, and the packet (KCP) endpoint, with a raw peer of the matching kind
    for c, stalls in (("tcp+tls", ("connect", "tlspartial", "garbage")), ("wss", ("connect", "tlspartial")), ("kcp", ("halfline", "between", "garbage")),
                      ("kcp-starttls", ("tlshello",))):
        for st in stalls:
            line = "c15 %s %s %d" % (c, st, n)
            cs.append({"line": line, "key": line, "tags": {"carrier": c, "stall": st}})
    # the stalled peer's own handshake runs into its time limit (1.5 s here) before the others arrive: they must still be served
    for c, st in (("tcp", "connect"), ("tcp-starttls", "tlshello"), ("tcp+tls", "connect"), ("kcp", "halfline"), ("kcp-starttls", "between"), ("ws", "connect")):
        if tier != "thorough" and c in ("ws", "kcp-starttls"):
            continue
        line = "c15 %s %s %d 1" % (c, st, n)
        cs.append({"line": line, "key": line, "model": False, "tags": {"carrier": c, "stall": st + "+expired"}})
    # twenty peers stalled at the same point at the same time (a bound on pending handshakes must not shut the others out)
    for c, st in (("tcp", "between"), ("kcp", "halfline"), ("tcp+tls", "connect"), ("ws", "connect")):
        if tier != "thorough" and c == "ws":
            continue
        line = "c15 %s %s %d 0 20" % (c, st, n)
        cs.append({"line": line, "key": line, "model": False, "tags": {"carrier": c, "stall": st + "x20"}})
    # ... and three hundred (any fixed number of handshakes in progress would be used up)
    for c, st in ((("tcp", "connect"), ("tcp", "between"), ("ws", "upgraded")) if tier == "thorough" else (("tcp", "between"),)):
        line = "c15 %s %s %d 0 300" % (c, st, n)
        cs.append({"line": line, "key": line, "model": False, "tags": {"carrier": c, "stall": st + "x300"}})
    # what a port scanner sends (a complete request whose first line has one blank) to every kind of endpoint that reads the handshake
    # itself; twenty websocket peers stalled AFTER the websocket upgrade, inside the session handshake
    for c in ("tcp", "kcp", "dns", "tcp-starttls", "kcp-starttls") if tier == "thorough" else ("tcp", "kcp", "dns"):
        line = "c15 %s scanner %d" % (c, n)
        cs.append({"line": line, "key": line, "model": False, "tags": {"carrier": c, "stall": "scanner"}})
    for st in ("upgraded", "upgraded-halfline"):
        if tier != "thorough" and st == "upgraded-halfline":
            continue
        line = "c15 ws %s %d 0 20" % (st, n)
        cs.append({"line": line, "key": line, "model": False, "tags": {"carrier": "ws", "stall": st + "x20"}})
    # a DNS peer whose refusal is queued for it and which then stops polling for good; the server gives up at the handshake limit
    line = "c15 dns between-late %d 1" % n      # silent past the handshake limit after its first request, then its second request
    cs.append({"line": line, "key": line, "model": False, "tags": {"carrier": "dns", "stall": "between-late+expired"}})
    line = "c15 dns garbage-vanish %d 1" % n
    cs.append({"line": line, "key": line, "model": False, "tags": {"carrier": "dns", "stall": "garbage-vanish+expired"}})
    # the DNS endpoint: a tunnel peer of the scenario's own completes the tunnel's negotiation (a session is open on the endpoint) and
    # stalls at a point of the session handshake; five such peers at once; and sessions that outlive the tunnel's idle limit (lowered to
    # 1 s; the thorough tier waits for the endpoint's own housekeeping pass, one minute) - others must be served all the same
    for st in ("connect", "halfline", "between", "garbage"):
        if tier != "thorough" and st in ("between",):
            continue
        line = "c15 dns %s %d" % (st, n)
        cs.append({"line": line, "key": line, "model": False, "tags": {"carrier": "dns", "stall": st}})
    line = "c15 dns halfline %d 0 5" % n
    cs.append({"line": line, "key": line, "model": False, "tags": {"carrier": "dns", "stall": "halflinex5"}})
    for ms in ((1500, 63000) if tier == "thorough" else (1500,)):
        line = "c15 dns connect %d 0 2 %d" % (n, ms)
        cs.append({"line": line, "key": line, "model": False, "tags": {"carrier": "dns", "stall": "connect+stale%d" % ms}})
    return cs


def oracle(case, impl):
    t = case["tags"]
    p = impl.split()
    if not p or p[0] in ("panic", "died", "timeout", "harness-error", "setup"):
        return [("crash;carrier=" + t["carrier"], "scenario crashed: " + impl[:150])]
    if any(r != "ok" for r in p):
        return [("blocked-by-stalled-peer;carrier=%s" % t["carrier"], "a peer stalled at '%s' kept other clients from being served: %s" % (t["stall"], impl))]
    return []


def agree(case, impl, model):
    return None if impl == model else "accept-loop"


META = {
    "level_text": "Partial: Coq theorems over the listener accept-loop model (handshake inline or on its own goroutine, read from the source per "
                  "server kind): with the handshake spawned the loop returns to accepting without any byte from a connected peer. Raw peers "
                  "stalled at five points of the handshake, with well-behaved clients arriving meanwhile, run on socket and websocket endpoints.",
    "level_note": "Go scheduling and kernel accept queues are not modelled; the packet and DNS endpoints are covered by the shape fact and the model.",
    "technique": "Coq proof over an accept-loop transition system + stalled-peer scenarios on loopback",
}
