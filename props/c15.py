"""C15 - one stalled peer cannot block other peers."""
PID = "C15"
RULE = ("server endpoint kinds reachable by a raw peer (socket, StartTLS socket, TLS socket, websocket, TLS websocket, KCP, KCP+StartTLS, DNS tunnel) x stall "
        "points {after connect, inside the first request line, between the two requests, inside a TLS hello / record header, garbage, none} x 2..3 "
        "well-behaved clients arriving meanwhile, each over its own physical session, each bounded by 3 s; plus the variant in which the "
        "stalled peer's handshake reaches its own time limit first; "
        "endpoint scripts (c15m): the real accept loops of SocketServer and PacketServer, net/http with the real EndpointHandler, the real "
        "IoServer and the real AcceptConnection over in-memory listeners and connections (and the servers' own Startup on loopback), x {plain, "
        "TLS from the first octet, certificate or none} x 2..40 peers each following its own plan - well-behaved (with or without StartTLS), "
        "stalled at every point of its handshake (TLS hellos, websocket upgrade included) with or without a fragment sent, slow (every request "
        "in two halves), refused in every way at every point, closing, its own deadline passing - interleaved at random, with accept "
        "errors and Shutdown; distinct_nontrivial = distinct (carrier, stall, n) resp. distinct scripts")
EXPLANATION = ("Props/C15.v: the accept-loop model one level up (listener loop, handshake inline or spawned - read from the source for the socket "
               "and packet servers; net/http spawns per request). The scenarios stall a raw peer and require other clients to be served. "
               "Endpoint model (Mux/Endpoint.v): per peer its connection (open / closed by the server), the deadline on it, the goroutine that sets up "
               "its session with a program counter over the steps of the accept loop's goroutine literal / EndpointHandler / IoServer.Startup, "
               "AcceptConnection, NewServerConnection, handshake and upgrade (TLS hellos included) and what it is blocked on; per endpoint the accept "
               "loop with its program counter; arbitrary schedule and environment (a peer connects, sends a complete message / a fragment / garbage, "
               "closes; the clock passes a deadline; Accept fails; Shutdown). Proved for every event list and any number of peers: the loop is never "
               "blocked on a peer and gives the oldest waiting connection its goroutine with its next step (c15_endpoint_loop_never_blocked, "
               "_accept_serves); FRAME - an event of peer i, its deadline passing included, changes no other peer's record and nothing of the endpoint "
               "(c15_endpoint_frame); INDEPENDENCE - what peer j's session set-up can do next and what becomes of it is a function of j's own record "
               "(c15_endpoint_independent); BOUNDED STALL - a goroutine reads from its peer only under the deadline, and a peer whose deadline has "
               "passed is gone (connection closed, goroutine ended) after three steps of its own goroutine whatever anybody else does "
               "(c15_endpoint_deadline_armed_while_reading, _stall_bounded); a well-behaved peer is established after 6 to 9 steps of its own "
               "goroutine whatever the others do (c15_endpoint_good_peer_completes). Refuted with computed witnesses: the handshake inline, the TLS "
               "handshake on the loop, a lock across the StartTLS handshake, a deadline on the shared socket, a semaphore of n pending handshakes and "
               "a bound of n requests in flight (n = 1..24), no close on a failed handshake, no deadline, deadline not cleared, accept error without "
               "close / ending the loop. The switches are read from the source by role on every run (Gen/EndpointShape.v, one obligation each); the "
               "extracted model follows them and is compared token for token with the real servers (c15m).")
TRUSTED = ["net/http's goroutine per request (websocket endpoints)", "the DNS endpoint's sessions are stalled by real tunnel peers over loopback UDP; its housekeeping pass (once a minute) is reached in the thorough tier only",
           "endpoint model: each statement group of the Go code between two blocking points is one atomic step; a peer's input is a queue of complete "
           "messages plus 'octets that complete nothing'; a deadline that has passed fails a Read at once (net.Conn), and a Write too except through "
           "a websocket (gorilla sets the write deadline anew before every message); crypto/tls's lazy handshake at the first Read, net/http's "
           "per-connection goroutine and its handling of a malformed request (400, close) are modelled as observed, not verified",
           "endpoint scripts: the harness's in-memory listener and connections (they record Close and SetDeadline; the script, not the wall clock, lets a "
           "deadline pass; the loopback variants use the real clock with a 400 ms limit); goroutines are counted from the goroutine profile by "
           "function name under a profiler label; quiescence = every server goroutine blocked in Accept or in a Read on its own peer's connection"]
RUN_TIMEOUT = 3000

from . import ecases as _e


def cases(tier, rng):
    cs = []
    for c in ("tcp", "tcp-starttls", "ws"):
        for st in ("connect", "halfline", "between", "tlshello", "garbage", "none"):
            if c == "ws" and st not in ("connect", "garbage", "none", "halfline"):
                continue
            if st == "tlshello" and c != "tcp-starttls":
                continue
            n = 3 if tier == "thorough" else 2
            line = "c15 %s %s %d" % (c, st, n)
            cs.append({"line": line, "key": line if st != "none" else None, "tags": {"carrier": c, "stall": st}})
    n = 3 if tier == "thorough" else 2
    # endpoints that speak TLS from the first octet, and the packet (KCP) endpoint, with a raw peer of the matching kind
    for c, stalls in (("tcp+tls", ("connect", "tlspartial", "garbage")), ("wss", ("connect", "tlspartial")), ("kcp", ("halfline", "between", "garbage")),
                      ("kcp-starttls", ("tlshello",))):
        for st in stalls:
            line = "c15 %s %s %d" % (c, st, n)
            cs.append({"line": line, "key": line, "tags": {"carrier": c, "stall": st}})
    # the stalled peer's own handshake runs into its time limit (1.5 s here) before the others arrive: they must still be served
    for c, st in (("tcp", "connect"), ("tcp-starttls", "tlshello"), ("tcp+tls", "connect"), ("kcp", "halfline"), ("kcp-starttls", "between"), ("ws", "connect")):
        if tier != "thorough" and (c in ("ws", "kcp-starttls", "tcp-starttls", "tcp+tls")):
            continue       # (quick: the endpoint scripts below let a deadline pass on a StartTLS and on a TLS endpoint, in memory and on loopback)
        line = "c15 %s %s %d 1" % (c, st, n)
        cs.append({"line": line, "key": line, "model": False, "tags": {"carrier": c, "stall": st + "+expired"}})
    # twenty peers stalled at the same point at the same time (a bound on pending handshakes must not shut the others out)
    for c, st in (("tcp", "between"), ("kcp", "halfline"), ("tcp+tls", "connect"), ("ws", "connect")):
        if tier != "thorough" and c == "ws":
            continue
        line = "c15 %s %s %d 0 20" % (c, st, n)
        cs.append({"line": line, "key": line, "model": False, "tags": {"carrier": c, "stall": st + "x20"}})
    # ... and three hundred (any fixed number of handshakes in progress would be used up)
    for c, st in ((("tcp", "connect"), ("tcp", "between"), ("ws", "upgraded")) if tier == "thorough" else (("tcp", "between"),)):
        line = "c15 %s %s %d 0 300" % (c, st, n)
        cs.append({"line": line, "key": line, "model": False, "tags": {"carrier": c, "stall": st + "x300"}})
    # what a port scanner sends (a complete request whose first line has one blank) to every kind of endpoint that reads the handshake
    # itself; twenty websocket peers stalled AFTER the websocket upgrade, inside the session handshake
    for c in ("tcp", "kcp", "dns", "tcp-starttls", "kcp-starttls") if tier == "thorough" else ("tcp", "kcp", "dns"):
        line = "c15 %s scanner %d" % (c, n)
        cs.append({"line": line, "key": line, "model": False, "tags": {"carrier": c, "stall": "scanner"}})
    for st in ("upgraded", "upgraded-halfline"):
        if tier != "thorough" and st == "upgraded-halfline":
            continue
        line = "c15 ws %s %d 0 20" % (st, n)
        cs.append({"line": line, "key": line, "model": False, "tags": {"carrier": "ws", "stall": st + "x20"}})
    # a DNS peer whose refusal is queued for it and which then stops polling for good; the server gives up at the handshake limit
    line = "c15 dns between-late %d 1" % n      # silent past the handshake limit after its first request, then its second request
    cs.append({"line": line, "key": line, "model": False, "tags": {"carrier": "dns", "stall": "between-late+expired"}})
    line = "c15 dns garbage-vanish %d 1" % n
    cs.append({"line": line, "key": line, "model": False, "tags": {"carrier": "dns", "stall": "garbage-vanish+expired"}})
    # the DNS endpoint: a tunnel peer of the scenario's own completes the tunnel's negotiation (a session is open on the endpoint) and
    # stalls at a point of the session handshake; five such peers at once; and sessions that outlive the tunnel's idle limit (lowered to
    # 1 s; the thorough tier waits for the endpoint's own housekeeping pass, one minute) - others must be served all the same
    for st in ("connect", "halfline", "between", "garbage"):
        if tier != "thorough" and st in ("between",):
            continue
        line = "c15 dns %s %d" % (st, n)
        cs.append({"line": line, "key": line, "model": False, "tags": {"carrier": "dns", "stall": st}})
    # ... and while each of the others is connected, a peer on the same host (another source port) sends close requests and garbage data
    # packets under every low session number
    line = "c15 dns stranger %d" % n
    cs.append({"line": line, "key": line, "model": False, "tags": {"carrier": "dns", "stall": "stranger-same-host"}})
    line = "c15 dns halfline %d 0 5" % n
    cs.append({"line": line, "key": line, "model": False, "tags": {"carrier": "dns", "stall": "halflinex5"}})
    for ms in ((1500, 63000) if tier == "thorough" else (1500,)):
        line = "c15 dns connect %d 0 2 %d" % (n, ms)
        cs.append({"line": line, "key": line, "model": False, "tags": {"carrier": "dns", "stall": "connect+stale%d" % ms}})
    # the real accept loops (SocketServer, PacketServer, net/http with the real EndpointHandler), the real IoServer and the real AcceptConnection
    # / NewServerConnection driven peer by peer by scripts of environment events (a peer connects, sends a complete message / a fragment /
    # garbage, closes; the clock passes its deadline; Accept fails; Shutdown), compared token for token with the endpoint model (Mux/Endpoint.v)
    cs += _e.fixed(rng)
    for i in range(400 if tier == "thorough" else 50):
        cs.append(_e.random_case(rng, tier == "thorough"))
    return cs


def oracle(case, impl):
    if case["line"].startswith("c15m "):
        return _e.oracle(case, impl)
    t = case["tags"]
    p = impl.split()
    if not p or p[0] in ("panic", "died", "timeout", "harness-error", "setup"):
        return [("crash;carrier=" + t["carrier"], "scenario crashed: " + impl[:150])]
    if any(r != "ok" for r in p):
        return [("blocked-by-stalled-peer;carrier=%s" % t["carrier"], "a peer stalled at '%s' kept other clients from being served: %s" % (t["stall"], impl))]
    return []


def agree(case, impl, model):
    if case["line"].startswith("c15m "):
        return _e.agree(case, impl, model)
    return None if impl == model else "accept-loop"


def shrink(case):
    if case["line"].startswith("c15m "):
        return _e.shrink(case)
    return iter(())


def distribution(cs):
    d = {}
    for c in cs:
        k = "%s/%s" % (c["tags"].get("carrier", "-"), c["tags"].get("stall", c["tags"].get("src", "-")))
        d[k] = d.get(k, 0) + 1
    return d


META = {
    "level_text": "Partial: Coq theorems over the listener accept-loop model (handshake inline or on its own goroutine, read from the source per "
                  "server kind): with the handshake spawned the loop returns to accepting without any byte from a connected peer. Raw peers "
                  "stalled at five points of the handshake, with well-behaved clients arriving meanwhile, run on socket and websocket endpoints. "
                  "A second model makes every goroutine and resource of the endpoints explicit (accept loop with its program counter; per peer the "
                  "connection, the deadline on it, the goroutine that sets up its session with a program counter over acceptConnection's goroutine / "
                  "EndpointHandler / IoServer.Startup, AcceptConnection, NewServerConnection, handshake, upgrade and the TLS hellos; arbitrary schedule "
                  "and environment): proved for every event list and any number of peers that the loop is never blocked on a peer, that an event of "
                  "one peer - its deadline passing included - changes nothing of another (frame), that a peer's progress depends on its own record "
                  "only (independence), that every read from a peer is under the deadline and a peer whose deadline has passed is gone after three "
                  "steps of its own goroutine, and that a well-behaved peer is established after 6-9 of its own steps whatever the others do; eleven "
                  "defect variants are refuted with computed witnesses. The model's switches are read from the source by role on every run and the "
                  "extracted model is compared token for token with the real accept loops, EndpointHandler, IoServer and AcceptConnection over "
                  "scripted histories.",
    "level_note": "Go scheduling and kernel accept queues are not modelled; crypto/tls, net/http and gorilla/websocket are modelled as observed. The DNS "
                  "endpoint shares the socket server's loop (read from the source) and is exercised by the loopback scenarios only.",
    "technique": "Coq proofs over an accept-loop transition system and over a resource-explicit endpoint model (invariant over all schedules) + scripted "
                 "correspondence with the real servers over in-memory listeners + stalled-peer scenarios on loopback",
}
