"""C13 - DNS tunnel sessions are isolated from each other and from spoofers."""
PID = "C13"
RULE = ("a case is a history against the real ServerDnsListener (fake communicator, real wire packing): version handshakes from 1..6 "
        "addresses, packets with tagged payload, option/probe/close requests, server-side close/queue/read of accepted connections, "
        "slot reuse forced (close lowest, reopen, same and different address), spoof stream (every command x live/retired/free id x "
        "foreign address x arbitrary seq/ack); distinct_nontrivial = distinct histories with >= 2 sessions and a spoof or a close")
EXPLANATION = ("Props/C13.v: distinct ids, spoofed messages rejected without touching the session, closed ids dead, no collateral "
               "termination, over all histories incl. expiry sweeps (the sweep's assignments are read from the source by the translator). "
               "The run compares the model with the real listener and evaluates isolation directly on the observations. The real "
               "sweep goroutine (sleeps one minute) is only exercised in the thorough tier.")
TRUSTED = ["time: lastConnection is not observable in the quick harness (no sweep there); races between onMessage goroutines and the sweep are not modelled"]
RUN_TIMEOUT = 1500


def hx(b):
    return "#" + bytes(b).hex()


NS = 1000000000
CT = 300 * NS


class Mirror:
    """tiny offline mirror used only to generate plausible operations"""

    def __init__(self):
        self.live = {}   # uid -> [serial, addr]
        self.old = {}
        self.n = 0
        self.cseq = {}   # serial -> next client seq
        self.last = {}
        self.now = 0

    def touch(self, uid, a):
        if uid in self.live and self.live[uid][1] == a:
            self.last[self.live[uid][0]] = self.now

    def version(self, a):
        # prefix validate on id 0
        self.touch(0, a)
        if 0 not in self.live and 0 in self.old and self.old[0][1] == a:
            return None
        for i in range(1296):
            if i not in self.live:
                self.live[i] = [self.n, a]
                self.cseq[self.n] = 0
                self.last[self.n] = self.now
                self.n += 1
                return i
        return None

    def close(self, uid, a):
        if uid in self.live and self.live[uid][1] == a:
            self.last[self.live[uid][0]] = self.now
            self.old[uid] = self.live.pop(uid)
            return True
        return False

    def sweep(self):
        for uid, (ser, a) in list(self.live.items()):
            if self.last.get(ser, 0) + CT < self.now:
                self.old[uid] = self.live.pop(uid)
        for uid, (ser, a) in list(self.old.items()):
            if self.last.get(ser, 0) + 6 * CT < self.now:
                self.old.pop(uid)


def gen(rng, n, want_reuse, with_time=False):
    m = Mirror()
    ev = []
    spoof = closes = 0
    owners = {}    # serial -> (uid, addr)
    for _ in range(n):
        if with_time and rng.chance(1, 3):
            m.now += rng.choice([1, 30, 200, 290, 310, 900, 1790, 1810]) * NS
            ev.append("t %d" % m.now)
        if with_time and rng.chance(1, 6):
            m.now += rng.choice([1, 61]) * NS
            ev.append("sweep %d" % m.now)
            m.sweep()
            closes += 1
        r = rng.below(100)
        if r < 14 or not m.live:
            a = rng.range(1, 6)
            u = m.version(a)
            ev.append("ver %d 1" % a)
            if u is not None:
                owners[m.n - 1] = (u, a)
        elif r < 17:
            a = rng.range(1, 6)
            m.touch(0, a)
            ev.append("ver %d 0" % a)
        elif r < 50:
            uid = rng.choice(sorted(m.live))
            ser, a = m.live[uid]
            m.touch(uid, a)
            k = rng.range(0, 3)
            data = bytes((16 * (ser % 14) + rng.below(16)) for _ in range(k))
            has = 1 if k else 0
            sq = m.cseq[ser]
            if has and rng.chance(9, 10):
                m.cseq[ser] = (sq + 1) % 65536
            ev.append("pkt %d %d %d %d %d %s" % (uid, a, rng.choice([65535, 0, 1, rng.below(65536)]), has, sq, hx(data)))
        elif r < 62:
            # spoof: live / retired / free id from a foreign address
            pool = sorted(m.live) + sorted(m.old) + [rng.below(1296)]
            uid = rng.choice(pool)
            owner = (m.live.get(uid) or m.old.get(uid) or [0, 0])[1]
            a = rng.choice([x for x in range(1, 8) if x != owner])
            if owner and rng.chance(1, 3):
                a = owner + 50       # the owner's host, another source port (the harness maps n and n+50 to one IP address)
            kind = rng.choice(["pkt", "cls", "opt", "frag", "up"])
            if kind == "pkt":
                ev.append("pkt %d %d %d 1 %d %s" % (uid, a, rng.choice([0, 0, 1, 1, 2, 3, 65535, rng.below(65536)]), rng.choice([0, 1, 2, rng.below(65536)]), hx(bytes([0xEE, 0xEF]))))
            elif kind == "cls":
                ev.append("cls %d %d" % (uid, a))
            elif kind == "opt":
                ev.append("opt %d %d %d" % (uid, a, rng.range(1, 999)))
            elif kind == "frag":
                ev.append("frag %d %d %d" % (uid, a, rng.range(1, 64)))
            else:
                ev.append("up %d %d" % (uid, a))
            spoof += 1
        elif r < 70:
            uid = min(m.live) if want_reuse or rng.chance(1, 2) else rng.choice(sorted(m.live))
            ser, a = m.live[uid]
            ev.append("cls %d %d" % (uid, a))
            m.close(uid, a)
            closes += 1
        elif r < 78 and m.n:
            k = rng.below(m.n)   # possibly a retired or replaced one: late close
            ev.append("sclose %d" % k)
            if k in owners:
                uid, a = owners[k]
                m.touch(uid, a)      # closeConnection validates (id, address): a successor at the same address is refreshed
                if uid in m.live and m.live[uid][0] == k:
                    m.close(uid, a)
            closes += 1
        elif r < 86 and m.n:
            k = rng.below(m.n)
            ev.append("sq %d %s" % (k, hx(bytes((16 * (k % 14) + rng.below(16)) for _ in range(rng.range(1, 3))))))
        elif r < 94 and m.n:
            ev.append("sread %d" % rng.below(m.n))
        elif r < 97:
            uid = rng.choice(sorted(m.live))
            m.touch(uid, m.live[uid][1])
            ev.append("opt %d %d %d" % (uid, m.live[uid][1], rng.range(1, 999)))
        else:
            a = rng.range(1, 6)
            m.touch(0, a)
            ev.append("down %d" % a)
    for k in range(m.n):
        ev.append("sread %d" % k)
    return ev, m.n, spoof, closes


def mk(ev, nsess, spoof, closes, src):
    line = "c13 " + " ".join(ev)
    return {"line": line, "key": line if (nsess >= 2 and (spoof or closes)) else None,
            "tags": {"src": src, "nsess": nsess, "spoof": spoof, "closes": closes, "len": len(ev)}}


# a retired session expires while a newer session lives in its slot (model-only: the sweep time is chosen)
SWEEP_REUSE = ["t 0", "ver 1 1", "t %d" % (10 * NS), "cls 0 1", "t %d" % (20 * NS), "ver 2 1", "t %d" % (1700 * NS),
               "pkt 0 2 65535 0 0 #", "sweep %d" % (1815 * NS), "pkt 0 2 65535 0 0 #", "sread 1"]
SWEEP_IDLE = ["t 0", "ver 1 1", "ver 2 1", "t %d" % (200 * NS), "pkt 1 2 65535 0 0 #", "sweep %d" % (301 * NS),
              "pkt 0 1 65535 0 0 #", "pkt 1 2 65535 0 0 #"]

# the listener's own sweep goroutine, in real time (thorough tier; about two minutes): history time is mapped 1/40 by the harness.
# Session A (slot 0) is closed and its slot re-used by C; D is left idle; B and C are kept alive just before each sweep. After the
# first sweep A's retired entry and D have expired; C and B must still be served and C's data must be intact.
REAL_SWEEP = ["t 0", "ver 1 1", "ver 2 1", "ver 3 1", "t %d" % (10 * NS), "cls 0 1", "t %d" % (20 * NS), "ver 4 1", "pkt 0 4 65535 1 0 #4041",
              "t %d" % (2300 * NS), "pkt 0 4 65535 0 0 #", "pkt 1 2 65535 0 0 #", "sweep %d" % (2400 * NS),
              "pkt 0 4 65535 1 1 #4243", "pkt 1 2 65535 0 0 #", "pkt 2 3 65535 0 0 #", "pkt 0 1 65535 0 0 #", "sread 3",
              "t %d" % (4700 * NS), "pkt 0 4 65535 0 0 #", "pkt 1 2 65535 0 0 #", "sweep %d" % (4800 * NS), "pkt 0 4 65535 1 2 #44",
              "pkt 1 2 65535 0 0 #", "sread 3", "sread 0", "sread 1", "sread 2"]

CORPUS_LATE_CLOSE = ["ver 2 1", "ver 1 1", "cls 1 1", "ver 1 1", "sclose 1", "pkt 1 1 65535 0 0 #", "sread 2"]


def gen_sweep(rng, n):
    """histories with a clock and expiry sweeps; run on the model only"""
    return gen(rng, n, True, with_time=True)


# every identifier of the table in use at once (1296 sessions from three addresses), one more is refused; then traffic on the last ones
FULL_TABLE = (["ver %d 1" % (1 + i % 3) for i in range(1297)] +
              ["pkt 1295 %d 65535 1 0 #5a5a" % (1 + 1295 % 3), "pkt 0 1 65535 1 0 #4141", "pkt 1294 %d 65535 1 0 #5959" % (1 + 1294 % 3),
               "sread 1295", "sread 0", "sread 1294", "cls 1295 %d" % (1 + 1295 % 3), "ver 2 1", "sread 1296"])


def cases(tier, rng):
    cs = [mk(CORPUS_LATE_CLOSE, 3, 0, 2, "late-close"), mk(FULL_TABLE, 1297, 0, 1, "full-table")]
    for name, h in (("sweep-reuse", SWEEP_REUSE), ("sweep-idle", SWEEP_IDLE)):
        c = mk(h, 2, 0, 1, name)
        c["model_only"] = True
        cs.append(c)
    if tier == "thorough":
        cs.append(mk(REAL_SWEEP, 4, 0, 1, "real-sweep"))
    for i in range(1500 if tier == "thorough" else 150):
        ev, n, sp, cl = gen_sweep(rng, rng.range(3, 40))
        c = mk(ev, n, sp, cl, "sweep-random")
        c["model_only"] = True
        cs.append(c)
    for i in range(4000 if tier == "thorough" else 400):
        ev, n, sp, cl = gen(rng, rng.range(3, 60), rng.chance(1, 2))
        cs.append(mk(ev, n, sp, cl, "random"))
    # the same kind of history over the TCP carrier (a dns+tcp endpoint hands the listener TCP addresses; a stranger on the owner's host
    # has another source port there too)
    for i in range(1000 if tier == "thorough" else 100):
        ev, n, sp, cl = gen(rng, rng.range(3, 60), rng.chance(1, 2))
        c = mk(ev, n, sp, cl, "random-tcp")
        c["line"] = "c13t" + c["line"][3:]
        if c.get("key"):
            c["key"] = c["line"]
        cs.append(c)
    return cs


def events(line):
    t = line.split()[1:]
    i = 0
    ar = {"ver": 3, "pkt": 7, "cls": 3, "opt": 4, "frag": 4, "up": 3, "down": 2, "sclose": 2, "sq": 3, "sread": 2, "sweep": 2, "t": 2}
    while i < len(t):
        n = ar[t[i]]
        yield t[i:i + n]
        i += n


def answers(p):
    """split the observation into per-event answers and the final table"""
    ar = {"v": 2, "e": 2, "p": 4, "ok": 1, "r": 2, "x": 1, "xerr": 1, "xresp": 1}
    i = 0
    out = []
    while i < len(p) and p[i] != "live":
        n = ar.get(p[i])
        if n is None:
            return None, None
        out.append(p[i:i + n])
        i += n
    return out, p[i:]


def oracle(case, impl):
    p = impl.split()
    if not p or p[0] in ("panic", "died", "timeout", "harness-error"):
        return [("crash", "history could not be run: " + impl[:200])]
    ans, fin = answers(p)
    if ans is None:
        return [("crash", "unparsable observation: " + impl[:200])]
    evs_all = list(events(case["line"]))
    evs = [e for e in evs_all if e[0] != "t"]
    if len(ans) != len(evs):
        return [("crash", "observation count mismatch")]
    times = []
    now = 0
    for e in evs_all:
        if e[0] == "t":
            now = int(e[1])
        else:
            if e[0] == "sweep":
                now = int(e[1])
            times.append(now)
    last = {}
    out = []
    live = {}      # uid -> (serial, addr), as observed
    retired = {}   # uid -> (serial, addr)
    nconn = 0
    expect_live = set()
    info = {}      # serial -> (uid, addr)
    sent = {}      # serial -> payloads its own peer sent to it while it was live, in order
    queued = {}    # serial -> payloads the server side queued on it, in order
    for (e, a), now in zip(zip(evs, ans), times):
        k = e[0]
        if k in ("ver", "down"):
            # the dispatch prefix validates identifier 0 for commands without one: refreshes session 0 of the same address
            if 0 in live and live[0][1] == int(e[1]):
                last[live[0][0]] = now
        if k == "sweep":
            for uid, (ser, addr) in list(live.items()):
                if last.get(ser, 0) + CT < now:
                    retired[uid] = live.pop(uid)
                    expect_live.discard(ser)
            for uid, (ser, addr) in list(retired.items()):
                if uid not in live and last.get(ser, 0) + 6 * CT < now:
                    retired.pop(uid)
            continue
        if k == "ver":
            if a[0] == "v":
                uid = int(a[1])
                if uid in live:
                    out.append(("duplicate-id", "a new session got identifier %d, which a live session holds" % uid))
                live[uid] = (nconn, int(e[1]))
                info[nconn] = (uid, int(e[1]))
                sent[nconn] = []
                last[nconn] = now
                expect_live.add(nconn)
                nconn += 1
        elif k in ("pkt", "cls", "opt", "frag", "up"):
            uid, addr = int(e[1]), int(e[2])
            owner = live.get(uid)
            if owner is not None and owner[1] == addr:
                last[owner[0]] = now
                if k == "pkt" and e[4] == "1" and a[0] == "p":
                    sent[owner[0]].append(bytes.fromhex(e[6][1:]))
            if owner is not None and owner[1] != addr:
                if a[0] != "e":
                    out.append(("spoof-accepted", "%s for live id %d from foreign address %d was answered %s" % (k, uid, addr, a[0])))
            if owner is None and a[0] != "e":
                out.append(("dead-id-served", "%s for id %d, which no live session holds, was answered %s" % (k, uid, a[0])))
            if a[0] == "p" and a[3] != "#":
                data = bytes.fromhex(a[3][1:])
                if owner is None or owner[1] != addr or not from_own(data, queued.get(owner[0], [])):
                    out.append(("stream-leak", "downstream bytes %s were handed to (%d, addr %d)" % (a[3], uid, addr)))
            if k == "cls" and a[0] == "ok" and owner is not None and owner[1] == addr:
                retired[uid] = live.pop(uid)
                expect_live.discard(owner[0])
        elif k == "sclose":
            s = int(e[1])
            if s in info:
                # closeConnection validates (id, address) first: whichever live session holds that slot at that address is refreshed
                uid0, addr0 = info[s]
                if uid0 in live and live[uid0][1] == addr0:
                    last[live[uid0][0]] = now
            for uid, (ser, addr) in list(live.items()):
                if ser == s:
                    retired[uid] = live.pop(uid)
                    expect_live.discard(s)
        elif k == "sq":
            if a[0] == "ok":
                queued.setdefault(int(e[1]), []).append(bytes.fromhex(e[2][1:]))
        elif k == "sread":
            s = int(e[1])
            if a[0] == "r" and a[1] != "#":
                data = bytes.fromhex(a[1][1:])
                if not from_own(data, sent.get(s, [])):
                    out.append(("stream-injection", "session %d read bytes %s that its own peer never sent" % (s, a[1])))
    out += frame(case, p, info)
    # no collateral termination: exactly the sessions that were not closed are still live
    if fin and fin[0] == "live":
        n = int(fin[1])
        got = set(int(fin[3 + 2 * i]) for i in range(n))
        if got != expect_live:
            lost = sorted(expect_live - got)
            extra = sorted(got - expect_live)
            if lost:
                out.append(("collateral-termination", "sessions %r are no longer live although only other sessions were closed" % lost))
            if extra:
                out.append(("zombie", "sessions %r are still live after their close" % extra))
    return out


def strip_touched(s):
    i = s.find(" touched ")
    return s if i < 0 else s[:i]


def agree(case, impl, model):
    return None if strip_touched(impl) == strip_touched(model) else "session-table"


def frame(case, p, info):
    """the harness lists (event index, serial) for every accepted session whose table position, sequence numbers, queue length, fragment
    size or closed flag changed during an event. A message may only alter sessions with its own identifier AND address."""
    if "touched" not in p:
        return []
    i = p.index("touched")
    n = int(p[i + 1])
    pairs = [(int(p[i + 2 + 2 * k]), int(p[i + 3 + 2 * k])) for k in range(n)]
    evs = list(events(case["line"]))
    out = []
    for ev, ser in pairs:
        e = evs[ev]
        k = e[0]
        if k in ("sweep", "t"):
            continue
        if k in ("sq", "sread", "sclose"):
            ok = int(e[1]) == ser
        elif k in ("pkt", "cls", "opt", "frag", "up"):
            ok = info.get(ser) == (int(e[1]), int(e[2]))
        else:          # ver, down: carry no identifier; they create sessions but alter none
            ok = False
        if not ok:
            out.append(("foreign-message-altered-session", "event #%d (%s) altered session %d, which has identifier/address %r" % (ev, " ".join(e)[:60], ser, info.get(ser))))
    return out


def from_own(data, payloads):
    """data is a concatenation of a subsequence of the payloads the session's own peer sent (duplicates and refused packets drop out)"""
    reach = {0}
    for pl in payloads:
        if not pl:
            continue
        nxt = set(reach)
        for r in reach:
            if data[r:r + len(pl)] == pl:
                nxt.add(r + len(pl))
        reach = nxt
    return len(data) in reach


def shrink(case):
    evs = list(events(case["line"]))
    for i in range(len(evs) - 1, -1, -1):
        if evs[i][0] != "ver":
            e2 = evs[:i] + evs[i + 1:]
            yield {"line": "c13 " + " ".join(x for e in e2 for x in e), "tags": case.get("tags", {})}


def distribution(cs):
    d = {}
    for c in cs:
        t = c["tags"]
        k = "%s/sess%d/spoof%s/close%s" % (t["src"], min(t["nsess"], 6), "y" if t["spoof"] else "n", "y" if t["closes"] else "n")
        d[k] = d.get(k, 0) + 1
    return d


META = {
    "level_text": "Coq theorems over a pointer-faithful model of the session tables (store + live/retired tables), newUser, "
                  "validateAndGetUser, closeConnection, every request handler's state effect and the expiry sweep (assignments read from the "
                  "source): distinct identifiers, rejection of foreign-address messages with the session untouched, closed identifiers dead, "
                  "and no collateral termination by another session's close or expiry, for all histories. Model run against the real "
                  "ServerDnsListener through real DNS wire packing.",
    "level_note": "Address is the only credential (a same-address peer re-using a retired id is indistinguishable from the owner; the theorems "
                  "carry addr' <> addr as the property does). Unsynchronised accesses in validateAndGetUser vs the sweep goroutine are not modelled. "
                  "The real sweep goroutine is exercised only in the thorough tier.",
    "technique": "Coq invariant proofs over a session-table model with explicit object identity + differential correspondence",
}
