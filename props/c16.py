"""C16 - client connection policy: direct first, ordered failover, reuse, reconnect."""
PID = "C16"
BEH = ["oksecure", "okinsecure", "refused", "hserror", "silent"]
# "stalls": a real server that answers the first handshake message and then never hears the second (the model's "silent" class: no
# handshake completes, the attempt has to be abandoned by its deadline)
RULE = ("[c16] every upstream list of length 1..3 over {reachable+secure, reachable+insecure, refusing, handshake error, silent} (155 lists; length 4 "
        "sampled) x require-security x forward address {none, reachable, refusing}, each with several local connections; session-loss histories "
        "(carrier cut at various points followed by new local connections). Real Socket upstreams against real servers / refusing ports / "
        "silent listeners on loopback, behind counting relays. [c16c] concurrent histories against the real Upstreams object: rounds of k = 1..6 "
        "Connect calls released together by a barrier (channel offered / not offered by the server) separated by carrier cuts, the server going "
        "away and coming back, keep-alive expiry and Shutdown; fixed shapes for every race the model distinguishes plus random histories; the "
        "model answers with every outcome some schedule produces (exhaustive over the schedules of each round). distinct_nontrivial = distinct "
        "cases with a failing upstream, a cut, a refusal or an absence")
EXPLANATION = ("Props/C16.v: direct forward first, first good upstream in list order, one physical session shared by all logical connections, "
               "re-establishment after loss, every attempt bounded (policy model, Mux/Policy.v); and over the faithful concurrent model of "
               "Upstreams.Connect (Mux/Connect.v: goroutines with program counters, the mutex, openStream reading the shared field), for every "
               "schedule and any number of goroutines: lock discipline, a single live session, one replacement per loss, a refusal is local, "
               "concurrent transparent re-establishment on the first good upstream, sequential refinement of the policy model, refuted variants "
               "with witness schedules; the model's shape switches are read from the source (Gen/ConnectShape.v). The run drives the real "
               "listener/upstream code on loopback, sequentially (c16) and in concurrent rounds (c16c).")
TRUSTED = ["the handshake bound is exercised with HandshakeTimeout lowered to 1.5 s (it is a variable; 30 s by default)",
           "a DNS upstream whose retired session had identifier 0 gets BADCONN on reconnecting from the same address (see DESIGN.md); not part of this matrix"]
SHARDS = 4      # harness processes side by side (cases are independent)
RUN_TIMEOUT = 2400


def mk(must, fwd, ups, ops, src):
    line = "c16 %d %s %d %s %s" % (must, fwd, len(ups), " ".join(ups), " ".join(ops))
    nt = any(u not in ("oksecure", "okinsecure") for u in ups) or "cut" in ops
    return {"line": line, "key": line if nt else None, "tags": {"src": src, "must": must, "fwd": fwd, "n": len(ups), "silent": ups.count("silent") + ups.count("stalls")}}


def mkc(must, ups, ops, src):
    """a concurrent history (harness op c16c)"""
    line = "c16c %d %d %s %s" % (must, len(ups), " ".join(ups), " ".join(ops))
    nt = any(u not in ("oksecure", "okinsecure") for u in ups) or any(o in ("cut", "nosvc", "shutdown") or o.startswith("away") for o in ops)
    kmax = 0
    toks = " ".join(ops).split()
    for i, t in enumerate(toks):
        if t == "round":
            kmax = max(kmax, int(toks[i + 1]))
    return {"line": line, "key": line if nt else None, "tags": {"src": src, "must": must, "fwd": "conc", "n": len(ups), "silent": ups.count("silent"), "k": kmax}}


def rnd(k, nos=()):
    return "round %d %s" % (k, " ".join("nosvc" if i in nos else "svc" for i in range(k)))


def concurrent_cases(tier, rng):
    thorough = tier == "thorough"
    cs = []
    shapes = [(0, ["oksecure"]), (0, ["refused", "okinsecure"]), (0, ["hserror", "oksecure"]), (1, ["okinsecure", "oksecure"])]
    ks = (2, 3, 4, 6) if thorough else (3, 6)
    for must, ups in shapes:
        g = len(ups) - 1        # the good upstream
        for k in ks:
            # together at the start; together right after a loss; a refusal among live connections; together while the server is away
            cs.append(mkc(must, ups, [rnd(k)], "c-together"))
            cs.append(mkc(must, ups, [rnd(1), "cut", rnd(k), rnd(2)], "c-together-after-loss"))
            cs.append(mkc(must, ups, [rnd(2), rnd(k, nos=(0, k - 1)), rnd(1)], "c-refusal"))
            cs.append(mkc(must, ups, [rnd(1), "cut", "away %d" % g, rnd(k), rnd(2), "back %d" % g, rnd(k)], "c-away-together"))
        cs.append(mkc(must, ups, [rnd(2), "cut", "expire", rnd(3), rnd(1)], "c-expire"))
        cs.append(mkc(must, ups, [rnd(2), "shutdown", rnd(3, nos=(1,)), rnd(1)], "c-shutdown"))
        cs.append(mkc(must, ups, [rnd(2, nos=(0, 1)), rnd(2)], "c-refusal-first"))
        cs.append(mkc(must, ups, ["away %d" % g, rnd(3), "back %d" % g, rnd(3), "cut", rnd(3, nos=(2,))], "c-away-first"))
    cs.append(mkc(0, ["refused"], [rnd(3), rnd(2, nos=(0,))], "c-none-good"))
    cs.append(mkc(1, ["okinsecure"], [rnd(3), rnd(1)], "c-none-good"))
    cs.append(mkc(1, ["okinsecure", "hserror"], [rnd(2), rnd(2)], "c-none-good"))
    if thorough:
        cs.append(mkc(0, ["silent", "oksecure"], [rnd(3), "cut", rnd(2)], "c-silent"))
    behs = ["oksecure", "okinsecure", "refused", "hserror"]
    for _ in range(150 if thorough else 16):
        ups = [rng.choice(behs) for _ in range(rng.range(1, 3))]
        if not any(u.startswith("ok") for u in ups):
            ups[rng.below(len(ups))] = "oksecure"
        must = rng.below(2)
        ops = []
        lastcut = False
        for _ in range(rng.range(3, 7)):
            o = rng.weighted([("round", 6), ("cut", 3), ("away", 2), ("back", 2), ("expire", 1), ("shutdown", 1)])
            if o == "round":
                k = rng.range(1, 5)
                nos = tuple(i for i in range(k) if rng.chance(1, 5))
                ops.append(rnd(k, nos))
                lastcut = False
            elif o in ("away", "back"):
                ops.append("%s %d" % (o, rng.below(len(ups))))
            elif o == "expire":
                if lastcut:
                    ops.append("expire")
            else:
                ops.append(o)
                lastcut = o == "cut"
        ops.append(rnd(rng.range(1, 4)))
        cs.append(mkc(must, ups, ops, "c-random"))
    return cs


def lists(n):
    if n == 0:
        yield []
        return
    for b in BEH:
        for r in lists(n - 1):
            yield [b] + r


def cases(tier, rng):
    thorough = tier == "thorough"
    cs = []
    alln = [l for n in (1, 2, 3) for l in lists(n)]
    for ups in alln:
        if not thorough and ups.count("silent") > 1:
            continue        # each silent upstream costs the handshake bound (1.5 s)
        if not thorough and len(ups) == 3 and rng.chance(3, 4):
            continue
        for must in (0, 1):
            if not thorough and ups.count("silent") == 1 and (must == 1 or len(ups) == 3) and rng.chance(2, 3):
                continue      # (every connection attempt that meets the silent upstream costs the handshake bound)
            cs.append(mk(must, "none", ups, ["conn", "conn"], "order"))
    for _ in range(120 if thorough else 12):
        ups = [rng.choice(BEH[:4]) for _ in range(4)]
        cs.append(mk(rng.below(2), "none", ups, ["conn", "conn", "conn"], "order4"))
    for ups in (["stalls", "oksecure"], ["stalls", "okinsecure"], ["refused", "stalls", "okinsecure"], ["stalls"]):
        for must in ((0, 1) if thorough else (rng.below(2),)):
            cs.append(mk(must, "none", ups, ["conn", "conn"], "stalls"))
    # several local connections arriving together, at the start and right after a session loss
    for ups in (["oksecure"], ["refused", "okinsecure"], ["hserror", "oksecure"]):
        cs.append(mk(0, "none", ups, ["wait -3", "conn", "conn", "conn", "conn"], "together"))
        cs.append(mk(0, "none", ups, ["conn", "cut", "wait -3", "conn", "conn", "conn", "conn"], "together-after-loss"))
        cs.append(mk(0, "none", ups, ["conn", "conn", "cut", "wait -4", "conn", "conn", "conn", "conn", "cut", "wait -2", "conn", "conn"], "together-after-loss"))
    # the server goes away and comes back (implementation only): while it is away every local connection fails in bounded time -
    # none hangs - and once it is back the next one establishes a new session
    for ups in (["oksecure"], ["refused", "okinsecure"]):
        line_ops = ["conn", "wait -1000", "conn", "conn", "wait -1001", "conn", "conn"]
        c = mk(0, "none", ups, line_ops, "server-away")
        c["model"] = False
        c["tags"]["away"] = True
        cs.append(c)
    # ... and the same with the local connections arriving TOGETHER while the server is away (they all find the session dead; one
    # re-open fails; the others must fail too, not crash) - three rounds, the interleaving is the scheduler's
    for ups in (["oksecure"], ["refused", "okinsecure"]):
        c = mk(0, "none", ups, ["conn", "wait -1000", "wait -4", "conn", "conn", "conn", "conn", "wait -4", "conn", "conn", "conn", "conn", "wait -1001", "conn", "conn"], "server-away-together")
        c["model"] = False
        c["tags"]["away_together"] = True
        cs.append(c)
    # a reachable forward address whose service ends the connection with a reset: the connection was served directly, no upstream is touched
    for ups in (["oksecure"], ["refused", "okinsecure"]):
        c = mk(0, "okrst", ups, ["conn", "conn", "conn"], "forward-reset")
        c["model"] = False
        c["tags"]["fwdrst"] = True
        cs.append(c)
    # a DNS upstream whose tunnel answers while its session layer never does (implementation only: the tunnel's own negotiation runs
    # for real over loopback UDP): it is abandoned at the handshake bound and the next upstream is used
    for ups in (["dnssilent"], ["dnssilent", "oksecure"]):
        c = mk(0, "none", ups, ["conn", "conn"], "dns-silent")
        c["model"] = False
        cs.append(c)
    for fwd in ("ok", "refused"):
        for ups in (["oksecure"], ["refused", "okinsecure"], ["refused"]):
            cs.append(mk(0, fwd, ups, ["conn", "conn"], "forward"))
    # session loss histories
    for _ in range(80 if thorough else 14):
        ups = [rng.choice(["oksecure", "okinsecure", "refused", "hserror"]) for _ in range(rng.range(1, 3))]
        ops = []
        for _ in range(rng.range(2, 7)):
            ops.append(rng.weighted([("conn", 3), ("cut", 1)]))
        if "cut" not in ops:
            ops.insert(1, "cut")
        ops.append("conn")
        cs.append(mk(rng.below(2), "none", ups, ops, "loss"))
    return cs + concurrent_cases(tier, rng)


def good(must, b):
    return b == "oksecure" or (b == "okinsecure" and not must)


def parse_rounds(obs):
    """c16c observation -> list of rounds, each a list of alternatives (results, phys, sid, live_mine, live_old)"""
    p = obs.split()
    rounds = []
    i = 0
    while i < len(p):
        if p[i] != "round":
            return None
        nalt = int(p[i + 1])
        i += 2
        alts = []
        for _ in range(nalt):
            if i >= len(p) or p[i] != "alt":
                return None
            i += 1
            res = []
            while p[i] != "phys":
                res.append(p[i])
                i += 1
            i += 1
            phys = []
            while p[i] != "sid":
                phys.append(int(p[i]))
                i += 1
            sid = p[i + 1]
            if p[i + 2] != "live":
                return None
            alts.append((tuple(res), tuple(phys), sid, int(p[i + 3]), int(p[i + 4])))
            i += 5
        rounds.append(alts)
    return rounds


def oracle_concurrent(case, impl):
    """the property on a concurrent history, from the case line and the implementation's observation alone"""
    toks = case["line"].split()
    must, n = int(toks[1]), int(toks[2])
    ups = toks[3:3 + n]
    ops = toks[3 + n:]
    try:
        rounds = parse_rounds(impl)
    except (ValueError, IndexError):
        rounds = None
    if rounds is None:
        return [("crash", "scenario crashed: " + impl[:200])]
    away = set()
    session = None          # upstream index of the current session, None = no session
    alive = False           # ... and its carrier is up
    kept_alive = 0          # streams handed out since the last cut / Shutdown
    phys = [0 if u in ("oksecure", "okinsecure") else -1 for u in ups]
    out = []
    ri = 0
    i = 0
    while i < len(ops):
        o = ops[i]
        if o == "cut":
            alive, kept_alive = False, 0
            i += 1
        elif o == "shutdown":
            session, alive, kept_alive = None, False, 0
            i += 1
        elif o == "expire":
            i += 1
        elif o in ("away", "back"):
            (away.add if o == "away" else away.discard)(int(ops[i + 1]))
            i += 2
        elif o == "round":
            k = int(ops[i + 1])
            chans = ops[i + 2:i + 2 + k]
            i += 2 + k
            if ri >= len(rounds) or len(rounds[ri]) != 1:
                return [("crash", "observation does not match the history: " + impl[:200])]
            res, ph, sid, lm, lo = rounds[ri][0]
            ri += 1
            where = "round %d of %s" % (ri, case["line"])
            if "hang" in res:
                out.append(("unbounded;concurrent", "a Connect neither returned a stream nor an error (%s): %s" % (where, " ".join(res))))
                return out
            if "panic" in res:
                out.append(("panic;concurrent", "a Connect panicked (%s): %s" % (where, " ".join(res))))
                return out
            nsvc = sum(1 for c in chans if c == "svc")
            reach = [u in ("oksecure", "okinsecure") and j not in away for j, u in enumerate(ups)]
            fg = next((j for j, u in enumerate(ups) if reach[j] and good(must, u)), None)
            had_live = session is not None and alive
            if had_live or fg is not None:
                target = session if had_live else fg
                want = sorted(["up%d" % target] * nsvc) + ["refused"] * (k - nsvc)
                if list(res) != want:
                    ups_got = [r for r in res if r.startswith("up")]
                    if any(r != "up%d" % target for r in ups_got):
                        out.append(("wrong-upstream;concurrent", "%s: expected %s, got %s" % (where, " ".join(want), " ".join(res))))
                    elif had_live:
                        out.append(("live-session-not-used;concurrent", "%s: a live session exists; expected %s, got %s" % (where, " ".join(want), " ".join(res))))
                    else:
                        out.append(("no-reconnect;concurrent" if session is not None else "good-upstream-not-used;concurrent",
                                    "%s: upstream %d is good; expected %s, got %s" % (where, fg, " ".join(want), " ".join(res))))
                if not had_live:
                    for j in range(fg):
                        if reach[j]:
                            phys[j] += 1        # reached, but the session does not meet the security requirement
                    phys[fg] += 1
                    session, alive = fg, True
                if list(ph) != phys:
                    out.append(("session-not-shared;concurrent", "%s: physical connections per upstream %r, one session establishment gives %r" % (where, list(ph), phys)))
                    phys = list(ph)
                if lm < sum(1 for r in res if r.startswith("up")):
                    out.append(("stream-dead-on-return;concurrent", "%s: %d of the streams just returned carry no data" % (where, sum(1 for r in res if r.startswith("up")) - lm)))
                if lo < kept_alive:
                    out.append((("refusal-cut-others;concurrent" if nsvc < k else "live-streams-cut;concurrent"),
                                "%s: %d of %d logical connections opened earlier on the live session stopped carrying data" % (where, kept_alive - lo, kept_alive)))
                if had_live and sid != "same":
                    out.append(("session-replaced-without-loss;concurrent", "%s: the live session was replaced (sid %s)" % (where, sid)))
                kept_alive = lm + min(lo, kept_alive) if had_live else lm
            else:
                bad = [r for r in res if r not in ("openfail", "lost")]
                if bad:
                    out.append(("connected-without-good-upstream;concurrent", "%s: no upstream meets the requirement, got %s" % (where, " ".join(res))))
                for j in range(n):
                    if reach[j] and not (phys[j] + 1 <= ph[j] <= phys[j] + k):
                        out.append(("session-not-shared;concurrent", "%s: upstream %d saw %d physical connections, %d..%d attempts were possible" % (where, j, ph[j], phys[j] + 1, phys[j] + k)))
                    elif not reach[j] and ph[j] != phys[j]:
                        out.append(("session-not-shared;concurrent", "%s: upstream %d cannot be reached but counted %d (was %d)" % (where, j, ph[j], phys[j])))
                phys = list(ph)
                session, alive, kept_alive = None, False, 0
            if out:
                return out
        else:
            return [("crash", "bad case line")]
    return out


def oracle(case, impl):
    p = impl.split()
    if not p or p[0] in ("panic", "died", "timeout", "harness-error"):
        return [("crash", "scenario crashed: " + impl[:200])]
    if case["line"].startswith("c16c "):
        return oracle_concurrent(case, impl)
    toks = case["line"].split()
    must, fwd, n = int(toks[1]), toks[2], int(toks[3])
    ups = toks[4:4 + n]
    ops = [t for t in toks[4 + n:] if t in ("conn", "cut")]
    res = []
    i = 0
    while i < len(p) and p[i] != "phys":
        if p[i] == "up":
            res.append(("up", int(p[i + 1])))
            i += 2
        else:
            res.append((p[i], None))
            i += 1
    phys = [int(x) for x in p[i + 1:]]
    firstgood = next((k for k, b in enumerate(ups) if good(must, b)), None)
    out = []
    if case.get("tags", {}).get("fwdrst"):
        kinds = [k for k, _ in res]
        out = []
        if kinds != ["fwd", "fwd", "fwd"]:
            out.append(("forward-not-first", "the forward address is reachable (its service resets after answering) but the connections went " + " ".join(kinds)))
        if any(x > 0 for x in phys):
            out.append(("upstream-touched-despite-forward", "upstreams were contacted although the connection had been served by the forward address (which ended it with a reset): %r" % phys))
        return out
    if case.get("tags", {}).get("away_together"):
        kinds = [k for k, _ in res]
        if "hang" in kinds:
            return [("unbounded;server-away", "a local connection neither connected nor failed while the server was away or after it came back: " + impl)]
        if kinds[0] != "up" or kinds[1:9] != ["fail"] * 8 or kinds[9:] != ["up", "up"]:
            return [("no-reconnect;server-away", "expected: connected, eight failures while the server was away, connected twice after it came back; got " + impl)]
        return []
    if case.get("tags", {}).get("away"):
        kinds = [k for k, _ in res]
        if "hang" in kinds:
            return [("unbounded;server-away", "a local connection neither connected nor failed while the server was away or after it came back: " + impl)]
        if kinds[0] != "up" or kinds[1:3] != ["fail", "fail"] or kinds[3:] != ["up", "up"]:
            return [("no-reconnect;server-away", "expected: connected, failed twice while the server was away, connected twice after it came back; got " + impl)]
        return []
    conns = [o for o in ops if o == "conn"]
    if len(res) != len(conns):
        return [("crash", "observation count mismatch: " + impl[:200])]
    session_phys_expected = 0
    ri = 0
    lost = True
    for o in ops:
        if o == "cut":
            lost = True
            continue
        kind, idx = res[ri]
        ri += 1
        if kind == "hang":
            out.append(("unbounded;silent=%d" % (ups.count("silent") + ups.count("stalls") + ups.count("dnssilent")), "a local connection neither connected nor failed within the bound: " + case["line"]))
            continue
        if fwd == "ok":
            if kind != "fwd":
                out.append(("forward-not-first", "the forward address is reachable but the connection went %s %s" % (kind, idx)))
            continue
        if kind == "fwd":
            out.append(("forward-phantom", "connection reported as forwarded although no forward address is reachable"))
            continue
        if firstgood is None:
            if kind != "fail":
                out.append(("connected-without-good-upstream", "no upstream meets the requirement but the connection ended as %s %s" % (kind, idx)))
        else:
            if kind == "fail":
                out.append(("no-reconnect" if lost and ri > 1 else "good-upstream-not-used", "upstream %d is good but the local connection failed (%s)" % (firstgood, case["line"])))
            elif idx != firstgood:
                out.append(("wrong-upstream", "settled on upstream %d, the first good one is %d" % (idx, firstgood)))
            if lost:
                session_phys_expected += 1
                lost = False
    if fwd == "ok" and any(x > 0 for x in phys):
        out.append(("upstream-touched-despite-forward", "upstreams were contacted although the forward address was reachable: %r" % phys))
    if firstgood is not None and fwd != "ok" and not out:
        if phys[firstgood] != session_phys_expected:
            out.append(("session-not-shared", "%d physical connections to upstream %d for %d session establishments" % (phys[firstgood], firstgood, session_phys_expected)))
    return out


def agree(case, impl, model):
    if not case["line"].startswith("c16c "):
        return None if impl == model else "policy"
    try:
        ri, rm = parse_rounds(impl), parse_rounds(model)
    except (ValueError, IndexError):
        ri = rm = None
    if ri is None or rm is None or len(ri) != len(rm):
        return "concurrent-outcome"
    if all(len(a) == 1 for a in rm):
        # the model says the outcome does not depend on the schedule: exact comparison
        return None if impl == model else "concurrent-outcome"
    for a, b in zip(ri, rm):
        if len(a) != 1 or a[0] not in b:
            return "concurrent-outcome-set"     # not among the outcomes of any schedule
    return None


def distribution(cs):
    d = {}
    for c in cs:
        t = c.get("tags") or {}
        k = "%s/n%d/must%d/fwd-%s" % (t.get("src", "corpus"), t.get("n", 0), t.get("must", 0), t.get("fwd", "none")) + ("/k%d" % t["k"] if "k" in t else "")
        d[k] = d.get(k, 0) + 1
    return d


META = {
    "level_text": "Coq theorems over two models. (1) The connection policy (HandleConnection / Upstreams.Connect / open as one sequential "
                  "machine): a reachable forward address is used first and no upstream is touched; otherwise the first upstream in list order "
                  "that completes the handshake and meets the security requirement; one physical session for all logical connections; "
                  "re-establishment on the next connection after a loss; every attempt bounded. (2) A faithful concurrent model of "
                  "Upstreams.Connect / open / openStream / Shutdown: any number of goroutines with program counters over the atomic steps "
                  "(Lock, locked region, Unlock, openStream reading the shared field), the mutex, carrier cuts, keep-alive expiry, upstreams "
                  "going away and coming back, refused channels. For EVERY schedule: mutual exclusion and no return with the lock held, the "
                  "holder never waits (lock free after at most two of its own steps); at most one live session, it is the current one; while "
                  "it lives nothing shared moves and every Connect returns a stream of it; sessions established <= 1 + cuts + Shutdowns and at "
                  "most one between two losses however many goroutines notice a loss together; a refused channel changes nothing shared; with "
                  "a good upstream every Connect started after a loss returns a stream of ONE new session on the first good upstream; one "
                  "goroutine at a time the concurrent model equals the policy model; ten variant shapes (lock kept on an error return, lock "
                  "after the check, refusal reported as loss, replacement on any error, no guard, stale error, no nil test, no continue, loss "
                  "not reported) refuted with witness schedules. The model's eleven shape switches are read from the source text on every run. "
                  "Run against real Socket upstreams, servers, refusing ports and silent listeners on loopback: sequential histories, and "
                  "concurrent rounds against the real Upstreams object compared with every outcome the model allows.",
    "level_note": "Relative to: an attempt ends within its deadline (HandshakeTimeout, a variable lowered in the run); smux.Client does not "
                  "fail for the constant configuration; the locked regions are atomic with respect to each other (sync.Mutex) - unlocked "
                  "reads of ul.session by openStream ARE modelled, the Go memory model (a racy read seeing a stale pointer) is not. The "
                  "outcome of a concurrent round is compared exactly where the theorems make it schedule-independent and as membership in "
                  "the enumerated set otherwise (server away: which error each connection gets depends on the schedule).",
    "technique": "Coq proof over a connection-policy state machine and over a small-step concurrent transition system of Connect (invariant "
                 "for all schedules, refinement, refuted variants) + translator readings of the lock/guard/return shape + differential "
                 "correspondence on loopback, sequential and concurrent",
}
