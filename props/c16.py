"""C16 - client connection policy: direct first, ordered failover, reuse, reconnect."""
PID = "C16"
BEH = ["oksecure", "okinsecure", "refused", "hserror", "silent"]
# "stalls": a real server that answers the first handshake message and then never hears the second (the model's "silent" class: no
# handshake completes, the attempt has to be abandoned by its deadline)
RULE = ("every upstream list of length 1..3 over {reachable+secure, reachable+insecure, refusing, handshake error, silent} (155 lists; length 4 "
        "sampled) x require-security x forward address {none, reachable, refusing}, each with several local connections; session-loss histories "
        "(carrier cut at various points followed by new local connections). Real Socket upstreams against real servers / refusing ports / "
        "silent listeners on loopback, behind counting relays. distinct_nontrivial = distinct cases with a failing upstream or a cut")
EXPLANATION = ("Props/C16.v: direct forward first, first good upstream in list order, one physical session shared by all logical connections, "
               "re-establishment after loss, every attempt bounded; the run drives the real listener/upstream code on loopback.")
TRUSTED = ["the handshake bound is exercised with HandshakeTimeout lowered to 1.5 s (it is a variable; 30 s by default)",
           "a DNS upstream whose retired session had identifier 0 gets BADCONN on reconnecting from the same address (see DESIGN.md); not part of this matrix"]
SHARDS = 4      # harness processes side by side (cases are independent)
RUN_TIMEOUT = 2400


def mk(must, fwd, ups, ops, src):
    line = "c16 %d %s %d %s %s" % (must, fwd, len(ups), " ".join(ups), " ".join(ops))
    nt = any(u not in ("oksecure", "okinsecure") for u in ups) or "cut" in ops
    return {"line": line, "key": line if nt else None, "tags": {"src": src, "must": must, "fwd": fwd, "n": len(ups), "silent": ups.count("silent") + ups.count("stalls")}}


def lists(n):
    if n == 0:
        yield []
        return
    for b in BEH:
        for r in lists(n - 1):
            yield [b] + r


def cases(tier, rng):
    thorough = tier == "thorough"
    cs = []
    alln = [l for n in (1, 2, 3) for l in lists(n)]
    for ups in alln:
        if not thorough and ups.count("silent") > 1:
            continue        # each silent upstream costs the handshake bound (1.5 s)
        if not thorough and len(ups) == 3 and rng.chance(3, 4):
            continue
        for must in (0, 1):
            if not thorough and ups.count("silent") == 1 and (must == 1 or len(ups) == 3) and rng.chance(2, 3):
                continue      # (every connection attempt that meets the silent upstream costs the handshake bound)
            cs.append(mk(must, "none", ups, ["conn", "conn"], "order"))
    for _ in range(120 if thorough else 12):
        ups = [rng.choice(BEH[:4]) for _ in range(4)]
        cs.append(mk(rng.below(2), "none", ups, ["conn", "conn", "conn"], "order4"))
    for ups in (["stalls", "oksecure"], ["stalls", "okinsecure"], ["refused", "stalls", "okinsecure"], ["stalls"]):
        for must in ((0, 1) if thorough else (rng.below(2),)):
            cs.append(mk(must, "none", ups, ["conn", "conn"], "stalls"))
    # several local connections arriving together, at the start and right after a session loss
    for ups in (["oksecure"], ["refused", "okinsecure"], ["hserror", "oksecure"]):
        cs.append(mk(0, "none", ups, ["wait -3", "conn", "conn", "conn", "conn"], "together"))
        cs.append(mk(0, "none", ups, ["conn", "cut", "wait -3", "conn", "conn", "conn", "conn"], "together-after-loss"))
        cs.append(mk(0, "none", ups, ["conn", "conn", "cut", "wait -4", "conn", "conn", "conn", "conn", "cut", "wait -2", "conn", "conn"], "together-after-loss"))
    # the server goes away and comes back (implementation only): while it is away every local connection fails in bounded time -
    # none hangs - and once it is back the next one establishes a new session
    for ups in (["oksecure"], ["refused", "okinsecure"]):
        line_ops = ["conn", "wait -1000", "conn", "conn", "wait -1001", "conn", "conn"]
        c = mk(0, "none", ups, line_ops, "server-away")
        c["model"] = False
        c["tags"]["away"] = True
        cs.append(c)
    # ... and the same with the local connections arriving TOGETHER while the server is away (they all find the session dead; one
    # re-open fails; the others must fail too, not crash) - three rounds, the interleaving is the scheduler's
    for ups in (["oksecure"], ["refused", "okinsecure"]):
        c = mk(0, "none", ups, ["conn", "wait -1000", "wait -4", "conn", "conn", "conn", "conn", "wait -4", "conn", "conn", "conn", "conn", "wait -1001", "conn", "conn"], "server-away-together")
        c["model"] = False
        c["tags"]["away_together"] = True
        cs.append(c)
    # a DNS upstream whose tunnel answers while its session layer never does (implementation only: the tunnel's own negotiation runs
    # for real over loopback UDP): it is abandoned at the handshake bound and the next upstream is used
    for ups in (["dnssilent"], ["dnssilent", "oksecure"]):
        c = mk(0, "none", ups, ["conn", "conn"], "dns-silent")
        c["model"] = False
        cs.append(c)
    for fwd in ("ok", "refused"):
        for ups in (["oksecure"], ["refused", "okinsecure"], ["refused"]):
            cs.append(mk(0, fwd, ups, ["conn", "conn"], "forward"))
    # session loss histories
    for _ in range(80 if thorough else 14):
        ups = [rng.choice(["oksecure", "okinsecure", "refused", "hserror"]) for _ in range(rng.range(1, 3))]
        ops = []
        for _ in range(rng.range(2, 7)):
            ops.append(rng.weighted([("conn", 3), ("cut", 1)]))
        if "cut" not in ops:
            ops.insert(1, "cut")
        ops.append("conn")
        cs.append(mk(rng.below(2), "none", ups, ops, "loss"))
    return cs


def good(must, b):
    return b == "oksecure" or (b == "okinsecure" and not must)


def oracle(case, impl):
    p = impl.split()
    if not p or p[0] in ("panic", "died", "timeout", "harness-error"):
        return [("crash", "scenario crashed: " + impl[:200])]
    toks = case["line"].split()
    must, fwd, n = int(toks[1]), toks[2], int(toks[3])
    ups = toks[4:4 + n]
    ops = [t for t in toks[4 + n:] if t in ("conn", "cut")]
    res = []
    i = 0
    while i < len(p) and p[i] != "phys":
        if p[i] == "up":
            res.append(("up", int(p[i + 1])))
            i += 2
        else:
            res.append((p[i], None))
            i += 1
    phys = [int(x) for x in p[i + 1:]]
    firstgood = next((k for k, b in enumerate(ups) if good(must, b)), None)
    out = []
    if case.get("tags", {}).get("away_together"):
        kinds = [k for k, _ in res]
        if "hang" in kinds:
            return [("unbounded;server-away", "a local connection neither connected nor failed while the server was away or after it came back: " + impl)]
        if kinds[0] != "up" or kinds[1:9] != ["fail"] * 8 or kinds[9:] != ["up", "up"]:
            return [("no-reconnect;server-away", "expected: connected, eight failures while the server was away, connected twice after it came back; got " + impl)]
        return []
    if case.get("tags", {}).get("away"):
        kinds = [k for k, _ in res]
        if "hang" in kinds:
            return [("unbounded;server-away", "a local connection neither connected nor failed while the server was away or after it came back: " + impl)]
        if kinds[0] != "up" or kinds[1:3] != ["fail", "fail"] or kinds[3:] != ["up", "up"]:
            return [("no-reconnect;server-away", "expected: connected, failed twice while the server was away, connected twice after it came back; got " + impl)]
        return []
    conns = [o for o in ops if o == "conn"]
    if len(res) != len(conns):
        return [("crash", "observation count mismatch: " + impl[:200])]
    session_phys_expected = 0
    ri = 0
    lost = True
    for o in ops:
        if o == "cut":
            lost = True
            continue
        kind, idx = res[ri]
        ri += 1
        if kind == "hang":
            out.append(("unbounded;silent=%d" % (ups.count("silent") + ups.count("stalls") + ups.count("dnssilent")), "a local connection neither connected nor failed within the bound: " + case["line"]))
            continue
        if fwd == "ok":
            if kind != "fwd":
                out.append(("forward-not-first", "the forward address is reachable but the connection went %s %s" % (kind, idx)))
            continue
        if kind == "fwd":
            out.append(("forward-phantom", "connection reported as forwarded although no forward address is reachable"))
            continue
        if firstgood is None:
            if kind != "fail":
                out.append(("connected-without-good-upstream", "no upstream meets the requirement but the connection ended as %s %s" % (kind, idx)))
        else:
            if kind == "fail":
                out.append(("no-reconnect" if lost and ri > 1 else "good-upstream-not-used", "upstream %d is good but the local connection failed (%s)" % (firstgood, case["line"])))
            elif idx != firstgood:
                out.append(("wrong-upstream", "settled on upstream %d, the first good one is %d" % (idx, firstgood)))
            if lost:
                session_phys_expected += 1
                lost = False
    if fwd == "ok" and any(x > 0 for x in phys):
        out.append(("upstream-touched-despite-forward", "upstreams were contacted although the forward address was reachable: %r" % phys))
    if firstgood is not None and fwd != "ok" and not out:
        if phys[firstgood] != session_phys_expected:
            out.append(("session-not-shared", "%d physical connections to upstream %d for %d session establishments" % (phys[firstgood], firstgood, session_phys_expected)))
    return out


def agree(case, impl, model):
    return None if impl == model else "policy"


def distribution(cs):
    d = {}
    for c in cs:
        t = c["tags"]
        k = "%s/n%d/must%d/fwd-%s" % (t["src"], t["n"], t["must"], t["fwd"])
        d[k] = d.get(k, 0) + 1
    return d


META = {
    "level_text": "Coq theorems over a model of HandleConnection / Upstreams.Connect / open: a reachable forward address is used first and no "
                  "upstream is touched; otherwise the first upstream in list order that completes the handshake and meets the security "
                  "requirement; one physical session for all logical connections; re-establishment on the next connection after a loss; "
                  "every attempt bounded. Run against real Socket upstreams, servers, refusing ports and silent listeners on loopback.",
    "level_note": "The silent peer is bounded by the handshake deadline (variable HandshakeTimeout, lowered in the run). Concurrency of several "
                  "local connections racing for the upstream lock is exercised in C02/C14, not modelled here.",
    "technique": "Coq proof over a connection-policy state machine + differential correspondence on loopback",
}
