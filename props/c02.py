"""C02 - multiplexed logical connections are isolated and independent."""
PID = "C02"
RULE = ("k = 2..5 logical connections over one physical session per carrier; the first is opened and then idles / has a slow reader holding "
        "1 MiB unread / is closed / is busy; every further connection must open and echo its own tagged payload within 3 s; "
        "handler scripts (c02h): the real per-session handler, alone and behind the real client, over an in-memory carrier with recording "
        "channels - several connections, one ended in every way (application, target, target failure, dial failing at once or late with a "
        "newer connection open, refusal, stream dropped before selection, slow dial, 300 refusals), the others probed for data, goroutines, "
        "stream and target connection; distinct_nontrivial = distinct (carrier, k, scenario) resp. distinct scripts")
EXPLANATION = ("Props/C02.v: with the handler on its own goroutine (read from the source) a pending stream is served after loop steps alone; "
               "inline handling is refuted by witness. Isolation of bytes rests on the multiplexer's per-stream FIFO (hypothesis), exercised "
               "here with per-connection tags. The smux open race (server-first multistream header vs late stream registration) is a known "
               "finding pinned by 20 ms of server->client latency in other checks. "
               "Handler model (Mux/Handler.v, shared with C14): every stream, target connection, goroutine (accept loop, one handler per stream, two copy "
               "loops per piped connection) and report channel explicit, program counters over the statements of acceptStream / multiplexToUpstream / "
               "muxHandler / PipeData, arbitrary schedule and environment. Proved for every event list: FRAME - an event of connection i changes no other "
               "connection's record and no session state, and every close ever made was made by the owner of what it closed (c02_handler_frame, "
               "c02_handler_closes_are_own); INDEPENDENCE - what connection j can do next and what becomes of it is a function of j's own record and the "
               "session's fate only (c02_handler_independent), and the accept loop takes up the oldest waiting stream with its next step whatever the "
               "others do (c02_handler_accept_serves). Refuted with computed witnesses: the error path closing a variable shared by all iterations (a "
               "healthy newer connection torn down by a late dial failure), a session-wide lock around the dial, a slot semaphore leaked on error "
               "returns. The switches (which variable the error path closes, the deferred close, lock, semaphore, close mapping of PipeData, channel "
               "capacities) are read from the source by role on every run (Gen/HandlerShape.v); the extracted model follows them and is compared token "
               "for token with the real handler (c02h raw) and with the real client in front of it (c02h cli).")
TRUSTED = ["xtaci/smux per-stream FIFO and flow control: hypothesis, exercised only", "Go scheduler fairness",
           "handler model: each statement group of the Go code is one atomic step; a stream end's Read gives buffered data, then the peer's end-of-stream, then the "
           "session's error (as smux v1.5.14 does); payload is counted in chunks; go-multistream's negotiation is the two steps Peek / read a proposal",
           "goroutines of a case are counted from the goroutine profile by function name (acceptStream, its per-stream literal, pipeData, listener.HandleConnection) "
           "under a profiler label"]
RUN_TIMEOUT = 3000
CARRIERS = ["tcp", "tcp-starttls", "ws", "stdio", "kcp"]

from . import hcases as _h


def cases(tier, rng):
    cs = []
    thorough = tier == "thorough"
    for c in (CARRIERS + ["unix", "wss", "tcp+tls", "dns"] if thorough else CARRIERS):
        for sc in ("idle-first", "slow-reader", "close-first", "all-busy"):
            if not thorough and c != "tcp" and sc in ("close-first", "all-busy") and rng.chance(1, 2):
                continue
            k = rng.range(2, 5) if thorough else rng.range(2, 3)
            line = "c02 %s %d %s" % (c, k, sc)
            cs.append({"line": line, "key": line, "tags": {"carrier": c, "k": k, "sc": sc}})
    # scenarios that run on the implementation only (the property is evaluated on what they observe):
    #  stall-up / stall-down: one connection holds 3 MiB unread inside the tunnel (its target is a synchronous pipe), below the shared 4 MiB
    #  other-refused: another application asks for a channel the server does not offer while a transfer is under way
    #  raw-idle: a stream that was opened and has not sent its first octet yet (a peer of the harness's own making, socket carriers)
    for c in (CARRIERS + ["unix", "wss", "tcp+tls"] if thorough else ["tcp", "ws", "kcp"]):
        for sc in ("stall-up", "stall-down", "other-refused", "other-fails-late", "other-dials-slowly", "many-refused", "many-open", "unix-listener"):
            if not thorough and c != "tcp" and sc != "stall-up":
                continue
            if sc in ("many-refused", "many-open", "unix-listener") and c not in ("tcp", "ws"):
                continue
            line = "c02 %s 3 %s" % (c, sc)
            cs.append({"line": line, "key": line, "model": False, "tags": {"carrier": c, "k": 3, "sc": sc}})
    for c in (["tcp", "tcp-starttls"] if thorough else ["tcp"]):
        line = "c02 %s 3 raw-idle" % c
        cs.append({"line": line, "key": line, "model": False, "tags": {"carrier": c, "k": 3, "sc": "raw-idle"}})
    # bytes never cross: several connections transferring their own patterns both ways at the same time, with one and two scheduler threads
    for c, k, n, procs in ([("tcp", 4, 4000000, 1), ("tcp", 8, 2000000, 1), ("ws", 4, 2000000, 2)] + ([("kcp", 4, 500000, 1), ("stdio", 4, 1000000, 2), ("tcp", 8, 500000, 1)] if thorough else [])):
        line = "c01par %s %d %d %d" % (c, k, n, procs)
        cs.append({"line": line, "key": line, "model": False, "tags": {"carrier": c, "k": k, "sc": "parallel", "n": n}})
    for c, k, n, procs in [("tcp", 4, 600000, 1), ("tcp", 4, 600000, 2)]:      # ... and in the copy loops' logging variant
        line = "c01par %s %d %d %d debug" % (c, k, n, procs)
        cs.append({"line": line, "key": line, "model": False, "tags": {"carrier": c, "k": k, "sc": "parallel-debug", "n": n}})
    # the session is lost (its carrier cut without the connection being marked closed) and several applications connect at the same time:
    # each gets a connection that carries data - none is ended by the reconnection another one triggers (harness op c16c, see C16)
    for line in ("c16c 0 1 okinsecure round 1 svc cut round 4 svc svc svc svc round 2 svc svc",
                 "c16c 0 2 okinsecure okinsecure round 2 svc svc cut round 6 svc svc svc svc svc svc cut round 3 svc svc svc",
                 "c16c 0 1 okinsecure round 2 svc svc cut round 2 svc svc cut round 2 svc svc cut round 5 svc svc svc svc svc"):
        cs.append({"line": line, "key": line, "model": False, "tags": {"carrier": "tcp", "k": 6, "sc": "reconnect-together"}})
    # the real per-session handler (and the real client in front of it) over an in-memory carrier, driven by scripts of environment events and
    # compared token for token with the handler model (Mux/Handler.v): one connection ends in every way - closed by the application, by the
    # target, target failure, dial failing at once or late while a NEWER connection is open, channel refused, stream dropped before selection,
    # a slow dial - while its neighbours must go on carrying data, keep their goroutines, their stream and their target connection
    cs += _h.fixed_isolation() + _h.fixed_cli_isolation()
    cs.append(_h.raw_case(["oi", "mr", 300, "oi", "pr", "gq"], "isolation"))      # 300 error-terminated connections, then one more
    for i in range(150 if thorough else 14):
        cs.append(_h.raw_case(_h.random_script(rng, 16 if thorough else 12, False), "random"))
    for i in range(100 if thorough else 8):
        cs.append(_h.cli_case(_h.random_cli_script(rng, 14 if thorough else 10, i % 4 == 3), "random"))
    return cs


def oracle(case, impl):
    if case["line"].startswith("c02h "):
        return _h.oracle(case, impl, "isolation")
    t = case["tags"]
    p = impl.split()
    if t["sc"] == "reconnect-together":
        from . import c16 as _c16
        mine = ("stream-dead-on-return", "refusal-cut-others", "live-streams-cut", "no-reconnect", "unbounded", "panic", "crash")
        return [("disturbed-by-other-connection;scenario=reconnect-together;" + sig.split(";")[0], text)
                for sig, text in _c16.oracle_concurrent(case, impl) if sig.split(";")[0] in mine]
    if t["sc"] in ("parallel", "parallel-debug"):
        if not p or p[0] != "c":
            return [("crash;carrier=" + t["carrier"], "scenario crashed: " + impl[:150])]
        out = []
        for part in impl.split(" c "):
            w = part.split()
            if w[0] == "c":
                w = w[1:]
            for d, got, diff in (("up", int(w[2]), int(w[3])), ("down", int(w[5]), int(w[6]))):
                if diff != -1 and diff < got:
                    out.append(("bytes-crossed;carrier=" + t["carrier"], "connection %s of %d concurrent ones received foreign or altered octets %s at offset %d (%s)" % (w[0], t["k"], d, diff, case["line"])))
                elif got != t["n"]:
                    out.append(("starved-by-others;carrier=" + t["carrier"], "connection %s of %d concurrent ones received %d of %d octets %s (%s)" % (w[0], t["k"], got, t["n"], d, case["line"])))
        return out[:3]
    if not p or p[0] in ("panic", "died", "timeout", "harness-error", "setup"):
        return [("crash;carrier=" + t["carrier"], "scenario crashed: " + impl[:150])]
    if "first-half" in p or "second-half" in p:
        return [("disturbed-by-other-connection;scenario=" + t["sc"], "a transfer was cut when another logical connection was refused or failed (%s): %s" % (t["sc"], impl[:100]))]
    if p[:2] != ["open1", "ok"]:
        return [("no-connection;carrier=" + t["carrier"], "the first logical connection could not be opened")]
    out = []
    res = p[2:p.index("iso")]
    if any(r != "ok" for r in res):
        bad = [r for r in res if r != "ok"]
        if "crossed" in bad:
            out.append(("bytes-crossed", "bytes of one logical connection appeared on another: " + case["line"]))
        else:
            out.append(("blocked-by-other;scenario=" + t["sc"], "a logical connection made no progress while another was %s (%s): %s" % (t["sc"], bad[0], case["line"])))
    if p[p.index("iso") + 1] != "1":
        out.append(("bytes-crossed", "bytes of one logical connection appeared on another"))
    return out


def shrink(case):
    if case["line"].startswith("c02h "):
        return _h.shrink(case)
    return iter(())


def agree(case, impl, model):
    if case["line"].startswith("c02h "):
        return _h.agree(case, impl, model)
    return None if impl == model else "independence"


def distribution(cs):
    d = {}
    for c in cs:
        k = "%s/%s" % (c["tags"].get("carrier", "memory"), c["tags"].get("sc", c["tags"].get("src", "-")))
        d[k] = d.get(k, 0) + 1
    return d


META = {
    "level_text": "Partial: Coq theorems over a model of the per-session accept loop (handler inline or on its own goroutine - read from the "
                  "source): with a goroutine per stream every pending logical connection is served after steps of the loop alone, whatever the "
                  "others do; inline handling is refuted. Scenarios with idle, slow, closing and busy neighbours run on several carriers. "
                  "A second model makes every resource of the per-session handler and of the piping of one logical connection explicit (streams, target "
                  "connections, accept loop, handler goroutine and two copy loops per connection, report channels; program counters over the Go "
                  "statements; arbitrary schedule and environment): proved for every event list that an event of one connection changes nothing that "
                  "belongs to another (frame), that every close was made by the owner of what it closed, and that a connection's next steps depend "
                  "on its own record and the session's fate only (independence); the shared-variable close, a session-wide dial lock and a leaked slot "
                  "semaphore are refuted with computed witnesses. The model's switches are read from the source by role on every run and the extracted "
                  "model is compared token for token with the real handler and the real client over scripted histories.",
    "level_note": "Byte isolation across streams is smux's per-stream FIFO (hypothesis, exercised with tagged payloads). Scheduler fairness and "
                  "flow control are not modelled. Known finding: the stream-open race between smux and server-first multistream.",
    "technique": "Coq proofs over an accept-loop transition system and over a resource-explicit handler model (invariant over all schedules) + scripted "
                 "correspondence with the real handler and client + concurrent end-to-end scenarios",
}
