"""C14 - resources are reclaimed when connections end."""
PID = "C14"
RULE = ("N and 2N sequential or overlapping logical connections (application or target closing first) through an in-process pair, goroutines and "
        "file descriptors counted at quiescent points before, after N and after 2N; then the physical session is ended by a carrier cut or by "
        "a garbage frame and the process's CPU time over an idle second is measured; handler scripts (c02h): the real per-session handler, alone "
        "and behind the real client, over an in-memory carrier - connections ending in every way and combination, the session ending by cut, garbage "
        "or orderly close with connections in every state (piping, dial pending, silent, refused and left open), goroutines counted per kind at "
        "quiescent points, every stream, local connection and target connection checked for having been closed; "
        "distinct_nontrivial = distinct (carrier, N, mode) resp. distinct scripts")
EXPLANATION_DNS = (" DNS tunnel connection (Queue/Close.v, shared with C17): in every reachable state a closed end has no reader parked on it - "
                   "whichever operation closed it released the reader in the same step; the shapes without in.Close() in closeConnection, in the "
                   "sweep and in the client's Close are refuted for every continuation. The same for a writer parked in Write (waiting for the "
                   "acknowledgement of what is queued): released by the Close of the out-queue at the same three places; the code before that "
                   "repair is refuted for every continuation. Run against the real objects (c17q, c17p).")
EXPLANATION = ("Props/C14.v: every PipeData execution ends with all three goroutines returned when the result channels have room for one value "
               "(capacities read from the source; the unbuffered variant is refuted by witness), and the accept loop exits on a dead session "
               "unless errors are answered with continue (read from the source). The scenarios measure growth per connection and idle CPU. "
               "Handler model (Mux/Handler.v, shared with C02; every stream, target connection, goroutine and report channel explicit, arbitrary schedule "
               "and environment). Proved for every event list: a logical connection that is over (either side hung up or failed, session death, failed "
               "dial, refusal), with no dial in flight and none of its goroutines able to step, has its handler returned, no copy loop left (none blocked "
               "on a report channel), its stream closed and its target connection closed (in a shape where muxHandler did not close it itself - the code "
               "before 1ffd47e - it could be held only when the target hung up first: c14_handler_connection_reclaimed, "
               "c14_handler_target_left_only_after_target_eof); after the session has "
               "died in any manner with any number of connections in any states, at quiescence the accept loop has exited and the footprint is zero "
               "(c14_handler_session_reclaimed); a terminal accept error ends the loop with its next step and an ended loop never steps again "
               "(c14_handler_accept_exits, c14_handler_no_busy_loop); on the client, listener.HandleConnection - through the tunnel and piped directly to a "
               "forward address alike - leaves both ends closed and no goroutine (c14_client_reclaimed). Refuted with computed witnesses: the upstream "
               "side closed only on io.EOF, unbuffered report channels, continue on a terminal error (for every n), a refused stream left open (client "
               "and server view), ConnectDirectly closing nothing after its pipe (the end whose own peer hung up first stays open for every "
               "continuation), the wrong side closed (shows where nothing is closed after the pipe), the leaked slot. Switches read from the source by role (Gen/HandlerShape.v); compared token for token with the real code (c02h raw / cli).") + EXPLANATION_DNS
TRUSTED = ["runtime.NumGoroutine / getrusage / /proc/self/fd as measurements", "kernel socket states (TIME_WAIT) are not observed",
           "DNS close model (Queue/Close.v): one reader and one writer per end, operations atomic; acknowledgements are events of the environment",
           "handler model: each statement group of the Go code is one atomic step; stream reads as smux v1.5.14 orders them (buffered data, peer's end-of-stream, "
           "session error); a dial or a channel selection still in flight keeps its goroutine (hypotheses dial_settled / l_settled)",
           "whether socketace still holds its end of a direct-forward TCP connection after the forward target hung up is read once from /proc/net/tcp (state CLOSE_WAIT)",
           "goroutines of a case are counted from the goroutine profile by function name under a profiler label"]
RUN_TIMEOUT = 3000

from . import c17 as _c17
from . import hcases as _h


def cases(tier, rng):
    cs = []
    thorough = tier == "thorough"
    n = 50 if thorough else 15
    for c in (["tcp", "ws", "stdio", "kcp", "tcp-starttls"] if thorough else ["tcp", "ws"]):
        for mode in ("app-closes", "target-closes", "overlap", "cut", "garbage"):
            if c in ("stdio", "kcp") and mode in ("cut", "garbage"):
                continue      # no TCP relay to cut on these carriers
            line = "c14 %s %d %s" % (c, n, mode)
            cs.append({"line": line, "key": line, "tags": {"carrier": c, "n": n, "mode": mode}})
    # run on the implementation only: the service hangs up and the application waits to be told (tunnel and direct forward path);
    # a session whose carrier starts failing with a time-out error
    for c in (["forward", "tcp", "ws", "kcp"] if thorough else ["forward", "tcp"]):
        for mode in (("target-closes-wait", "app-closes", "target-closes") if c == "forward" else ("target-closes-wait",)):
            line = "c14 %s %d %s" % (c, n, mode)
            cs.append({"line": line, "key": line, "model": False, "tags": {"carrier": c, "n": n, "mode": mode}})
    for c in (["tcp", "ws", "kcp"] if thorough else ["tcp"]):
        line = "c14 %s %d refused" % (c, n)
        cs.append({"line": line, "key": line, "model": False, "tags": {"carrier": c, "n": n, "mode": "refused"}})
    # physical sessions one after the other, each lost abruptly while idle (the carrier cut under both ends): sockets and goroutines of the
    # lost sessions are given back on every carrier that runs through the cutting relay
    # (an end that sees an orderly end-of-stream - plain TCP - leaves the session to the multiplexer's keep-alive: the scenario then waits
    # up to 75 s (the keep-alive's second 30 s tick) for the footprint to come back; the websocket carrier reports an error and gives everything back at once: quick tier)
    for c in (["tcp", "ws", "tcp-starttls", "wss", "tcp+tls"] if thorough else ["ws"]):
        line = "c14 %s %d sessions-cut" % (c, n)
        cs.append({"line": line, "key": line, "model": False, "tags": {"carrier": c, "n": n, "mode": "sessions-cut"}})
    for c in (["tcp", "tcp-starttls"] if thorough else ["tcp"]):      # (the carriers whose physical connection runs through the cutting relay)
        for mode in ("cut-open", "garbage-open"):
            line = "c14 %s %d %s" % (c, n, mode)
            cs.append({"line": line, "key": line, "model": False, "tags": {"carrier": c, "n": n, "mode": mode}})
    # DNS tunnel sessions one after the other over one listener, a reader parked in Read on both ends when the session is closed
    for mode in ("client-closes", "server-closes"):
        line = "c14d %d %s" % (n, mode)
        cs.append({"line": line, "key": line, "model": False, "tags": {"carrier": "dns-ends", "n": n, "mode": mode}})
    # connection attempts that end in an error after the physical connection was made (security required and the server cannot upgrade;
    # the peer answers the handshake with an error status): the client holds none of those connections afterwards
    for kind in ("insecure", "hserror"):
        line = "c14sec 20 %s" % kind
        cs.append({"line": line, "key": line, "model": False, "tags": {"carrier": "tcp", "n": 20, "mode": "failed-attempts-" + kind}})
    # the physical session is lost while the server is away: local connections arriving meanwhile must each end (fail) in bounded time -
    # a connection that neither connects nor fails holds its goroutine and its socket for ever - and service resumes afterwards
    line = "c16 0 none 1 oksecure conn wait -1000 conn conn conn conn wait -1001 conn"
    cs.append({"line": line, "key": line, "model": False, "tags": {"carrier": "tcp", "n": 1, "mode": "server-away"}})
    cs.append({"line": "c14 tcp 1 read-timeout", "key": "c14 read-timeout", "model": False, "tags": {"carrier": "memory", "n": 1, "mode": "read-timeout"}})
    if thorough:
        cs.append({"line": "c14 tcp 500 app-closes", "key": "c14 tcp 500", "tags": {"carrier": "tcp", "n": 500, "mode": "app-closes"}})
    # the DNS tunnel connection's close protocol on the real objects, compared token for token with the model: a reader parked on either end
    # when the end is closed in every way (application, peer's request, expiry, the poll goroutine told BADCONN / giving up)
    for ops in (["sr 8", "sc"], ["sr 8", "sq"], ["sr 8", "sx"], ["cr 8", "cc"], ["sr 0", "sc", "sr 0"], ["cr 0", "cc", "cr 0"],
                ["sr 8", "sx", "sc", "sr 1"], ["sr 3", "sa #0102", "sr 3", "sq", "sr 3"], ["cr 3", "ca #0102", "cr 3", "cc", "cr 3"],
                # a writer parked in Write (waiting for the acknowledgement of its chunk, or behind a chunk queued earlier) when the end is closed
                ["sw #68656c6c6f", "sc"], ["sw #68656c6c6f", "sq"], ["sw #68656c6c6f", "sx"], ["sr 4", "sw #68656c6c6f", "sc", "sw #01"],
                ["sz #01", "sw #0203", "sc"], ["sz #01", "sw #0203", "sx", "sw #04"], ["sw #0102", "sk", "sw #03", "sq", "sk"],
                ["cv #01 0", "cv #0203 1", "cc"], ["cv #01 0", "cv #0203 0", "ck", "cc"], ["cr 4", "cv #01 0", "cv #02 1", "cc", "cv #03 1"]):
        c = _c17.q_case(ops, "fixed")
        c["tags"]["mode"] = "dns-close"
        cs.append(c)
    for _ in range(600 if thorough else 60):
        c = _c17.q_case(_c17.gen_q(rng, 24), "random")
        c["tags"]["mode"] = "dns-close"
        cs.append(c)
    # the real per-session handler (and the real client in front of it) over an in-memory carrier, driven by scripts of environment events and
    # compared token for token with the handler model (Mux/Handler.v): connections ending in every way and in every combination, the session
    # ending in every manner (cut, garbage, orderly) with connections in every state; goroutines (accept loop, handlers, copy loops, client
    # handlers) counted from the stacks at quiescent points, every stream and target connection checked for having been closed
    cs += _h.fixed_reclamation() + _h.fixed_cli_reclamation()
    for i in range(150 if thorough else 12):
        cs.append(_h.raw_case(_h.random_script(rng, 16 if thorough else 12, True), "random"))
    for i in range(100 if thorough else 8):
        cs.append(_h.cli_case(_h.random_cli_script(rng, 14 if thorough else 10, i % 2 == 0), "random"))
    # the set-up of a session ending in every way on every kind of endpoint - the peer leaves without a word or between the requests, is
    # refused, stalls until its deadline - over in-memory connections that record their Close (a socket nobody refers to any more is closed
    # by the runtime at the next collection, so descriptor counts do not see it): the server closes the connection, its goroutine ends
    # (the endpoint scripts of C15, judged here on connection-left-open / goroutine-left only; implementation only)
    from . import ecases as _e
    for k, c in enumerate(_e.fixed(rng.fork() if hasattr(rng, "fork") else rng)):
        cls = c["tags"]["stall"].split("@")[0]
        if cls in ("fail+stall+good", "stall+expired", "refused", "accept-errors", "accept-errors+shutdown", "loopback+expired") or (cls == "stall" and (thorough or k % 4 == 0)):
            cs.append(dict(c, model=False, tags=dict(c["tags"], mode="endpoint-setup", n=1)))
    for cn, sn, fates in ((4, 4, ["evclose"]), (4, 4, ["evexpire"]), (4, 4, ["ok #0102", "evclose"])) + (((2, 2, ["evexpire", "evforget"]),) if thorough else ()):
        line = "c17p %d %d %d %s 3" % (cn, sn, len(fates), " ".join(fates))
        cs.append({"line": line, "key": line, "tags": {"carrier": "dns-poll", "n": len(fates), "mode": "dns-close"}})
    return cs


def project(impl, n):
    p = impl.split()
    if "g" not in p:
        return None
    g = [int(x) for x in p[p.index("g") + 1:p.index("g") + 4]]
    fd = [int(x) for x in p[p.index("fd") + 1:p.index("fd") + 3]]
    cpu = int(p[p.index("cpu") + 1])
    ok = int(p[p.index("ok") + 1])
    per_conn = (g[2] - g[1]) / float(n)
    return {"g": g, "fd": fd, "cpu": cpu, "ok": ok, "leak_per_conn": per_conn}


def oracle(case, impl):
    if case["line"].startswith("c17q ") or case["line"].startswith("c17qd ") or case["line"].startswith("c17p "):
        return _c17.oracle(case, impl)
    if case["line"].startswith("c02h "):
        return _h.oracle(case, impl, "reclamation")
    if case["line"].startswith("c15m "):
        from . import ecases as _e
        return [(sig, msg) for sig, msg in _e.oracle(case, impl) if sig.split(";")[0] in ("connection-left-open", "goroutine-left", "crash")]
    t = case["tags"]
    if t["mode"].startswith("failed-attempts"):
        p = impl.split()
        if not p or p[0] != "attempts":
            return [("crash;carrier=tcp", "scenario failed to run: " + impl[:150])]
        f = dict(zip(p[0::2], p[1::2]))
        if int(f["failed"]) != t["n"]:
            return [("crash;carrier=tcp", "the attempts were meant to fail: " + impl)]
        if int(f["held"]) > 0:
            return [("connections-held-after-failed-attempts;" + t["mode"][16:], "%s of %d physical connections made for attempts that failed are still held by the client (%s)" % (f["held"], t["n"], case["line"]))]
        return []
    if t["mode"] == "server-away":
        p = impl.split()
        if not p or p[0] in ("panic", "died", "timeout", "harness-error"):
            return [("crash;carrier=tcp", "scenario failed to run: " + impl[:150])]
        body = p[:p.index("phys")] if "phys" in p else p
        if "hang" in body:
            return [("connection-never-ends;mode=server-away", "after the session was lost with the server away, %d local connection(s) neither connected nor failed: each holds a goroutine and a socket for ever (%s)" % (body.count("hang"), impl[:120]))]
        if "up" not in body[-2:]:
            return [("no-service-after-return;mode=server-away", "the server came back but the next local connection was not served: " + impl[:120])]
        return []
    pr = project(impl, t["n"])
    if pr is None:
        return [("crash;carrier=" + t["carrier"], "scenario failed to run: " + impl[:150])]
    out = []
    p = impl.split()
    if t["mode"] == "read-timeout":
        if pr["cpu"] > 300:
            out.append(("busy-loop;mode=read-timeout", "%d ms of CPU in an idle second after the carrier began to fail with a time-out error" % pr["cpu"]))
        if p[p.index("ended") + 1] != "1":
            out.append(("session-not-ended;mode=read-timeout", "the server kept servicing a session whose carrier only returns errors: " + impl))
        if pr["ok"] != 1:
            out.append(("connections-failed", "the warm-up connection did not work: " + impl))
        return out
    if t["mode"] in ("cut-open", "garbage-open"):
        rel, of = int(p[p.index("released") + 1]), int(p[p.index("of") + 1])
        if of < t["n"] * 0.9:
            out.append(("connections-failed", "only %d of %d logical connections could be opened" % (of, t["n"])))
        if rel < of:
            out.append(("open-connections-not-released;mode=" + t["mode"], "the physical session ended abruptly with %d logical connections open; %d of their targets were never told (%s)" % (of, of - rel, case["line"])))
        if pr["g"][2] - pr["g"][0] > max(4, of // 3):
            out.append(("goroutine-growth", "goroutines went from %d to %d after the abrupt end with %d connections open" % (pr["g"][0], pr["g"][2], of)))
        if pr["fd"][1] - pr["fd"][0] > max(4, of // 3):
            out.append(("fd-growth", "file descriptors went from %d to %d after the abrupt end with %d connections open" % (pr["fd"][0], pr["fd"][1], of)))
        return out
    if t["mode"] == "target-closes-wait" and "eof" in p and int(p[p.index("eof") + 1]) < 2 * t["n"]:
        out.append(("no-eof-to-application;carrier=" + t["carrier"], "the service hung up on %d connections, the application was told on %s of them (%s)" % (2 * t["n"], p[p.index("eof") + 1], case["line"])))
    if pr["leak_per_conn"] > 0.3 and (pr["g"][1] - pr["g"][0]) / float(t["n"]) > 0.3:
        out.append(("goroutine-growth", "%.2f goroutines per finished logical connection stay behind (%r) in %s" % (pr["leak_per_conn"], pr["g"], case["line"])))
    if pr["fd"][1] - pr["fd"][0] > max(4, t["n"] // 4):
        out.append(("fd-growth", "file descriptors grew from %d to %d over %d connections" % (pr["fd"][0], pr["fd"][1], 2 * t["n"])))
    if t["mode"] in ("cut", "garbage") and pr["cpu"] > 300:
        out.append(("busy-loop;mode=" + t["mode"], "%d ms of CPU in an idle second after the session ended (%s)" % (pr["cpu"], case["line"])))
    if t["carrier"] == "dns-ends" and pr["ok"] < 2 * t["n"]:
        out.append(("reader-not-woken;mode=" + t["mode"], "on %d of %d DNS tunnel sessions a reader parked in Read was not released when the session was closed (%s)" % (2 * t["n"] - pr["ok"], 2 * t["n"], case["line"])))
    if pr["ok"] < 2 * t["n"] * 0.9:
        out.append(("connections-failed", "only %d of %d logical connections completed" % (pr["ok"], 2 * t["n"])))
    return out


def shrink(case):
    if case["line"].startswith("c15m "):
        from . import ecases as _e
        return (dict(c, model=False) for c in (_e.shrink(case) or []))
    if case["line"].startswith("c02h "):
        return _h.shrink(case)
    return _c17.shrink(case)


def agree(case, impl, model):
    if case["line"].startswith("c17q ") or case["line"].startswith("c17qd ") or case["line"].startswith("c17p "):
        return _c17.agree(case, impl, model)
    if case["line"].startswith("c02h "):
        return _h.agree(case, impl, model)
    pr = project(impl, case["tags"]["n"])
    m = model.split()
    if pr is None or len(m) < 6:
        return "footprint"
    leak, busy = int(m[1]), int(m[3])
    got_leak = int(round(pr["leak_per_conn"]))
    if got_leak != leak:
        return "goroutines-per-connection"
    if case["tags"]["mode"] in ("cut", "garbage") and (pr["cpu"] > 300) != (busy == 1):
        return "busy-loop"
    return None


META = {
    "level_text": "Partial: Coq theorems over transition-system models of PipeData (two copy loops, one selector, result channels with the "
                  "capacities read from the source) and of the stream accept loop: all goroutines of a finished connection return, and a dead "
                  "session ends the loop; the defective variants (unbuffered channels, continue on error) are refuted by witnesses. Goroutine, "
                  "descriptor and CPU footprints are measured over N and 2N connections and after abrupt session ends. DNS tunnel connection: a "
                  "model of the close protocol (shared with C17) proves that a reader parked in Read and a writer parked in Write are released by "
                  "whatever closes their end, for every operation sequence; it is run token for token against the real objects. "
                  "A resource-explicit model of the per-session handler and of the piping of one logical connection (every stream, target connection, "
                  "goroutine and report channel; arbitrary schedule and environment) proves for every event list that a finished connection leaves "
                  "no goroutine, stream or target connection, that a dead session leaves nothing whatever the number and states of its connections, "
                  "and that the accept loop ends on a terminal error and never steps again; the client-side mirror likewise; seven defect variants "
                  "are refuted with computed witnesses. Its switches are read from the source by role and the extracted model is compared token for "
                  "token with the real handler and client over scripted histories.",
    "level_note": "Measurements (goroutine counts, rusage) stand for 'footprint'; kernel socket states are not observed.",
    "technique": "Coq proofs by finite-state exploration of LTS models + footprint measurements at quiescent points",
}
