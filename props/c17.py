"""C17 - orderly close delivers all data, then end-of-stream, both ways."""
PID = "C17"
CARRIERS = ["tcp", "tcp-starttls", "tcp+tls", "unix", "ws", "wss", "stdio", "kcp", "dns"]
RULE = ("per carrier: either end (application or target) writes 0 B .. 1 MiB (thorough: 4 MiB) and closes at once; the other end must read all of "
        "it and then end-of-stream within a bound; distinct_nontrivial = distinct (carrier, length, closing side)")
EXPLANATION = ("Props/C17.v: the copy loop reports EOF only after writing everything it read (flush before close) and every PipeData execution "
               "terminates; delivery of FIN after data is the multiplexer's contract (hypothesis). Scenarios on every carrier.")
TRUSTED = ["smux delivers FIN after the data written before it (hypothesis)", "a DNS-carrier Read parked without deadline is woken only by data (see DESIGN.md)"]
RUN_TIMEOUT = 3000


def cases(tier, rng):
    cs = []
    thorough = tier == "thorough"
    for c in CARRIERS:
        lens = [0, 1, 4097, 100000] + ([1 << 20, 4 << 20] if thorough else [])
        if c == "dns":
            lens = [0, 1, 3000] + ([30000] if thorough else [])
        for n in lens:
            for side in ("app", "target"):
                if not thorough and n in (1, 4097) and rng.chance(1, 2):
                    continue
                line = "c17 %s %d %s" % (c, n, side)
                cs.append({"line": line, "key": line, "tags": {"carrier": c, "n": n, "side": side}})
    # run on the implementation only: the listener's direct forward path (no tunnel), a physical session older than the handshake's
    # time limit (1 s here), and a second logical connection open on the same session throughout
    for side in ("app", "target"):
        for n in ((0, 1000, 100000, 1 << 20) if thorough else (1000, 100000)):
            line = "c17 forward %d %s" % (n, side)
            cs.append({"line": line, "key": line, "model": False, "tags": {"carrier": "forward", "n": n, "side": side}})
        line = "c17 forward 1000 %s debug" % side
        cs.append({"line": line, "key": line, "model": False, "tags": {"carrier": "forward", "n": 1000, "side": side, "variant": "debug"}})
    for c in (CARRIERS if thorough else ["tcp", "tcp-starttls", "ws", "kcp"]):
        if c == "dns":
            continue
        for side in ("app", "target"):
            line = "c17 %s 100000 %s aged" % (c, side)
            cs.append({"line": line, "key": line, "model": False, "tags": {"carrier": c, "n": 100000, "side": side, "variant": "aged"}})
            if thorough or c == "tcp":
                line = "c17 %s 100000 %s debug" % (c, side)       # the copy loops' logging variant (SOCKETACE_PIPE_DEBUG=1)
                cs.append({"line": line, "key": line, "model": False, "tags": {"carrier": c, "n": 100000, "side": side, "variant": "debug"}})
            if thorough or c == "tcp":
                line = "c17 %s 100000 %s other-open" % (c, side)
                cs.append({"line": line, "key": line, "model": False, "tags": {"carrier": c, "n": 100000, "side": side, "variant": "other-open"}})
    # the client's standard-stream listener: either end closes after a transfer both ways
    for c in (["tcp", "ws", "kcp"] if thorough else ["tcp"]):
        for side in ("app", "target"):
            line = "c01io %s 20000 %s" % (c, side)
            cs.append({"line": line, "key": line, "model": False, "tags": {"carrier": c + "+stdin-listener", "n": 20000, "side": side, "variant": "io"}})
    # the DNS tunnel's two ends alone (real client connection with its poller, real listener, lossless path): the closing end writes and
    # closes at once; the other end starts reading only after a while (what was acknowledged to the writer must still be readable, then
    # end-of-stream; a server-side close must reach a client that is only polling)
    for closer in ("client", "server"):
        for n in ((0, 1, 3000, 20000) if thorough else (0, 3000)):
            for lag in ((0, 300, 1500) if thorough else (0, 300)):
                line = "c17d %d %s %d" % (n, closer, lag)
                cs.append({"line": line, "key": line, "model": False, "tags": {"carrier": "dns-ends", "n": n, "side": closer, "variant": "lag%d" % lag}})
    return cs


def oracle(case, impl):
    t = case["tags"]
    p = impl.split()
    if not p or p[0] in ("panic", "died", "timeout", "harness-error", "setup", "connect"):
        return [("crash;carrier=" + t["carrier"], "scenario failed to run: " + impl[:150])]
    if t.get("variant") == "io":
        out = []
        if p[:3] != ["up", str(t["n"]), "-1"] or p[3:6] != ["down", str(t["n"]), "-1"]:
            out.append(("data-lost-on-close;carrier=%s;closer=%s" % (t["carrier"], t["side"]), "the transfer before the close was not complete: " + impl))
        if p[-2:] != ["eof", "1"]:
            out.append(("no-eof;carrier=%s;closer=%s" % (t["carrier"], t["side"]), "the other end did not see end-of-stream within the bound (%s)" % case["line"]))
        return out
    f = dict(zip(p[0::2], p[1::2]))
    out = []
    if int(f["got"]) != t["n"] or int(f["diff"]) != -1:
        out.append(("data-lost-on-close;carrier=%s;closer=%s%s" % (t["carrier"], t["side"], ";" + t["variant"] if t.get("variant") else ""), "%s of %d bytes arrived before the close (%s)" % (f["got"], t["n"], case["line"])))
    if f["eof"] != "1":
        out.append(("no-eof;carrier=%s;closer=%s" % (t["carrier"], t["side"]), "the other end did not see end-of-stream within the bound (%s)" % case["line"]))
    return out


def agree(case, impl, model):
    i = impl.split()
    if "ms" in i:
        i = i[:i.index("ms")]
    return None if " ".join(i) == model else "close-propagation"


META = {
    "level_text": "Partial: Coq theorems over the copy-loop and PipeData models: end-of-stream is reported only after everything read has been "
                  "written, the selector then closes the other side, and every execution terminates; FIN-after-data is the multiplexer's "
                  "contract (hypothesis). Write-then-close scenarios in both directions run on every carrier.",
    "level_note": "smux FIN ordering, kernel socket buffers and TLS close_notify are hypotheses exercised end to end.",
    "technique": "Coq invariant proof over the copy-loop model + write-then-close scenarios on every carrier",
}
