"""C17 - orderly close delivers all data, then end-of-stream, both ways."""
PID = "C17"
CARRIERS = ["tcp", "tcp-starttls", "tcp+tls", "unix", "ws", "wss", "stdio", "kcp", "dns"]
RULE = ("per carrier: either end (application or target) writes 0 B .. 1 MiB (thorough: 4 MiB) and closes at once; the other end must read all of "
        "it and then end-of-stream within a bound; distinct_nontrivial = distinct (carrier, length, closing side). DNS close protocol (c17q): "
        "operation scripts (data arriving, Reads with buffer sizes 0, 1, n-1, n, n+1 around what is buffered, a close of every kind at every "
        "position, Reads after it) on a real client connection and a real server-side connection, compared token for token with the "
        "extracted model, Writes waiting for their acknowledgement included (a close of every kind at every position of a script of Writes, "
        "queued chunks and acknowledgements); c17p: the real poll goroutine over scripted path fates and server-side events; distinct = distinct scripts")
EXPLANATION = ("Props/C17.v: the copy loop reports EOF only after writing everything it read (flush before close) and every PipeData execution "
               "terminates; delivery of FIN after data is the multiplexer's contract (hypothesis). Scenarios on every carrier. "
               "DNS tunnel connection: Queue/Close.v models the in-queue with its parked reader, Read/Write/Close of both ends, closeConnection, "
               "the close request, the expiry sweep, SendAndReceive and the poll goroutine; for every operation sequence and path script: what "
               "Reads return is a prefix of what was appended, end-of-stream only on a closed end with everything delivered (also for a released "
               "reader), a closed end never parks a Read, drain in ceil(buffered/n)+1 Reads, BADCONN or 7 equal errors close the polling "
               "client; the shapes 'EOF as soon as closed' and 'errors wrapped' are refuted. Out-queues: a Write parked in waitEmptyQueue (behind "
               "chunks queued earlier, or waiting for the acknowledgement of its own) is run on by the acknowledgement or by the Close of the "
               "out-queue at the three places where the in-queue is closed; a Write reports success only when everything queued has been "
               "acknowledged and os.ErrClosed otherwise, a closed end parks no writer. The model's switches and constants are read from "
               "the source (Gen/CloseShape.v) and the model is run against the real objects (c17q, c17p).")
TRUSTED = ["smux delivers FIN after the data written before it (hypothesis)",
           "DNS close model: one reader per end; operations are atomic (no interleaving below one Read / Append / Close / poll round); the expiry "
           "sweep is driven by an accessor that repeats the sweep's three statements (the sweep goroutine cannot be called); read deadlines on "
           "the queues are not modelled; the out-queues are not joined to the peer's in-queue here (an acknowledgement is an event of the "
           "environment, constrained by the session being live; delivery and retransmission are C07's model); the client's out-queue is driven "
           "through an accessor with a callback that acknowledges or fails (the client of c17q has not shaken hands)"]
RUN_TIMEOUT = 3000


def cases(tier, rng):
    cs = []
    thorough = tier == "thorough"
    for c in CARRIERS:
        lens = [0, 1, 4097, 100000] + ([1 << 20, 4 << 20] if thorough else [])
        if c == "dns":
            lens = [0, 1, 3000] + ([30000] if thorough else [])
        for n in lens:
            for side in ("app", "target"):
                if not thorough and n in (1, 4097) and rng.chance(1, 2):
                    continue
                line = "c17 %s %d %s" % (c, n, side)
                cs.append({"line": line, "key": line, "tags": {"carrier": c, "n": n, "side": side}})
    # run on the implementation only: the listener's direct forward path (no tunnel), a physical session older than the handshake's
    # time limit (1 s here), and a second logical connection open on the same session throughout
    for side in ("app", "target"):
        for n in ((0, 1000, 100000, 1 << 20) if thorough else (1000, 100000)):
            line = "c17 forward %d %s" % (n, side)
            cs.append({"line": line, "key": line, "model": False, "tags": {"carrier": "forward", "n": n, "side": side}})
        line = "c17 forward 1000 %s debug" % side
        cs.append({"line": line, "key": line, "model": False, "tags": {"carrier": "forward", "n": 1000, "side": side, "variant": "debug"}})
    for c in (CARRIERS if thorough else ["tcp", "tcp-starttls", "ws", "kcp"]):
        if c == "dns":
            continue
        for side in ("app", "target"):
            line = "c17 %s 100000 %s aged" % (c, side)
            cs.append({"line": line, "key": line, "model": False, "tags": {"carrier": c, "n": 100000, "side": side, "variant": "aged"}})
            if thorough or c == "tcp":
                line = "c17 %s 100000 %s debug" % (c, side)       # the copy loops' logging variant (SOCKETACE_PIPE_DEBUG=1)
                cs.append({"line": line, "key": line, "model": False, "tags": {"carrier": c, "n": 100000, "side": side, "variant": "debug"}})
            if thorough or c == "tcp":
                line = "c17 %s 100000 %s other-open" % (c, side)
                cs.append({"line": line, "key": line, "model": False, "tags": {"carrier": c, "n": 100000, "side": side, "variant": "other-open"}})
    # end-of-stream must mean that the peer closed: a connection in the middle of a transfer must not be ended because ANOTHER
    # application asked for a channel the server does not offer, or because another connection's service failed late
    for sc in ("other-refused", "other-fails-late"):
        line = "c02 tcp 3 %s" % sc
        cs.append({"line": line, "key": line, "model": False, "tags": {"carrier": "tcp", "n": 0, "side": "neither", "variant": "premature:" + sc}})
    # the client's standard-stream listener: either end closes after a transfer both ways
    for c in (["tcp", "ws", "kcp"] if thorough else ["tcp"]):
        for side in ("app", "target"):
            line = "c01io %s 20000 %s" % (c, side)
            cs.append({"line": line, "key": line, "model": False, "tags": {"carrier": c + "+stdin-listener", "n": 20000, "side": side, "variant": "io"}})
    # the DNS tunnel's two ends alone (real client connection with its poller, real listener, lossless path): the closing end writes and
    # closes at once; the other end starts reading only after a while (what was acknowledged to the writer must still be readable, then
    # end-of-stream; a server-side close must reach a client that is only polling)
    for closer in ("client", "server"):
        for n in ((0, 1, 3000, 20000) if thorough else (0, 3000)):
            for lag in ((0, 300, 1500) if thorough else (0, 300)):
                line = "c17d %d %s %d" % (n, closer, lag)
                cs.append({"line": line, "key": line, "model": False, "tags": {"carrier": "dns-ends", "n": n, "side": closer, "variant": "lag%d" % lag}})
    # the same scenario thousands of times with several scheduler threads: a loss that needs a particular interleaving of the two ends'
    # goroutines (the witness of the repaired a98efbe: about 1 run in 1500 lost the single octet) shows as a rate
    for c, n, side, rounds in ([("tcp", 1, "target", 6000), ("tcp", 1, "app", 1500), ("tcp", 4097, "target", 500)]
                               + ([("tcp", 1, "target", 60000), ("ws", 1, "target", 5000), ("tcp-starttls", 1, "target", 5000), ("tcp", 40000, "app", 2000)] if thorough else [])):
        line = "c17soak %s %d %s %d 4" % (c, n, side, rounds)
        cs.append({"line": line, "key": line, "model": False, "tags": {"carrier": c, "n": n, "side": side, "variant": "soak"}})
    cs += close_cases(tier, rng)
    return cs


# ---- the DNS tunnel connection's close protocol on the real objects (ops c17q, c17p; model Queue/Close.v)

def hx(b):
    return "#" + bytes(b).hex()


def gen_q(rng, maxops):
    """One operation script: data arriving and Reads on both ends, closes of every kind somewhere, Reads and more afterwards."""
    ops = []
    st = {"c": {"buf": 0, "closed": False, "parked": False, "next": 1}, "s": {"buf": 0, "closed": False, "parked": False, "next": 101}}

    def arrive(e):
        n = rng.choice([0, 1, 1, 2, 3, 5, 8, 13, 40])
        d = [(st[e]["next"] + i) % 256 for i in range(n)]
        st[e]["next"] = (st[e]["next"] + n) % 256
        ops.append("%sa %s" % (e, hx(d)))
        if e == "c" or not st[e]["closed"]:
            st[e]["buf"] += n
            if st[e]["parked"] and st[e]["buf"] > 0:
                st[e]["parked"] = False
                st[e]["buf"] = 0 if rng.chance(1, 2) else st[e]["buf"]      # (rough: the generator only steers, it decides nothing)

    def read(e):
        b = st[e]["buf"]
        n = rng.choice([0, 1, max(b - 1, 0), b, b + 1, b + 1, rng.range(1, 50)])
        ops.append("%sr %d" % (e, n))
        if b == 0 and not st[e]["closed"]:
            st[e]["parked"] = True
        st[e]["buf"] = max(0, b - n)

    def write(e):
        n = rng.choice([0, 1, 2, 5])
        d = [(st[e]["next"] + 50 + i) % 256 for i in range(n)]
        if e == "s":
            ops.append(rng.choice(["sw %s" % hx(d), "sw %s" % hx(d), "sz %s" % hx(d or [9]), "sk", "sk"]))
        else:
            ops.append(rng.choice(["cv %s 1" % hx(d), "cv %s 0" % hx(d), "cv %s 0" % hx(d), "ck", "ck"]))

    def close(e):
        k = rng.choice(["cc"]) if e == "c" else rng.choice(["sc", "sq", "sx", "sc", "sq"])
        ops.append(k)
        st[e]["closed"] = True
        st[e]["parked"] = False

    n = rng.range(2, maxops)
    for _ in range(n):
        e = rng.choice(["c", "s"])
        r = rng.below(100)
        if r < 24:
            arrive(e)
        elif r < 56:
            read(e)
        elif r < 74:
            write(e)
        elif r < 84:
            close(e)
        elif r < 88:
            ops.append(rng.choice(["sf", "sx", "sc", "sq", "cc"]))
        elif r < 94:
            ops.append("cw" if e == "c" else "sw #2a")
        else:
            read(e)
            read(e)
    # what is left is drained with one buffer size
    for e in ("c", "s"):
        if rng.chance(2, 3):
            k = rng.choice([1, 2, 3, 7, 64])
            for _ in range(min(12, st[e]["buf"] // k + 2)):
                ops.append("%sr %d" % (e, k))
    return ops


def q_case(ops, variant):
    line = "c17q " + " ".join(ops)
    return {"line": line, "key": line, "tags": {"carrier": "dns-close", "n": len(ops), "side": "both", "variant": variant}}


def close_cases(tier, rng):
    thorough = tier == "thorough"
    cs = []
    # a close of every kind at every position of a fixed script of arrivals and boundary Reads, on each end
    for e, closes in (("s", ["sc", "sq", "sx"]), ("c", ["cc"])):
        base = ["%sr 4" % e, "%sa #0102030405" % e, "%sr 0" % e, "%sr 1" % e, "%sa #0607" % e, "%sr 2" % e, "%sr 3" % e, "%sr 1" % e, "%sa #08" % e, "%sr 2" % e, "%sr 1" % e]
        for k in closes:
            for pos in range(len(base) + 1):
                ops = base[:pos] + [k] + base[pos:] + ["%sr 3" % e, "%sr 3" % e, "cw" if e == "c" else "sw #09"]
                cs.append(q_case(ops, "close-at-%d" % pos))
    # buffered n octets at the close, then Reads of 1, n-1, n, n+1 octets
    for e, k in (("s", "sc"), ("s", "sq"), ("s", "sx"), ("c", "cc")):
        for n in (1, 2, 5, 40):
            for r in sorted(set([1, max(1, n - 1), n, n + 1])):
                data = [(7 * i + n) % 256 for i in range(n)]
                ops = ["%sa %s" % (e, hx(data)), k] + ["%sr %d" % (e, r)] * (n // r + 3)
                cs.append(q_case(ops, "drain"))
    # a reader parked when the end closes, in every way; closing twice; closing after expiry; forgotten sessions
    for ops in (["sr 8", "sc"], ["sr 8", "sq"], ["sr 8", "sx"], ["cr 8", "cc"], ["sr 0", "sc", "sr 0"], ["cr 0", "cc", "cr 0"],
                ["sr 8", "sx", "sc", "sw #01", "sr 1"], ["sx", "sf", "sa #01", "sq", "sr 1"], ["sc", "sc", "sq", "sx", "sf", "sr 1", "sw #01"],
                ["cc", "cc", "cr 1", "cw"], ["sa #", "sr 1", "sa #", "sc"], ["ca #", "cr 1", "ca #", "cc"],
                ["cc", "ca #0102", "cr 1", "cr 1", "cr 1"], ["sq", "sa #0102", "sr 1"]):
            cs.append(q_case(ops, "fixed"))
    # writers. A Write on the server-side connection waits for the acknowledgement of its chunk: the session ends under it in every way
    # (application, client's request, sweep), alone and with a reader parked too; then a further Write
    for k in ("sc", "sq", "sx"):
        cs.append(q_case(["sw #68656c6c6f", k], "writer"))
        cs.append(q_case(["sr 4", "sw #68656c6c6f", k, "sw #01", "sr 1"], "writer"))
        cs.append(q_case(["sz #01", "sw #0203", k, "sw #04"], "writer"))              # parked before queueing its own chunk
        cs.append(q_case(["sw #0102", "sk", "sw #03", k, "sk"], "writer"))
    # a close of every kind at every position of a script of Writes, queued chunks and acknowledgements
    wbase = ["sw #0102", "sk", "sz #03", "sw #0405", "sk", "sk", "sw #06", "sk"]
    for k in ("sc", "sq", "sx"):
        for pos in range(len(wbase) + 1):
            cs.append(q_case(wbase[:pos] + [k] + wbase[pos:] + ["sw #07"], "writer-close-at-%d" % pos))
    cbase = ["cv #01 1", "cv #02 0", "cv #0304 1", "ck", "cv #05 0", "cv #06 0", "ck", "ck"]
    for pos in range(len(cbase) + 1):
        cs.append(q_case(cbase[:pos] + ["cc"] + cbase[pos:] + ["cv #07 1", "cw"], "writer-close-at-%d" % pos))
    for ops in (["sw #", "sw #01", "sw #02", "sk", "sa #0a0b", "sr 2"], ["cc", "cv #01 1", "cv #02 0", "ck"],
                ["cv #01 0", "cv #0203 0", "cc"], ["cv #01 0", "cv #0203 1", "ck", "ck", "cc"], ["sz #01", "sz #02", "sw #03", "sk", "sk", "sc"],
                ["sx", "sw #01", "sw #02", "sc", "sw #03"], ["sw #01", "sx", "sf", "sk", "sw #02"]):
        cs.append(q_case(ops, "writer"))
    # the writer scripts once more with a write deadline (far in the future) set on both ends: a parked Write then waits in the branch of
    # the out-queue that also watches the deadline (the handshake of the layer above sets one)
    for c in [c for c in cs if c["tags"]["variant"].startswith("writer")]:
        d = dict(c, tags=dict(c["tags"], variant=c["tags"]["variant"] + "+deadline"))
        d["line"] = d["key"] = "c17qd" + c["line"][4:]
        cs.append(d)
    for _ in range(3000 if thorough else 260):
        cs.append(q_case(gen_q(rng, 40 if thorough else 24), "random"))
    for _ in range(600 if thorough else 40):
        c = q_case(gen_q(rng, 40 if thorough else 24), "random+deadline")
        c["line"] = c["key"] = "c17qd" + c["line"][4:]
        cs.append(c)
    # the poll goroutine over scripted fates
    def p_case(cn, sn, fates, rn, variant):
        line = "c17p %d %d %d %s %d" % (cn, sn, len(fates), " ".join(fates), rn)
        return {"line": line, "key": line, "tags": {"carrier": "dns-poll", "n": len(fates), "side": "poller", "variant": variant}}
    fixed = [
        (4, 4, ["evclose"], 3),                                                  # the server application closes: BADCONN at the next round
        (4, -1, ["ok #010203", "ok #0405", "evclose"], 2),                       # data first: the reader gets it, then end-of-stream
        (-1, 3, ["ok #0102030405060708", "evexpire"], 3),                        # the session expires with data unread on the client
        (2, 2, ["evexpire", "evforget"], 1),                                     # forgotten session: BADUSER until the give-up rule fires
        (1, 1, ["ip"] * 7, 1),                                                   # seven equal errors through PacketResponse.Err
        (1, 1, ["ip"] * 6 + ["ok #09"], 1),                                      # six are not enough
        (1, -1, ["to"] * 10 + ["ip", "to", "to", "to", "to", "to", "ip", "net", "net", "net"], 1),   # different errors in turn: no give-up
        (3, 3, ["to", "to", "ok #0a0b", "net", "evclose", "ip", "to"], 2),
    ]
    if thorough:
        fixed += [(1, 1, ["to"] * 35, 1), (1, 1, ["to"] * 30 + ["ok #01"], 1), (1, 1, ["net"] * 12, 1)]
    for cn, sn, fates, rn in fixed:
        cs.append(p_case(cn, sn, fates, rn, "fixed"))
    for _ in range(40 if thorough else 6):
        fates = []
        nxt = 1
        for _ in range(rng.range(1, 9)):
            r = rng.below(100)
            if r < 40:
                n = rng.choice([0, 1, 2, 5, 20])
                fates.append("ok " + hx([(nxt + i) % 256 for i in range(n)]))
                nxt += n
            elif r < 55:
                fates.append("to")
            elif r < 65:
                fates.append("net")
            elif r < 75:
                fates.append("ip")
            elif r < 90:
                fates.append(rng.choice(["evclose", "evexpire"]))
            else:
                fates.append("evforget")
        line_fates = fates
        cs.append(p_case(rng.choice([-1, 0, 1, 4]), rng.choice([-1, 0, 1, 4]), line_fates, rng.choice([1, 2, 7]), "random"))
    return cs


BAD_WORDS = ("panic", "died", "timeout", "harness-error", "setup", "connect", "stuck", "err", "aerr", "xresp", "accepted")


def oracle_q(case, impl):
    """The property on the implementation's observation alone: prefix, end-of-stream only after everything on a closed end, no Read parks
    after a close, a parked reader is released by the close, drain without short Reads."""
    ops = case["line"].split()[1:]
    obs = impl.split()
    out = []
    if not obs or obs[0] in BAD_WORDS or any(w in BAD_WORDS and not (w == "err" and k >= 2 and obs[k - 2] == "w") for k, w in enumerate(obs)):
        return [("crash;carrier=dns-close", "the script did not run to its end: " + impl[:200])]
    ends = {"c": {"app": b"", "ret": b"", "closed": False, "parked": False, "wparked": None, "queued": 0, "acked": 0},
            "s": {"app": b"", "ret": b"", "closed": False, "parked": False, "wparked": None, "queued": 0, "acked": 0}}
    i = 0   # ops
    j = 0   # obs

    def got(e, data, what):
        st = ends[e]
        st["ret"] += data
        if not st["app"].startswith(st["ret"]):
            out.append(("not-a-prefix;end=" + e, "%s on end %s returned %s, which does not continue what was appended (%s) after what was returned before (%s)"
                        % (what, e, data.hex(), st["app"].hex(), st["ret"][:-len(data) or None].hex())))

    def eof(e, what):
        st = ends[e]
        if not st["closed"]:
            out.append(("eof-before-close;end=" + e, "%s on end %s reported end-of-stream though nothing had closed that end" % (what, e)))
        if st["ret"] != st["app"]:
            out.append(("data-lost-on-close;end=" + e, "%s on end %s reported end-of-stream with %d of %d appended octets returned (%s)"
                        % (what, e, len(st["ret"]), len(st["app"]), case["line"][:300])))

    def woke(e):
        nonlocal j
        if j < len(obs) and obs[j] == "woke":
            ends[e]["parked"] = False
            if obs[j + 1] == "b":
                got(e, bytes.fromhex(obs[j + 2][1:]), "the released Read")
                j += 3
            else:
                eof(e, "the released Read")
                j += 2
            return True
        return False

    def wresult(e, toks, what, from_entry):
        """a Write outcome `w <n> ok|closed|err` on end e (toks: the three tokens)"""
        st = ends[e]
        n, how = int(toks[1]), toks[2]
        if how == "ok":
            if st["acked"] != st["queued"]:
                out.append(("write-ok-without-ack;end=" + e, "%s on end %s reported success with %d of %d queued chunks acknowledged (%s)"
                            % (what, e, st["acked"], st["queued"], case["line"][:300])))
            if from_entry and n > 0:            # (client: its own chunk was queued and acknowledged inside the call)
                st["queued"] += 1
                st["acked"] += 1
        else:
            if how == "closed" and not st["closed"]:
                out.append(("write-closed-on-open-end;end=" + e, "%s on end %s failed with os.ErrClosed though nothing had closed that end" % (what, e)))
            if from_entry and n > 0:
                st["queued"] += 1

    def wwoke(e):
        nonlocal j
        st = ends[e]
        if j < len(obs) and obs[j] == "wwoke":
            from_entry = st["wparked"] == "entry"
            if obs[j + 1] == "wblock":
                st["wparked"] = "final"
                st["queued"] += 1
                j += 3
            else:
                st["wparked"] = None
                wresult(e, obs[j + 1:j + 4], "the released Write", from_entry)
                j += 4
            return True
        return False

    try:
        while i < len(ops):
            o = ops[i]
            e = o[0]
            st = ends[e]
            if o in ("sw", "cv"):
                i += 2 if o == "sw" else 3
                r = obs[j]
                if r == "w":
                    wresult(e, obs[j:j + 3], "a Write", True)
                    j += 3
                elif r == "wblock":
                    if st["closed"] and e == "c":     # (cv after cc is below dc.Write's own refusal: not a state the application can reach)
                        st["below_refusal"] = True
                    if st["closed"] and e == "s":
                        out.append(("write-parks-after-close;end=" + e, "a Write on end %s parked although the end had been closed: it will never return (%s)" % (e, case["line"][:300])))
                    st["wparked"] = "final" if obs[j + 1] == "1" else "entry"
                    if obs[j + 1] == "1":
                        st["queued"] += 1
                    j += 2
                else:
                    j += 1                      # busy
            elif o == "sz":
                i += 2
                j += 1
                st["queued"] += 1
            elif o in ("sk", "ck"):
                i += 1
                ans = obs[j]
                j += 1
                if ans in ("ok", "ck") and st["acked"] < st["queued"]:
                    st["acked"] += 1
                wwoke(e)
            elif o in ("ca", "sa"):
                data = bytes.fromhex(ops[i + 1][1:])
                i += 2
                ans = obs[j]
                j += 1
                if ans in ("a", "ok"):
                    st["app"] += data
                woke(e)
            elif o in ("cr", "sr"):
                n = int(ops[i + 1])
                i += 2
                r = obs[j]
                if r == "b":
                    data = bytes.fromhex(obs[j + 1][1:])
                    j += 2
                    rem = len(st["app"]) - len(st["ret"])
                    got(e, data, "a Read")
                    if st["closed"] and n > 0 and len(data) != min(n, rem):
                        out.append(("short-read-after-close;end=" + e, "after the close a Read of %d octets returned %d with %d outstanding" % (n, len(data), rem)))
                else:
                    j += 1
                    if r == "eof":
                        eof(e, "a Read")
                    elif r == "block":
                        if st["closed"]:
                            out.append(("read-parks-after-close;end=" + e, "a Read on end %s parked although the end had been closed: it will never return (%s)" % (e, case["line"][:300])))
                        st["parked"] = True
            elif o in ("cc", "sc", "sq", "sx"):
                i += 1
                ans = obs[j]
                j += 1
                was_parked = st["parked"]
                if o != "sq" or ans == "ok":
                    st["closed"] = True
                released = woke(e)
                if st["closed"] and was_parked and not released:
                    out.append(("reader-not-released;end=" + e, "a Read was parked on end %s when %s closed it, and was not released (%s)" % (e, o, case["line"][:300])))
                w_was_parked = st["wparked"] is not None
                w_released = wwoke(e)
                if st["closed"] and w_was_parked and (not w_released or st["wparked"] is not None):
                    out.append(("writer-not-released;end=" + e, "a Write was parked on end %s (waiting for an acknowledgement) when %s closed it, and was not released: it will never return (%s)" % (e, o, case["line"][:300])))
            elif o == "sf":
                i += 1
                j += 1
            elif o in ("cw", "sw"):
                i += 1
                if o == "cw" and st["closed"] and obs[j] != "refused":
                    out.append(("write-after-close;end=c", "a Write on the closed client end was not refused"))
                j += 1
            else:
                return [("crash;carrier=dns-close", "unknown operation " + o)]
        if obs[j] != "end":
            return [("crash;carrier=dns-close", "observation out of step: " + impl[:200])]
        cpark, spark = obs[j + 4], obs[j + 5]
        for e, pk in (("c", cpark), ("s", spark)):
            if ends[e]["closed"] and pk != "0":
                out.append(("reader-not-released;end=" + e, "at the end a reader is still parked on the closed end " + e))
        for e, pk in (("c", obs[j + 6]), ("s", obs[j + 7])):
            if ends[e]["closed"] and pk != "0" and not ends[e].get("below_refusal") and not any(sg == "writer-not-released;end=" + e for sg, _ in out):
                out.append(("writer-not-released;end=" + e, "at the end a writer is still parked on the closed end " + e))
    except (IndexError, ValueError):
        return [("crash;carrier=dns-close", "observation out of step: " + impl[:200])]
    return out


def oracle_p(case, impl):
    p = case["line"].split()
    obs = impl.split()
    if not obs or obs[0] in BAD_WORDS or any(w in BAD_WORDS for w in obs):
        return [("crash;carrier=dns-poll", "the scenario did not run to its end: " + impl[:200])]
    out = []
    try:
        nf = int(p[3])
        sent = b""
        k = 4
        for _ in range(nf):
            if p[k] == "ok":
                sent += bytes.fromhex(p[k + 1][1:])
                k += 2
            else:
                k += 1
        used = int(obs[obs.index("used") + 1])
        e = obs.index("end")
        cclosed, sclosed, slot, cpark, spark = obs[e + 1], obs[e + 2], obs[e + 3], obs[e + 4], obs[e + 5]
        cw = obs[obs.index("cwoke") + 1:obs.index("swoke")]
        sw = obs[obs.index("swoke") + 1:e]
        cr = obs[obs.index("c", e) + 1:obs.index("s", e)]
        sr = obs[obs.index("s", e) + 1:]
        got = b""
        for seq in (cw, cr):
            for a, b in zip(seq, seq[1:]):
                if a == "b":
                    got += bytes.fromhex(b[1:])
        if not sent.startswith(got):
            out.append(("not-a-prefix;end=c", "the client read %s, not a prefix of what the server sent (%s)" % (got.hex(), sent.hex())))
        if ("eof" in cw or "eof" in cr) and cclosed != "1":
            out.append(("eof-before-close;end=c", "the client reader saw end-of-stream on an open connection"))
        if cclosed == "1" and (cw == ["parked"] or cr[-1:] != ["eof"]):
            out.append(("reader-not-released;end=c", "the client end is closed but its reader is parked / does not reach end-of-stream: " + impl[:200]))
        if slot != "live" and (sw == ["parked"] or sr[-1:] != ["eof"]):
            out.append(("reader-not-released;end=s", "the session is no longer live but the server-side reader is parked / does not reach end-of-stream: " + impl[:200]))
        if slot != "live" and used >= nf and cclosed != "1":
            out.append(("no-eof;carrier=dns-poll;closer=server", "the server end is closed and the path is clean, but the polling client never closed its end (%s)" % case["line"][:300]))
    except (IndexError, ValueError):
        return [("crash;carrier=dns-poll", "observation out of step: " + impl[:200])]
    return out


def oracle(case, impl):
    if case["line"].startswith("c17q ") or case["line"].startswith("c17qd "):
        return oracle_q(case, impl)
    if case["line"].startswith("c17p "):
        return oracle_p(case, impl)
    t = case["tags"]
    p = impl.split()
    if not p or p[0] in ("panic", "died", "timeout", "harness-error", "setup", "connect"):
        return [("crash;carrier=" + t["carrier"], "scenario failed to run: " + impl[:150])]
    if (t.get("variant") or "").startswith("premature:"):
        if "first-half" in p or "second-half" in p:
            return [("premature-eof;" + t["variant"][10:], "a logical connection was ended although neither of its ends closed (%s): %s" % (t["variant"][10:], impl[:120]))]
        return []
    if t.get("variant") == "soak":
        f = dict(zip(p[0::2], p[1::2]))
        out = []
        if int(f["lost"]) > 0:
            out.append(("data-lost-on-close;carrier=%s;closer=%s;soak" % (t["carrier"], t["side"]), "in %s of %s runs the octets written before the close did not all arrive, yet end-of-stream did (%s)" % (f["lost"], f["of"], case["line"])))
        if int(f["noeof"]) > 0:
            out.append(("no-eof;carrier=%s;closer=%s;soak" % (t["carrier"], t["side"]), "in %s of %s runs the other end did not see end-of-stream (%s)" % (f["noeof"], f["of"], case["line"])))
        if int(f["failed"]) * 20 > int(f["of"]):
            out.append(("crash;carrier=" + t["carrier"], "%s of %s runs could not be set up" % (f["failed"], f["of"])))
        return out
    if t.get("variant") == "io":
        out = []
        if p[:3] != ["up", str(t["n"]), "-1"] or p[3:6] != ["down", str(t["n"]), "-1"]:
            out.append(("data-lost-on-close;carrier=%s;closer=%s" % (t["carrier"], t["side"]), "the transfer before the close was not complete: " + impl))
        if p[-2:] != ["eof", "1"]:
            out.append(("no-eof;carrier=%s;closer=%s" % (t["carrier"], t["side"]), "the other end did not see end-of-stream within the bound (%s)" % case["line"]))
        return out
    f = dict(zip(p[0::2], p[1::2]))
    out = []
    if int(f["got"]) != t["n"] or int(f["diff"]) != -1:
        out.append(("data-lost-on-close;carrier=%s;closer=%s%s" % (t["carrier"], t["side"], ";" + t["variant"] if t.get("variant") else ""), "%s of %d bytes arrived before the close (%s)" % (f["got"], t["n"], case["line"])))
    if f["eof"] != "1":
        out.append(("no-eof;carrier=%s;closer=%s" % (t["carrier"], t["side"]), "the other end did not see end-of-stream within the bound (%s)" % case["line"]))
    return out


def shrink(case):
    """c17q scripts: one operation less (with its argument)."""
    p = case["line"].split()
    if p[0] not in ("c17q", "c17qd"):
        return
    ops = []
    i = 1
    while i < len(p):
        k = 3 if p[i] == "cv" else 2 if p[i] in ("ca", "sa", "cr", "sr", "sw", "sz") else 1
        ops.append(p[i:i + k])
        i += k
    for j in range(len(ops)):
        rest = ops[:j] + ops[j + 1:]
        if rest:
            c = q_case([" ".join(o) for o in rest], case["tags"].get("variant", "shrunk"))
            if p[0] == "c17qd":
                c["line"] = c["key"] = "c17qd" + c["line"][4:]
            yield c


def proj_p(obs):
    """c17p: the poll goroutine and the released reader are not synchronised with each other (a reader released by one chunk may run after
    the next chunk has arrived too), so how the octets are cut over the Reads is not compared: the octets, in order, and how the Reads end."""
    t = obs.split()
    try:
        e = t.index("end")
        cw = t[t.index("cwoke") + 1:t.index("swoke")]
        sw = t[t.index("swoke") + 1:e]
        cr = t[t.index("c", e) + 1:t.index("s", e)]
        sr = t[t.index("s", e) + 1:]
    except ValueError:
        return ("unparsed", obs)

    def data(*seqs):
        d = ""
        for seq in seqs:
            for a, b in zip(seq, seq[1:]):
                if a == "b":
                    d += b[1:]
        return d

    def last(seq):
        ws = [w for w in seq if w in ("eof", "block", "busy")]
        return ws[-1] if ws else "data"
    return (t[:t.index("cwoke")], cw[0], sw[0], t[e:e + 8], data(cw, cr), last(cr), data(sw, sr), last(sr))


def agree(case, impl, model):
    if case["line"].startswith("c17q ") or case["line"].startswith("c17qd "):
        return None if impl.strip() == model.strip() else "dns-close-protocol"
    if case["line"].startswith("c17p "):
        return None if proj_p(impl) == proj_p(model) else "dns-poll-close"
    i = impl.split()
    if "ms" in i:
        i = i[:i.index("ms")]
    return None if " ".join(i) == model else "close-propagation"


META = {
    "level_text": "Partial: Coq theorems over the copy-loop and PipeData models: end-of-stream is reported only after everything read has been "
                  "written, the selector then closes the other side, and every execution terminates; FIN-after-data is the multiplexer's "
                  "contract (hypothesis). Write-then-close scenarios in both directions run on every carrier. For the DNS tunnel connection "
                  "the close / end-of-stream protocol is a model of its own (in-queue with parked reader, both ends' Read/Write/Close, close "
                  "request, expiry, SendAndReceive, poll goroutine): proved for every operation sequence and path script - no loss or "
                  "duplication by closing, end-of-stream only after everything on a closed end, no Read parks after a close, drain within "
                  "ceil(buffered/n)+1 Reads, BADCONN and the give-up rule close a polling client, a Write waiting for its acknowledgement is "
                  "released with os.ErrClosed by whatever ends the session and reports success only after the acknowledgement - and run token "
                  "for token against the real objects, including the real poll goroutine.",
    "level_note": "smux FIN ordering, kernel socket buffers and TLS close_notify are hypotheses exercised end to end. DNS close model: one "
                  "reader per end, operations atomic, read deadlines and the out-queue's parked writers not modelled.",
    "technique": "Coq invariant proofs over the copy-loop model and over the DNS close-protocol model (extracted, run against the real "
                 "objects) + write-then-close scenarios on every carrier",
}
