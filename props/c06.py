"""C06 - the session handshake admits exactly well-formed, compatible peers."""
PID = "C06"
RULE = ("server role: the valid two-message exchange with per-token mutations (method, URL, proto, each header name/value, version lists "
        "with spaces/duplicates/case, upgrade token, connection token, Security header), truncations at every offset, lines of 4095/4096/"
        "4097/70000 bytes, binary garbage, bare LF, NUL, trailing payload; every input delivered in one segment, byte-wise or randomly cut, "
        "and cut after every LF (c06x reports whether the outcomes agree); client role: scripted server byte strings (valid, other statuses, "
        "missing reason phrase, garbage, truncated). distinct_nontrivial = distinct inputs other than the canonical exchange")
EXPLANATION = ("Props/C06.v: admission iff well-formed announce + matching upgrade, error status or close otherwise, independence from "
               "segmentation, totality (no panic) for both roles, and hand-over of read-ahead bytes; the run drives NewServerConnection / "
               "NewClientConnection over an in-memory duplex with scripted segmentation.")
TRUSTED = ["net/textproto and bufio are specification-level models validated only differentially", "an endless header line (unbounded memory) is not a finite byte string and is outside the quantifier"]
RUN_TIMEOUT = 1800

V = "v2.0.0"


def hx(b):
    return "#" + bytes(b).hex()


def announce(method="X-SOCKETACE", url="/", proto="HTTP/1.1", versions=V, hname="Accepts-Protocol-Version", extra=""):
    return "%s %s %s\r\n%s: %s\r\nUser-Agent: socketace/test\r\n%s\r\n" % (method, url, proto, hname, versions, extra)


def upgrade(method="GET", url="/", proto="HTTP/1.1", up="socketace/" + V, conn="upgrade", extra=""):
    return "%s %s %s\r\nUser-Agent: socketace/test\r\nUpgrade: %s\r\nConnection: %s\r\n%s\r\n" % (method, url, proto, up, conn, extra)


def mk(secure, cert, data, expect, src):
    if isinstance(data, str):
        data = data.encode("latin-1")
    line = "c06x %d %d %s %d" % (secure, cert, hx(data), len(data) % 97)
    return {"line": line, "key": line if src != "canonical" else None, "tags": {"src": src, "expect": expect, "len": len(data)}}


def server_cases(rng, thorough):
    cs = []
    ok = announce() + upgrade()
    cs.append(mk(0, 0, ok, "ok", "canonical"))
    cs.append(mk(1, 0, ok, "ok", "canonical"))
    cs.append(mk(0, 1, ok, "ok", "canonical"))
    cs.append(mk(0, 0, ok + "PAYLOAD\x00\xff\r\n\r\nmore", "ok", "trailing-payload"))
    # valid variants
    for v in [V + ", v1", "v1, " + V, "v1 ,  " + V + " , v3", V + "," + V]:
        cs.append(mk(0, 0, announce(versions=v) + upgrade(), "ok", "version-list"))
    cs.append(mk(0, 0, announce(hname="accepts-protocol-version") + upgrade(), "ok", "header-case"))
    cs.append(mk(0, 0, announce(extra="X-Foo: bar\r\n") + upgrade(extra="X-Bar: baz\r\n"), "ok", "extra-headers"))
    cs.append(mk(0, 0, announce(url="/anything", proto="HTTP/9.9") + upgrade(url="/x", proto="FOO"), "ok", "url-proto-free"))
    cs.append(mk(0, 0, announce() + upgrade(conn="UPGRADE"), "ok", "connection-case"))
    cs.append(mk(0, 0, (announce() + upgrade()).replace("\r\n", "\n"), "ok", "bare-lf"))
    # invalid
    for m in ["GET", "x-socketace", "X-SOCKETACE2", "POST", ""]:
        cs.append(mk(0, 0, announce(method=m) + upgrade(), "err", "announce-method"))
    for v in ["v1", "", "v2.0", "V2.0.0", "v2.0.0x", "v1;v2.0.0"]:
        cs.append(mk(0, 0, announce(versions=v) + upgrade(), "err", "announce-version"))
    cs.append(mk(0, 0, announce(hname="Accepts-Version") + upgrade(), "err", "announce-header-missing"))
    for m in ["X-SOCKETACE", "get", "POST"]:
        cs.append(mk(0, 0, announce() + upgrade(method=m), "err", "upgrade-method"))
    for u in ["socketace/v1", "socketace", V, "socketace/" + V + "x", ""]:
        cs.append(mk(0, 0, announce() + upgrade(up=u), "err", "upgrade-token"))
    for c in ["keep-alive", "", "upgrade, x"]:
        cs.append(mk(0, 0, announce() + upgrade(conn=c), "err", "upgrade-connection"))
    cs.append(mk(0, 0, announce() + upgrade(extra="Security: StartTLS\r\n"), "err", "starttls-without-cert"))
    cs.append(mk(0, 0, announce() + upgrade(extra="Security: other\r\n"), "ok", "security-other"))
    # a server that requires client certificates (cert 2): on an unencrypted carrier a peer that does not ask for StartTLS is refused (it
    # could not present a certificate); on a carrier that is already encrypted the certificate was demanded underneath
    cs.append(mk(0, 2, ok, "err", "reqcc-plain"))
    cs.append(mk(0, 2, ok + "PAYLOAD", "err", "reqcc-plain"))
    cs.append(mk(0, 2, announce() + upgrade(extra="Security: other\r\n"), "err", "reqcc-plain"))
    cs.append(mk(0, 2, announce() + upgrade(extra="Security: \r\n"), "err", "reqcc-plain"))
    cs.append(mk(1, 2, ok, "ok", "reqcc-secure-carrier"))
    cs.append(mk(0, 2, announce() + upgrade(conn="x"), "err", "reqcc-plain"))
    cs.append(mk(0, 0, "X-SOCKETACE\r\n\r\n", "err", "no-spaces"))
    cs.append(mk(0, 0, "X-SOCKETACE /\r\n\r\n", "err", "one-space"))
    cs.append(mk(0, 0, " \r\n\r\n", "err", "blank-ish"))
    cs.append(mk(0, 0, "\r\n\r\n", "err", "empty-line"))
    cs.append(mk(0, 0, "", "err", "empty"))
    cs.append(mk(0, 0, "X-SOCKETACE / HTTP/1.1\r\nNoColonHere\r\n\r\n", "err", "bad-header"))
    cs.append(mk(0, 0, "X-SOCKETACE / HTTP/1.1\r\n : v\r\n\r\n", "err", "bad-header"))
    for n in ([4095, 4096, 4097, 70000] if thorough else [4095, 4097, 20000]):
        cs.append(mk(0, 0, announce(extra="X-Long: " + "a" * n + "\r\n") + upgrade(), "ok", "long-header"))
        cs.append(mk(0, 0, "X-SOCKETACE /" + "a" * n + " HTTP/1.1\r\nAccepts-Protocol-Version: v2.0.0\r\n\r\n" + upgrade(), "ok", "long-url"))
        cs.append(mk(0, 0, "A" * n, "err", "long-garbage"))
    # truncations of the valid exchange
    offs = range(0, len(ok)) if thorough else sorted(set([rng.below(len(ok)) for _ in range(25)] + [0, 1, 22, 23, 24, len(ok) - 1]))
    for o in offs:
        cs.append(mk(0, 0, ok[:o], "err", "truncated"))
    # binary garbage
    for _ in range(200 if thorough else 30):
        n = rng.range(1, 300)
        b = bytearray(rng.bytes(n))
        if rng.chance(1, 2):
            for i in range(0, n, rng.range(5, 40)):
                b[i:i + 2] = b"\r\n"[:min(2, n - i)]
        cs.append(mk(0, 0, bytes(b[:n]), None, "garbage"))
    # random single-byte corruption of the valid exchange
    for _ in range(300 if thorough else 40):
        b = bytearray(ok.encode())
        i = rng.below(len(b))
        b[i] = rng.below(256)
        cs.append(mk(rng.below(2), 0, bytes(b), None, "corrupt1"))
    return cs


def client_cases(rng, thorough):
    cs = []
    r1 = "HTTP/1.1 200 OK\r\nServer: socketace/x\r\nProtocol-Version: v2.0.0\r\n\r\n"
    r2 = "HTTP/1.1 101 Switching Protocols\r\nProtocol-Version: v2.0.0\r\nUpgrade: socketace/v2.0.0\r\nConnection: upgrade\r\n\r\n"

    def mkc(chunks, expect, src):
        line = "c06c 0 %d %s" % (len(chunks), " ".join(hx(c.encode("latin-1") if isinstance(c, str) else c) for c in chunks))
        return {"line": line.strip(), "key": line, "tags": {"src": "client-" + src, "expect": expect, "len": sum(len(c) for c in chunks)}, "model": True}
    cs.append(mkc([r1, r2], "ok", "valid"))
    cs.append(mkc([r1, r2 + "REST\x00"], "ok", "valid-rest"))
    cs.append(mkc([r1, r2[:30], r2[30:] + "AB"], "ok", "valid-split"))
    for st in ["400 Bad Request", "409 Conflict", "405 Method Not Allowed", "500 X", "101 Switching Protocols"]:
        cs.append(mkc(["HTTP/1.1 %s\r\n\r\n" % st], "err", "first-status"))
    for st in ["200 OK", "406 Not acceptable", "503 Service Unavailable", "100 Continue"]:
        cs.append(mkc([r1, "HTTP/1.1 %s\r\n\r\n" % st], "err", "second-status"))
    cs.append(mkc(["HTTP/1.1 200\r\n\r\n", r2], None, "no-reason"))
    cs.append(mkc(["HTTP/1.1 abc OK\r\n\r\n"], "err", "bad-status"))
    cs.append(mkc(["HTTP/1.1 99999999999999999999 OK\r\n\r\n"], "err", "bad-status"))
    cs.append(mkc(["\r\n\r\n"], "err", "empty-line"))
    cs.append(mkc(["HTTP/1.1"], "err", "truncated"))
    cs.append(mkc([r1], "err", "truncated"))
    cs.append(mkc([r1, r2[:20]], "err", "truncated"))
    cs.append(mkc([r1.replace("v2.0.0", "v7"), r2], None, "other-version"))
    for _ in range(100 if thorough else 20):
        n = rng.range(1, 200)
        cs.append(mkc([rng.bytes(n)], None, "garbage"))
    return cs


def cases(tier, rng):
    thorough = tier == "thorough"
    return server_cases(rng, thorough) + client_cases(rng, thorough) + starttls_cases()


def starttls_cases():
    """The StartTLS upgrade with a real TLS client of the scenario's own: the hello after the 101 (as the stock client sends it), in the same
    transport read as the upgrade request, and in the same read as both requests (implementation only: real crypto/tls on both sides)."""
    cs = []
    for mode in ("separate", "coalesced", "coalesced-all"):
        line = "c06tls " + mode
        cs.append({"line": line, "key": line, "model": False, "tags": {"src": "starttls-" + mode, "expect": "ok", "side": "server", "n": 3}})
    return cs


def oracle(case, impl):
    p = impl.split()
    t = case.get("tags", {})
    if not p or p[0] in ("panic", "died", "timeout", "harness-error"):
        return [("crash;site=" + (p[1] if len(p) > 1 else "?"), "the handshake crashed the process on: " + case["line"][:200])]
    out = []
    if case["line"].startswith("c06tls"):
        if p[:2] != ["hs", "ok"] or p[3] != "1" or p[5] != "ok":
            if case["line"].endswith("separate"):
                return [("wellformed-refused;kind=starttls", "a StartTLS client that sends its hello after the 101 got no working TLS session: " + impl)]
            return [("segmentation-changes-outcome;starttls", "the same octets as a working StartTLS upgrade, with the TLS hello in the same transport read as the request(s), give no working session: %s -> %s" % (case["line"], impl))]
        return []
    if p[0] == "same":
        if p[1] != "1":
            out.append(("segmentation-dependent", "the outcome depends on how the byte stream was cut into transport reads: " + case["line"][:160]))
        p = p[2:]
    if "hang" in p:
        out.append(("hang", "the handshake neither completed nor failed after end of input: " + case["line"][:160]))
        return out
    res = p[p.index("result") + 1]
    if p[0] == "status":
        codes = [int(x) for x in p[1:p.index("result")]]
        if res == "ok":
            if codes != [200, 101]:
                out.append(("admitted-with-error-status", "session established although the statuses written were %r" % (codes,)))
        else:
            if codes and codes[-1] < 400 and not (codes == [200] or codes == [200, 101]):
                out.append(("refused-without-error-status", "no session, but the last status written was %r" % (codes,)))
    exp = t.get("expect")
    if exp == "ok" and res != "ok":
        out.append(("wellformed-refused;kind=" + t.get("src", ""), "a well-formed, compatible peer was refused: " + impl[:120]))
    if exp == "err" and res == "ok":
        out.append(("malformed-admitted;kind=" + t.get("src", ""), "a session was established on malformed or incompatible input: " + case["line"][:200]))
    if res == "ok" and t.get("src") in ("trailing-payload", "client-valid-rest", "client-valid-split") and "rest" in p:
        rest = bytes.fromhex(p[p.index("rest") + 1][1:])
        if t["src"] == "trailing-payload" and rest != b"PAYLOAD\x00\xff\r\n\r\nmore":
            out.append(("readahead-lost", "bytes following the handshake were not handed on intact: %r" % rest))
        if t["src"] == "client-valid-rest" and rest != b"REST\x00":
            out.append(("readahead-lost", "bytes following the handshake were not handed on intact: %r" % rest))
        if t["src"] == "client-valid-split" and rest != b"AB":
            out.append(("readahead-lost", "bytes following the handshake were not handed on intact: %r" % rest))
    return out


def agree(case, impl, model):
    return None if impl == model else "handshake-outcome"


def distribution(cs):
    d = {}
    for c in cs:
        k = c["tags"]["src"]
        d[k] = d.get(k, 0) + 1
    return d


META = {
    "level_text": "Coq theorems over models of the request/response line parsers, the header reader and both handshake state machines: a session is "
                  "established iff a well-formed announce offering a supported version is followed by a matching upgrade; otherwise an error "
                  "status or close; the outcome is a function of the concatenated bytes (not of their segmentation); neither role can be made "
                  "to panic; read-ahead bytes are handed on. Both roles are run over an in-memory duplex with scripted segmentation.",
    "level_note": "bufio and net/textproto are specification-level models (validated differentially); TLS is an oracle in the model (C04/C05).",
    "technique": "Coq proof over parser and state-machine models + differential correspondence with scripted segmentation",
}
