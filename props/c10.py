"""C10 - DNS tunnel responses survive the wire for every record type."""
PID = "C10"
CODECS = {84: "Base32", 83: "Base64", 85: "Base64u", 87: "Base85", 88: "Base91", 86: "Base128", 82: "Raw"}
CLASS = {84: "alnum", 83: "alnum", 85: "alnum", 87: "punct", 88: "punct", 86: "8bit", 82: "raw"}
RT = {10: "NULL", 65000: "PRIVATE", 16: "TXT", 33: "SRV", 15: "MX", 5: "CNAME", 28: "AAAA", 1: "A"}
ERRS = ["BADVER", "BADLEN", "BADIP", "BADCOMMAND", "BADCODEC", "BADFRAG", "BADUSER", "BADCONN", "VFUL", "VOK", "VACK", "VNAK", "LACK", "TIMEOUT"]
RULE = ("c10: 8 record types x 7 downstream codecs x 7 response kinds x error codes (all of BadErrors + an arbitrary string) x payload "
        "lengths {0..5, 13..16, 56..58, 234..256, 505..512, 1000, 4096, 8192} (+ 65529..65531 for NULL/PRIVATE in thorough) x domains x content "
        "{random, all byte values cycled, escape-sensitive bytes at chunk borders}; real server serializer -> Pack -> Unpack -> client "
        "decoder. distinct_nontrivial = distinct (record type, codec, kind, length class, content class)")
EXPLANATION = ("Props/C10.v: wrap/unwrap and response (de)serialisation round trip through modelled record packing for the combinations proved "
               "to carry, and 'never a silently different payload'; refuted combinations carry witnesses and known-finding entries. "
               "The real pipeline is run for all combinations and the property evaluated on its outputs.")
TRUSTED = ["miekg/dns record packing/unpacking (TXT character strings, names, A/AAAA/NULL/private rdata) is a specification-level model validated only differentially"]
RUN_TIMEOUT = 1800


def hx(b):
    return "#" + bytes(b).hex()


DOMS = [b"a.b", b"example.org", b"t.tunnel.example-domain.co.uk", b"x" * 50 + b"." + b"y" * 40 + b".zz"]


def content(kind, n, rng):
    if kind == "rand":
        return rng.bytes(n)
    if kind == "cycle":
        return bytes((i * 37 + 11) & 255 for i in range(n))
    if kind == "esc":
        return (b"\\\".();@ '\x00\xff" * (n // 11 + 1))[:n]
    if kind == "bs":          # a backslash at every position: whatever the chunk borders are, one falls on each
        return b"\\" * n
    if kind == "bsdigit":     # text that reads as a presentation-format escape wherever it is cut
        return (b"\\065" * (n // 4 + 1))[:n]
    if kind == "quote":
        return b'"' * n
    if kind == "hi":          # octets the DNS library prints as \DDD
        return bytes([0xe9, 0x5c, 0x30, 0x36, 0x35]) * (n // 5) + b"\xe9" * (n % 5)
    return bytes(n)


def lenclass(n):
    for b in (0, 1, 3, 5, 16, 58, 233, 256, 512, 1000, 4096, 8192, 65535):
        if n <= b:
            return "<=%d" % b
    return ">65535"


def mk(qt, codec, dom, resp, src, n, ck):
    line = "c10 %d %d %s %s" % (qt, codec, hx(dom), resp)
    return {"line": line, "key": (qt, codec, resp.split()[0], lenclass(n), ck),
            "tags": {"src": src, "rt": RT[qt], "codec": codec, "kind": resp.split()[0], "n": n, "ck": ck}, "resp": resp}


def cases(tier, rng):
    thorough = tier == "thorough"
    cs = []
    lens = [0, 1, 2, 3, 4, 5, 13, 14, 15, 16, 56, 57, 58, 234, 250, 253, 254, 255, 256, 505, 512, 1000, 4096, 8192]
    for qt in RT:
        for codec in CODECS:
            if codec == 82 and qt not in (10, 65000, 16):
                continue      # Raw is only selectable where the record carries arbitrary octets (NULL, PRIVATE) and, by the client's rule, TXT
            dom = rng.choice(DOMS)
            pick = lens if thorough else [rng.choice(lens) for _ in range(5)] + [0, 3, 57]
            for n in pick:
                ck = rng.choice(["rand", "cycle", "esc", "zero"])
                d = content(ck, n, rng)
                kind = rng.choice(["pkt", "frag", "up", "down"])
                if kind == "pkt":
                    r = "pkt none %d %d %d %s" % (rng.choice([0, 1, 255, 256, 65535]), 1 if n else rng.below(2), rng.choice([0, 1, 65535]), hx(d))
                elif kind == "frag":
                    r = "frag none %d %s" % (n, hx(d))
                elif kind == "up":
                    r = "up none %s" % hx(d)
                else:
                    r = "down none %s" % hx(d)
                cs.append(mk(qt, codec, rng.choice(DOMS) if thorough else dom, r, "data", n, ck))
            # escape-sensitive octets at every chunk border (every splitter cuts somewhere inside these)
            for ck in ("bs", "bsdigit", "quote", "hi"):
                n = rng.choice([260, 520, 600, 1030]) if not thorough else rng.choice([254, 260, 507, 520, 600, 1030, 2000])
                kind = rng.choice(["frag", "up", "down", "pkt"])
                d = content(ck, n, rng)
                r = {"frag": "frag none %d %s" % (n, hx(d)), "up": "up none %s" % hx(d), "down": "down none %s" % hx(d),
                     "pkt": "pkt none 7 1 9 %s" % hx(d)}[kind]
                cs.append(mk(qt, codec, dom, r, "border", n, ck))
            # the number of records an order tag can count: A records carry 3 octets each behind a one-octet tag (255 / 256 / 257 records)
            if qt == 1:
                for n in (range(440, 500) if thorough else range(466, 482)):
                    cs.append(mk(qt, codec, dom, "frag none %d %s" % (n, hx(content("cycle", n, rng))), "tag-capacity", n, "cycle"))
            # many records: the order tags of CNAME (two base-32 characters), MX and SRV (preference / priority) have to keep more than
            # 32 records in order
            if qt in (5, 15, 33) and codec in (84, 86):
                for n in ((4700, 6000, 8000) if thorough else (6000,)):
                    cs.append(mk(qt, codec, b"example.org", "frag none %d %s" % (n, hx(content("cycle", n, rng))), "many-records", n, "cycle"))
            # error and status responses
            for e in (ERRS if thorough else [rng.choice(ERRS), rng.choice(ERRS)]) + ["custom:" + bytes(b or 1 for b in rng.bytes(rng.range(1, 9))).hex()]:   # Go error texts hold no NUL (c10_custom_error_nul_refuted shows what a NUL would do)
                kind = rng.choice(["ver", "pkt", "opt", "frag", "up", "down", "error"])
                r = {"ver": "ver %d %d %s" % (rng.choice([0, 1282, 4294967295]), rng.choice([0, 35, 36, 1295]), e),
                     "pkt": "pkt %s 0 0 0 #" % e, "opt": "opt %s" % e, "frag": "frag %s 0 #" % e, "up": "up %s #" % e,
                     "down": "down %s #" % e, "error": "error %s" % e}[kind]
                cs.append(mk(qt, codec, dom, r, "error", 0, "err"))
            cs.append(mk(qt, codec, dom, "ver %d %d none" % (rng.choice([0, 1282, 4294967295]), rng.choice([0, 35, 36, 1295])), "status", 0, "ok"))
            cs.append(mk(qt, codec, dom, "opt none", "status", 0, "ok"))
            cs.append(mk(qt, codec, dom, "pkt none %d 0 0 #" % rng.choice([0, 65535]), "status", 0, "ok"))
    # every length of tunnel domain: how much of a name-carrying record (CNAME, MX, SRV) is left for data depends on it, label dots and
    # tag characters included - a response of several full records under each
    def dom_of(L):
        lab = b"abcdefghijklmnopqrstuvwxy"
        out = b""
        while len(out) < L:
            out += lab[:min(len(lab), L - len(out))]
            if len(out) < L - 1:
                out += b"."
        return out[:L - 1] + b"z" if out.endswith(b".") else out
    for qt in (5, 15, 33):
        for L in range(3, 141):
            if not thorough and qt != 5 and L % 3:
                continue
            n = rng.choice([300, 420])
            cs.append(mk(qt, 84, dom_of(L), "frag none %d %s" % (n, hx(content("cycle", n, rng))), "domain-length", n, "cycle"))
            cs[-1]["key"] = (qt, "domlen", L)
    # AAAA answers of 256 records and more (14 octets each behind a two-octet order tag)
    for codec in ((84, 86, 83) if thorough else (84, 86)):
        for n in (list(range(2235, 2250)) + [3200, 5000] if codec == 84 else list(range(3120, 3150)) + [5000]):
            cs.append(mk(28, codec, b"example.org", "frag none %d %s" % (n, hx(content("cycle", n, rng))), "tag-capacity", n, "cycle"))
            cs[-1]["key"] = (28, codec, "tagcap", n)
    # TXT answers around one and two full strings (the first string also carries the order tag), octet by octet
    for codec in (82, 84):
        for n in (list(range(225, 265)) + list(range(480, 520))) if (thorough or codec == 82) else range(140, 165):
            cs.append(mk(16, codec, b"example.org", "frag none %d %s" % (n, hx(content("rand", n, rng))), "txt-string-border", n, "rand"))
            cs[-1]["key"] = (16, codec, "txtborder", n)
    if thorough:
        for qt in (10, 65000):
            for codec in (84, 88, 82):
                for n in (65529, 65530, 65531, 40000):
                    d = content("rand", n, rng)
                    cs.append(mk(qt, codec, b"a.b", "frag none %d %s" % (n, hx(d)), "huge", n, "rand"))
    return cs


def oracle(case, impl):
    p = impl.split()
    t = case.get("tags", {})
    sigbase = "rt=%s;class=%s" % (t.get("rt"), CLASS.get(t.get("codec")))
    if not p or p[0] in ("panic", "died", "timeout", "harness-error"):
        site = p[1] if len(p) > 1 else "?"
        return [(sigbase + ";cause=panic:" + site, "response path crashed (%s): %s" % (impl[:100], case["line"][:160]))]
    want = case.get("resp") or " ".join(case["line"].split()[4:])
    if p[0] == "encerr":
        return []     # the server reports that it cannot carry this payload: allowed by the property
    if "packerr" in p or "unpackerr" in p:
        return [("rt=%s;cause=packerr" % t.get("rt"), "the wrapped answer cannot be packed (the answer is never sent; the client only sees a time-out): " + case["line"][:160])]
    if "decerr" in p:
        return [(sigbase + ";cause=decerr", "the client cannot decode the answer (an error, not a different payload): " + case["line"][:160])]
    got = " ".join(p[p.index("wire") + 3:]) if "wire" in p else ""
    if got != norm(want):
        return [(sigbase + ";cause=SILENT-DIFFERENT", "client decoded [%s], server sent [%s]" % (got[:120], norm(want)[:120]))]
    return []


def norm(r):
    f = r.split()
    if f[0] == "pkt":
        if f[1] != "none":
            return "pkt %s 0 0 0 #" % f[1]
        if f[3] == "0":
            return "pkt none %s 0 0 #" % f[2]
    if f[0] == "ver":
        if f[3] != "none":
            return " ".join(f)
    if f[0] == "frag" and f[1] != "none":
        return "frag %s 0 #" % f[1]
    if f[0] in ("up", "down") and f[1] != "none":
        return "%s %s #" % (f[0], f[1])
    return " ".join(f)


def agree(case, impl, model):
    return None if impl == model else "response-wire"


def distribution(cs):
    d = {}
    for c in cs:
        t = c["tags"]
        k = "%s/%s/%s" % (t["rt"], CODECS[t["codec"]], t["src"])
        d[k] = d.get(k, 0) + 1
    return {"total": len(cs), "kinds": len(d)}


META = {
    "level_text": "Coq theorems over models of the eight WrapDnsResponse* splitters, TypePriority/UnwrapDnsResponse, the seven response layouts "
                  "and miekg's record packing: round trip for the (record type, codec) combinations that carry, 'never a silently different "
                  "payload', and record order; combinations that do not carry are refuted with witnesses and listed as findings. The real "
                  "serializer -> Pack -> Unpack -> decoder pipeline runs on every check for all combinations.",
    "level_note": "miekg/dns record packing is a specification-level model. Known findings (KNOWN_FINDINGS.txt) list, per record type and codec "
                  "class, the causes for which a payload is not carried.",
    "technique": "Coq proof over a record-wrapping model + differential correspondence through real DNS packing",
}
