"""C08 - codecs are lossless, alphabet-confined and bounded."""
PID = "C08"
CODECS = {84: "Base32", 83: "Base64", 85: "Base64u", 87: "Base85", 88: "Base91", 86: "Base128", 89: "Base192", 82: "Raw"}
RATIO = {84: (8, 5), 83: (4, 3), 85: (4, 3), 87: (5, 4), 88: (1231, 1000), 86: (8, 7), 89: (16, 15), 82: (1, 1)}
SLACK = 2
RULE = ("enc cases: codec x input; inputs = exhaustive lengths 0..1 (quick) / 0..2 (thorough), structured fills "
        "(zero, ff, 55, walking bit, counter, repeated block) over a length range, random content at lengths peaked around "
        "multiples of 3,4,5,7,13,15 and 57,63,253,255; dec cases: alphabet strings not produced by the encoder, one foreign "
        "byte, wrong lengths. distinct_nontrivial = distinct (op, codec, length, fill) with non-empty input")
EXPLANATION = ("Theorems in Props/C08.v quantify over all byte strings; the correspondence run compares encode/decode of the "
               "extracted Gallina codecs with enc.Encoder on the same inputs, and evaluates round trip, alphabet and bound on the "
               "implementation's own outputs.")
TRUSTED = ["specification-level models (validated only differentially): encoding/base32, encoding/base64, encoding/ascii85; "
           "faithful models: mtraver/base91, luci base128.Decode, Base128Encoder, Base192Encoder, Base85 wrapper"]


def hx(b):
    return "#" + bytes(b).hex()


def mk(op, code, data, fill):
    return {"line": "%s %d %s" % (op, code, hx(data)), "key": (op, code, len(data), fill) if len(data) else None,
            "tags": {"op": op, "codec": code, "len": len(data), "fill": fill}, "data": bytes(data)}


def fills(n, rng):
    yield "zero", bytes(n)
    yield "ff", b"\xff" * n
    yield "55", b"\x55" * n
    if n:
        w = bytearray(n)
        w[rng.below(n)] = 1 << rng.below(8)
        yield "bit", bytes(w)
    yield "counter", bytes((i * 7 + 3) & 255 for i in range(n))
    yield "block", (b"\x00\x00\x00\x00\xde\xad\xbe\xef\x2e\x5c\x60" * (n // 11 + 1))[:n]
    yield "random", rng.bytes(n)


def cases(tier, rng):
    cs = []
    thorough = tier == "thorough"
    for code in CODECS:
        cs.append(mk("enc", code, b"", "empty"))
        for a in range(256):
            cs.append(mk("enc", code, bytes([a]), "exh1"))
        if thorough:
            for a in range(256):
                for b in range(256):
                    cs.append(mk("enc", code, bytes([a, b]), "exh2"))
        else:
            for _ in range(1500):
                cs.append(mk("enc", code, rng.bytes(2), "exh2-sample"))
        top = 4100 if thorough else 300
        stepn = 1
        for n in range(0, top + 1, stepn):
            fl = list(fills(n, rng))
            if not thorough and n > 64:
                fl = [fl[rng.below(len(fl))], fl[-1]]
            for name, d in fl:
                cs.append(mk("enc", code, d, name))
        peaks = [3, 4, 5, 7, 13, 15]
        for _ in range(3000 if thorough else 300):
            if rng.chance(1, 3):
                n = rng.choice([57, 63, 253, 255, 256, 1024]) + rng.range(-2, 2)
            else:
                n = rng.choice(peaks) * rng.range(0, 40) + rng.range(-1, 1)
            n = max(0, n)
            d = bytearray(rng.bytes(n))
            if rng.chance(1, 4):  # zero-rich: exercises ascii85 'z' and basE91's 14-bit branch
                for i in range(len(d)):
                    if rng.chance(2, 3):
                        d[i] = 0
            cs.append(mk("enc", code, bytes(d), "random"))
    # several values on one codec instance, results kept while later calls run (implementation only: the model is a function of its input)
    for code in CODECS:
        if code == 89:
            continue          # Base192 does not round-trip at all (known finding)
        for _ in range(60 if thorough else 8):
            k = rng.range(2, 6)
            vals = [rng.bytes(rng.choice([1, 3, 8, 20, 57, 100])) for _ in range(k)]
            line = "encseq %d %s" % (code, " ".join(hx(v) for v in vals))
            cs.append({"line": line, "key": ("encseq", code, k, len(vals[0])), "model": False, "tags": {"op": "encseq", "codec": code, "len": sum(map(len, vals)), "fill": "seq"}})
    # decoder-side (malformed) stream
    alph = {
        84: b"abcdefghijklmnopqrstuvwxyz012345", 83: b"abcdefghijklmnopqrstuvwxyzABCDEFGHIJKLMNOPQRSTUVWXYZ-0123456789+",
        85: b"abcdefghijklmnopqrstuvwxyzABCDEFGHIJKLMNOPQRSTUVWXYZ-0123456789_",
        87: bytes(range(33, 118)) + b"vwxz", 88: b"ABCDEFGHIJKLMNOPQRSTUVWXYZabcdefghijklmnopqrstuvwxyz0123456789!#$%&()*+,-/:;<=>?@[]^_`{|}~\"",
        86: bytes(list(b"abcdefghijklmnopqrstuvwxyzABCDEFGHIJKLMNOPQRSTUVWXYZ0123456789") + list(range(188, 254))),
        89: bytes(range(256)), 82: bytes(range(256)),
    }
    for code in CODECS:
        for _ in range(2000 if thorough else 250):
            n = rng.range(0, 40)
            s = bytearray(rng.choice(alph[code]) for _ in range(n))
            kind = "alpha"
            if n and rng.chance(1, 4):
                s[rng.below(n)] = rng.below(256)
                kind = "foreign"
            cs.append(mk("dec", code, bytes(s), kind))
    for b in range(256):
        cs.append({"line": "fromcode %d" % b, "key": ("fromcode", b), "tags": {"op": "fromcode", "b": b}})
    return cs


def dns_safe(b):
    return 33 <= b < 256 and b not in (46, 92, 127)


def oracle(case, impl):
    t = case.get("tags", {})
    parts = impl.split()
    op = case["line"].split()[0]
    if parts and parts[0] in ("panic", "died", "timeout"):
        return [("panic=" + (parts[1] if len(parts) > 1 else "?"), "codec operation crashed: " + impl[:200])]
    if parts and parts[0] == "harness-error":
        return [("harness-error", impl[:200])]
    if op == "encseq":
        if parts[0] != "keep" or any(x != "1" for x in parts[1:]):
            return [("codec=%s;kind=result-overwritten" % CODECS.get(int(case["line"].split()[1]), "?"),
                     "an encoding (or decoding) handed out earlier no longer represents its input after later calls on the same codec: %s -> %s" % (case["line"][:200], impl))]
        return []
    if op == "enc":
        ls = case["line"].split()
        code = int(ls[1])
        data = bytes.fromhex(ls[2][1:])
        name = CODECS.get(code, "?")
        enc = bytes.fromhex(parts[0][1:])
        out = []
        if len(parts) < 3 or parts[1] != "ok" or bytes.fromhex(parts[2][1:]) != data:
            out.append(("codec=%s;kind=roundtrip" % name, "decode(encode(x)) != x for x=%s: %s" % (ls[2][:80], impl[:160])))
        if code != 82 and not all(dns_safe(b) for b in enc):
            out.append(("codec=%s;kind=alphabet" % name, "encode(x) contains a DNS-unsafe byte for x=%s: %s" % (ls[2][:80], parts[0][:160])))
        if "ratio" in parts:
            ppm = int(parts[parts.index("ratio") + 1])      # Ratio() as the implementation advertises it now
        else:
            ppm = RATIO[code][0] * 1000000 // RATIO[code][1]
        if 1000000 * len(enc) > (ppm + 1) * len(data) + 1000000 * SLACK:
            out.append(("codec=%s;kind=bound" % name, "len(encode(x))=%d exceeds Ratio()=%.6f * %d + %d" % (len(enc), ppm / 1e6, len(data), SLACK)))
        return out
    if op == "fromcode":
        b = int(case["line"].split()[1])
        up = b - 32 if 97 <= b <= 122 else b
        if parts[0] == "ok":
            if int(parts[1]) != up or CODECS.get(up) != parts[2]:
                return [("registry", "FromCode(%d) returned codec with code %s (%s)" % (b, parts[1], parts[2]))]
        elif up in CODECS:
            return [("registry", "FromCode(%d) does not find codec %s" % (b, CODECS[up]))]
        return []
    return []


def agree(case, impl, model):
    return None if impl == model else "codec-output"


def shrink(case):
    ls = case["line"].split()
    if ls[0] not in ("enc", "dec"):
        return
    d = bytes.fromhex(ls[2][1:])
    n = len(d)
    cands = []
    if n > 1:
        cands += [d[:n // 2], d[n // 2:], d[1:], d[:-1]]
    for i in range(min(n, 8)):
        if d[i] != 0:
            cands.append(d[:i] + b"\x00" + d[i + 1:])
    for c in cands:
        yield {"line": "%s %s %s" % (ls[0], ls[1], hx(c)), "tags": case.get("tags", {})}


def distribution(cs):
    hist = {}
    for c in cs:
        t = c.get("tags", {})
        k = "%s/%s" % (t.get("op"), t.get("fill", ""))
        hist[k] = hist.get(k, 0) + 1
    lens = {}
    for c in cs:
        n = c.get("tags", {}).get("len")
        if n is not None:
            b = "0" if n == 0 else "1-2" if n <= 2 else "3-16" if n <= 16 else "17-64" if n <= 64 else "65-300" if n <= 300 else ">300"
            lens[b] = lens.get(b, 0) + 1
    return {"by_kind": hist, "by_length": lens}


def search(tier, rng, broken):
    return cases("thorough" if tier == "quick" else tier, rng)[:200000]

META = {
    "level_text": "Machine-checked theorems (Coq) over Gallina models of all eight codecs: round trip, output alphabet, length bound and "
                  "registry, for every byte string; the models are run against enc.Encoder on every check (exhaustive short inputs, "
                  "structured and random long ones, a malformed decoder stream), and the property is evaluated directly on the "
                  "implementation's outputs. Full for Base32/64/64u/85/128/Raw; Base91 and Base192 as stated in the evidence.",
    "level_note": "Trusted: Coq kernel, extraction (ExtrOcamlBasic), ocaml/driver.ml, translator for alphabets/codes/ratios. stdlib base32/base64/"
                  "ascii85 are specification-level models validated only by the differential run; base91 and luci base128 are modelled faithfully.",
    "technique": "Coq proof over Gallina codec models + differential correspondence with the Go codecs",
}
