"""C09 - DNS tunnel requests survive the wire for every command and size."""
PID = "C09"
CODECS = {84: "Base32", 83: "Base64", 85: "Base64u", 87: "Base85", 88: "Base91", 86: "Base128"}
QT = [10, 65000, 16, 33, 15, 5, 28, 1]
RULE = ("c09: every command x the six selectable upstream codecs x domains of length 3..180 x field values (user ids 0,1,35,36,1295,"
        "1296,65535; seq/ack 0,1,127,128,255,256,32767,65535; flags and codecs incl. none; fragment sizes 0,1,2^32-2,none) x payload "
        "lengths 0,1,2, mtu-2..mtu+2 and around multiples of 57 in encoded form; the real client serializer -> dns.Msg.Pack -> Unpack "
        "-> ComposeRequest -> server serializer; mtu: all domain lengths 1..200 x 6 codecs. distinct_nontrivial = distinct cases with "
        "a non-empty payload or a non-default field")
EXPLANATION = ("Props/C09.v: name layout (labels <= 63, name <= 253), wire round trip through the modelled miekg name packing and escaping, "
               "StripDomain, per-command decode(encode) = id, and the fragment-size budget, for all field values; the run drives the real "
               "serializer and wire packing and evaluates the property on its outputs.")
TRUSTED = ["miekg/dns name packing/unpacking is a specification-level model validated only differentially", "float64 in getUpstreamMtu is modelled with exact rationals; agreement is checked exhaustively for domain lengths 1..200 x 6 codecs"]


def hx(b):
    return "#" + bytes(b).hex()


def domain(n, rng):
    # labels of [a-z0-9-], each 1..63, total length n
    out = []
    left = n
    while left > 0:
        l = min(left, rng.range(1, 20))
        if left - l == 1:
            l += 1 if l < 63 else -1
        lab = bytes(rng.choice(b"abcdefghijklmnopqrstuvwxyz0123456789") for _ in range(l))
        out.append(lab)
        left -= l + 1
    return b".".join(out)[:n].rstrip(b".") or b"a"


def mk(codec, qt, dom, req, src, nt=True):
    line = "c09 %d %d %s %s" % (codec, qt, hx(dom), req)
    return {"line": line, "key": line if nt else None, "tags": {"src": src, "codec": codec, "dom": len(dom), "cmd": req.split()[0]}, "req": req}


UIDS = [0, 1, 35, 36, 1295, 1296, 65535]
SEQS = [0, 1, 127, 128, 255, 256, 32767, 65535]


def cases(tier, rng):
    thorough = tier == "thorough"
    cs = []
    for line in ("c11 keep strip all 0 7 150", "c11 keep drop all 0 8 190"):
        cs.append({"line": line, "key": line, "model": False, "tags": {"cmd": "handshake", "codec": "negotiated", "src": "unencodable-then-next"}})
    doms = [domain(n, rng) for n in ([3, 11, 40, 100, 180] if not thorough else [1, 3, 11, 25, 40, 77, 100, 150, 180, 200])]
    # the fragment size is the one the implementation computes for the domain and codec (asked from the harness before the cases are
    # made): "payloads up to the upstream fragment size it computed". The formula below is only the fall-back when the harness is absent.
    mtus = impl_mtus([(codec, dom) for codec in CODECS for dom in doms])
    sweep_dom = {codec: rng.choice(doms[:4]) for codec in CODECS}
    for codec in CODECS:
        for dom in doms:
            cs.append({"line": "mtu %d %s" % (codec, hx(dom)), "key": None, "tags": {"src": "mtu", "codec": codec, "dom": len(dom), "cmd": "mtu"}})
            m = mtus.get((codec, dom), upstream_mtu(len(dom), codec))
            if thorough or dom == sweep_dom[codec]:
                # every payload length 0..fragment size (each body length meets every dot position of the name layout)
                for n in range(0, m + 1):
                    data = bytes((i * 29 + n) & 255 for i in range(n))
                    cs.append(mk(codec, 10, dom, "pkt 7 %d %d %d %s" % (n & 0xFFFF, 1 if n else 0, (3 * n) & 0xFFFF, hx(data)), "pkt-sweep", n > 0))
            sizes = sorted(set([0, 1, 2] + [max(0, m + d) for d in (-2, -1, 0)] + [rng.range(0, max(1, m)) for _ in range(3 if not thorough else 10)]))
            for n in sizes:
                uid, ack, seq = rng.choice(UIDS), rng.choice(SEQS), rng.choice(SEQS)
                fill = rng.choice(["rand", "zero", "ff", "esc"])
                data = {"rand": rng.bytes(n), "zero": bytes(n), "ff": b"\xff" * n, "esc": (b"\\.\"();@ '" * (n // 10 + 1))[:n]}[fill]
                cs.append(mk(codec, rng.choice(QT), dom, "pkt %d %d %d %d %s" % (uid, ack, 1 if n else rng.below(2), seq, hx(data)), "pkt-" + fill, n > 0))
            # over budget: must be reported (ErrTooLong), never silently cut
            for d in (1, 2, 30):
                cs.append(mk(codec, 10, dom, "pkt 1 0 1 0 %s" % hx(rng.bytes(m + d + 12)), "pkt-over", True))
            for _ in range(6 if not thorough else 30):
                fr = rng.choice([-1, 0, 1, 1200, 4294967294])
                cs.append(mk(codec, rng.choice(QT), dom, "opt %d %d %d %d %d %d %d" % (
                    rng.choice(UIDS), rng.below(3), rng.below(3), rng.below(3), rng.choice([32] + list(CODECS) + [82]),
                    rng.choice([32] + list(CODECS)), fr), "opt"))
            cs.append(mk(codec, 10, dom, "ver %d" % rng.choice([0, 1, 1282, 4294967295]), "ver"))
            cs.append(mk(codec, 10, dom, "frag %d %d" % (rng.choice(UIDS), rng.choice([0, 1, 768, 65535, 4294967295])), "frag"))
            cs.append(mk(codec, 10, dom, "down %d" % rng.choice(list(CODECS) + [82]), "down"))
            for pat in PATTERNS.get(codec, []):
                cs.append(mk(codec, 10, dom, "up %d %s" % (rng.choice(UIDS), hx(pat)), "up-pattern"))
    if thorough:
        for codec in CODECS:
            for n in range(1, 201):
                dom = (b"a" * 63 + b".") * (n // 64) + b"a" * (n % 64) if n % 64 else ((b"a" * 63 + b".") * (n // 64))[:-1]
                dom = dom[:n] if len(dom) >= n else dom
                cs.append({"line": "mtu %d %s" % (codec, hx(dom)), "key": None, "tags": {"src": "mtu", "codec": codec, "dom": len(dom), "cmd": "mtu"}})
    return cs


def search(tier, rng, broken):
    """A tie is broken (typically: the implementation's fragment size differs from the model's): look for a packet that no longer
    survives - a full fragment, and one octet less, for every domain length 1..200 and every codec, sized by what the implementation
    computes now."""
    doms = []
    for n in range(1, 201):
        d = domain(n, rng)
        if len(d) == n:
            doms.append(d)
    pairs = [(codec, dom) for codec in CODECS for dom in doms]
    mtus = impl_mtus(pairs)
    cs = []
    for codec, dom in pairs:
        m = mtus.get((codec, dom))
        if m is None or m <= 0 or m > 4000:
            continue
        for n in (m, m - 1):
            data = bytes((i * 31 + n) & 255 for i in range(n))
            cs.append(mk(codec, 10, dom, "pkt 7 %d 1 %d %s" % (n & 0xFFFF, (3 * n) & 0xFFFF, hx(data)), "pkt-search", True))
    return cs


PATTERNS = {
    84: [b"aA" + b"abcdefghijklmnopqrstuvwxyz012345"],
    83: [b"aAbBcCdDeEfFgGhHiIjJkKlLmMnNoOpPqQrRsStTuUvVwWxXyYzZ+0129-"],
    85: [b"aAbBcCdDeEfFgGhHiIjJkKlLmMnNoOpPqQrRsStTuUvVwWxXyYzZ_0129-"],
    87: [bytes((b if b not in (46, 92, 96) else {46: 118, 92: 119, 96: 120}[b]) for b in range(33, 118))],
    88: [b"ABCDEFGHIJKLMNOPQRSTUVWXYZabcdefghijklmnopqrstuvwxyz0123456789!#$%&()*+,-/:;<=>?@[]^_`{|}~\""],
    86: [b"aA-Aaahhh-Drink-mal-ein-J\xe4germeister-", bytes([97, 65] + list(range(0xd0, 0xfe)))],
}
RATIO = {84: (8, 5), 83: (4, 3), 85: (4, 3), 87: (5, 4), 88: (1231, 1000), 86: (8, 7), 82: (1, 1), 89: (16, 15)}


def impl_mtus(pairs):
    import os
    from vlib import core
    out = {}
    try:
        if not os.path.exists(core.harness_bin()):
            return out
        res = core.run_lines(core.harness_bin(), ["mtu %d %s" % (c, hx(d)) for c, d in pairs], timeout=120)
        for (c, d), r in zip(pairs, res):
            f = r.split()
            if len(f) == 1 and f[0].isdigit():
                out[(c, d)] = int(f[0])
    except Exception:
        pass
    return out


def upstream_mtu(dlen, codec):
    import math
    num, den = RATIO[codec]
    space = 253.0 - dlen - 2 - 4
    space = space / (num / den)
    space -= 10
    space -= space / 60
    return max(0, int(math.floor(space)))


def oracle(case, impl):
    p = impl.split()
    if case["line"].startswith("c11 "):
        # the witness of the repaired 6e19d61: a request that cannot be encoded (here: a test pattern of the negotiation under a long domain)
        # must leave the client able to send the next one
        if not p or p[0] in ("died", "timeout", "harness-error") or p[:2] == ["hs", "nonterm"]:
            return [("client-blocked-after-unencodable-request", "after a request that does not fit into a name the client never sent another one (%s -> %s)" % (case["line"], impl[:80]))]
        return []
    if not p or p[0] in ("panic", "died", "timeout", "harness-error"):
        site = p[1] if len(p) > 1 else "?"
        return [("panic=" + site, "request path crashed: %s on %s" % (impl[:120], case["line"][:160]))]
    t = case.get("tags", {})
    if t.get("cmd") == "mtu":
        return []
    req = case.get("req") or " ".join(case["line"].split()[4:])
    out = []
    if p[0] == "encerr":
        if t.get("src") == "pkt-over":
            return []          # over the budget: reported, as it should be
        if t.get("cmd") == "up":
            # a probe pattern is not bounded by the fragment size: when it does not fit the name budget the error is the report
            body = 6 + (len(req.split()[2]) - 1) // 2
            dots = (body - 1) // 57 if body > 60 else 0
            if body + dots + 1 + t.get("dom", 0) + 1 > 251:
                return []
        return [("unencodable;cmd=%s;codec=%s" % (t.get("cmd"), CODECS.get(t.get("codec"))),
                 "a request within the fragment size could not be emitted (%s): %s" % (p[1], case["line"][:200]))]
    if p[0] == "name":
        tot, ml = int(p[1]), int(p[2])
        if ml > 63 or tot > 253:
            out.append(("name-limits", "question name has a %d-octet label / %d octets in total" % (ml, tot)))
    if "packerr" in p or "unpackerr" in p:
        out.append(("wire-rejects;cmd=%s;codec=%s" % (t.get("cmd"), CODECS.get(t.get("codec"))), "the emitted question does not survive DNS wire encoding: " + impl[:100]))
        return out
    if "decerr" in p:
        if t.get("src") == "pkt-over":
            return out
        out.append(("server-rejects;cmd=%s;codec=%s" % (t.get("cmd"), CODECS.get(t.get("codec"))), "the server cannot decode the request it received: " + case["line"][:200]))
        return out
    if "wire" in p:
        got = " ".join(p[p.index("wire") + 3:])
        want = normalise(req)
        if got != want:
            out.append(("fields-differ;cmd=%s;codec=%s" % (t.get("cmd"), CODECS.get(t.get("codec"))), "server decoded [%s], client sent [%s]" % (got[:150], want[:150])))
    return out


def normalise(req):
    f = req.split()
    if f[0] == "pkt":
        uid = int(f[1]) % 1296
        if f[3] == "0":
            return "pkt %d %s 0 0 #" % (uid, f[2])
        return "pkt %d %s 1 %s %s" % (uid, f[2], f[4], f[5])
    if f[0] in ("opt", "frag", "up"):
        f[1] = str(int(f[1]) % 1296)
    return " ".join(f)


def agree(case, impl, model):
    return None if impl == model else "request-wire"


def distribution(cs):
    d = {}
    for c in cs:
        t = c.get("tags") or {}
        k = "%s/%s/dom%d" % (t.get("src", "corpus"), CODECS.get(t.get("codec"), t.get("codec")), t.get("dom", 0))
        d[k] = d.get(k, 0) + 1
    return {"cases_by_kind": {k: v for k, v in sorted(d.items())[:80]}, "total_kinds": len(d)}


META = {
    "level_text": "Coq theorems over models of the request header, the six request layouts, Dotify/PrepareHostname, miekg's name packing and "
                  "escaping, StripDomain/ComposeRequest and the fragment-size budget: every request within the budget is a valid question "
                  "(labels <= 63, name <= 253) and is decoded to identical fields after the wire, for all field values and the six selectable "
                  "codecs. The real serializer -> Pack -> Unpack -> decoder pipeline is run on every check and the property evaluated on it.",
    "level_note": "miekg/dns name handling is a specification-level model; multi-question mode is dead code on the client and only modelled as off; "
                  "cache-busting characters are universally quantified in the model and random in the run.",
    "technique": "Coq proof over a wire-format model + differential correspondence through real DNS packing",
}
