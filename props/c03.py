"""C03 - channel routing and exposure control."""
PID = "C03"
RULE = ("c03: channel table (0..6 names, duplicates, names with '/', case variants) x allow-list (empty, subsets, unknown names, "
        "duplicates) x requests (configured, unlisted, unknown, prefixes, extensions, case variants, empty, 'ls', 'na') against the real "
        "Filter + ConnectionHandler over an in-memory smux session with recording channels; c03start: each server kind's Startup "
        "with the same tables. distinct_nontrivial = distinct cases with a non-empty table and at least one request or an allow-list")
EXPLANATION = ("Props/C03.v characterises serve(kind, table, allow, request) = Dial t completely; the run drives the real Filter, "
               "multistream handler registration and muxHandler with recording channels and compares dials and refusals.")
TRUSTED = ["go-multistream exact-match negotiation and smux are exercised, not modelled",
           "http endpoints: per-path Filter is the same function; the websocket path router is not exercised by this check"]
SHARDS = 4      # harness processes side by side (cases are independent)
RUN_TIMEOUT = 1500

BASE = [b"ssh", b"web", b"db", b"a/b", b"SSH", b"s", b"x_1"]


def hx(b):
    return "#" + bytes(b).hex()


def variants(rng, n):
    v = [n, n[:-1], n + b"x", n.upper(), n.lower(), b"", b"/" + n, n + b"/", b"ls", b"na", n[1:], n + n]
    return rng.choice(v)


def mk(names, allow, reqs, src):
    line = "c03 %d %s %d %s %d %s" % (len(names), " ".join(hx(n) for n in names), len(allow), " ".join(hx(n) for n in allow),
                                       len(reqs), " ".join(hx(n) for n in reqs))
    line = " ".join(line.split())
    nt = bool(names) and (bool(reqs) or bool(allow))
    return {"line": line, "key": line if nt else None, "tags": {"src": src, "nchan": len(names), "nallow": len(allow), "nreq": len(reqs)}}


def mkstart(kind, names, allow):
    line = "c03start %s %d %s %d %s" % (kind, len(names), " ".join(hx(n) for n in names), len(allow), " ".join(hx(n) for n in allow))
    line = " ".join(line.split())
    return {"line": line, "key": line if names else None, "tags": {"src": "start-" + kind, "nchan": len(names), "nallow": len(allow), "nreq": 0}}


def mkmulti(op, names, allows, reqs):
    line = "%s %d %s %d %s %d %s" % (op, len(names), " ".join(hx(n) for n in names), len(allows),
                                     " ".join("%d %s" % (len(al), " ".join(hx(n) for n in al)) for al in allows),
                                     len(reqs), " ".join(hx(n) for n in reqs))
    line = " ".join(line.split())
    return {"line": line, "key": line if names and len(allows) > 1 else None,
            "tags": {"src": op, "nchan": len(names), "nallow": len(allows), "nreq": len(reqs)}}


def gen(rng):
    k = rng.range(0, 6)
    names = [rng.choice(BASE) for _ in range(k)]
    if rng.chance(2, 3):
        names = list(dict.fromkeys(names))
    a = rng.weighted([(0, 4), (1, 3), (2, 3), (3, 1)])
    allow = []
    for _ in range(a):
        if names and rng.chance(3, 4):
            allow.append(rng.choice(names))
        else:
            allow.append(variants(rng, rng.choice(BASE)))
    return names, allow


def cases(tier, rng):
    cs = []
    thorough = tier == "thorough"
    for _ in range(1200 if thorough else 140):
        names, allow = gen(rng)
        reqs = []
        for _ in range(rng.range(1, 5)):
            if names and rng.chance(1, 2):
                reqs.append(rng.choice(names))
            else:
                reqs.append(variants(rng, rng.choice(names) if names and rng.chance(2, 3) else rng.choice(BASE)))
        cs.append(mk(names, allow, reqs, "handler"))
    # several endpoints over one table (servers started one after the other; websocket paths of one http server)
    for _ in range(300 if thorough else 40):
        names, _ = gen(rng)
        if len(names) < 2:
            names = list(dict.fromkeys(names + [b"web", b"web2"]))
        allows = []
        for _e in range(rng.range(2, 4)):
            a = rng.range(0, 2)
            allows.append([rng.choice(names) if rng.chance(5, 6) else variants(rng, rng.choice(BASE)) for _ in range(a)])
        reqs = list(dict.fromkeys([rng.choice(names) for _ in range(3)] + [variants(rng, rng.choice(names))]))
        cs.append(mkmulti("c03multi", names, allows, reqs))
    for _ in range(60 if thorough else 8):
        names, _ = gen(rng)
        if len(names) < 2:
            names = list(dict.fromkeys(names + [b"web", b"web2"]))
        allows = [[rng.choice(names)] if rng.chance(3, 4) else [] for _e in range(rng.range(2, 3))]
        reqs = list(dict.fromkeys([rng.choice(names) for _ in range(2)] + [variants(rng, rng.choice(names))]))[:3]
        cs.append(mkmulti("c03http", names, allows, reqs))
    # many logical connections for different names opened at the same time on one session: each reaches the target of ITS name
    for names, rounds, width in (([b"a", b"b", b"c", b"d"], 10, 40), ([b"web", b"web2", b"db"], 6, 60)):
        line = "c03par %d %s %d %d" % (len(names), " ".join(hx(n) for n in names), rounds, width)
        cs.append({"line": line, "key": line, "model": False, "tags": {"src": "parallel-routing", "nchan": len(names), "nallow": 0, "nreq": rounds * width}})
    # two endpoints of one kind in one server process (the documentation's DNS example has two), one allowing only x, the other only y:
    # a request is judged by the allow-list of the endpoint it arrived on (implementation only: real upstreams over loopback)
    for kind in ("dns", "tcp", "udp", "ws", "ws2"):
        line = "c03two %s 3 %s %s %s" % (kind, hx(b"x"), hx(b"y"), hx(b"z"))
        cs.append({"line": line, "key": line, "model": False, "tags": {"src": "two-endpoints-" + kind, "nchan": 2, "nallow": 1, "nreq": 3}})
    # the real NetworkChannel with real local services as targets, the table read from configuration text: targets that share a host
    # name or a port, in every order of first use (implementation only)
    for form in ("ip", "name", "mixed", "unix", "unixmixed"):
        for _ in range(12 if thorough else 2):
            nch = rng.range(2, 4)
            order = [rng.range(0, nch - 1) for _r in range(rng.range(nch + 1, 7))]
            order = list(range(nch)) + order if rng.chance(1, 2) else list(reversed(range(nch))) + order
            line = "c03net %s %d %d %s" % (form, nch, len(order), " ".join(str(x) for x in order))
            cs.append({"line": line, "key": line, "model": False, "tags": {"src": "network-targets-" + form, "nchan": nch, "nallow": 0, "nreq": len(order)}})
    for kind in ("socket", "packet", "dns", "stdio", "cfg-socket", "cfg-packet", "cfg-dns", "cfg-stdio"):
        for _ in range(150 if thorough else (25 if not kind.startswith("cfg-") else 12)):
            names, allow = gen(rng)
            cs.append(mkstart(kind, names, allow))
    return cs


def parse_names(toks, pos):
    n = int(toks[pos])
    pos += 1
    out = [bytes.fromhex(t[1:]) for t in toks[pos:pos + n]]
    return out, pos + n


def oracle(case, impl):
    toks = case["line"].split()
    p = impl.split()
    if not p or p[0] in ("panic", "died", "timeout", "harness-error", "handler-error", "client-error"):
        return [("crash", "routing case failed to run: " + impl[:200])]
    if toks[0] in ("c03multi", "c03http"):
        return oracle_multi(toks, p, case)
    if toks[0] == "c03par":
        f = dict(zip(p[0::2], p[1::2]))
        out = []
        if int(f.get("wrong", 0)) > 0:
            out.append(("wrong-target;parallel", "%s of %d logical connections opened at the same time reached the target of another name (first: requested entry %s, connected to entry %s)" % (f["wrong"], case["tags"]["nreq"], f.get("req"), f.get("got"))))
        if int(f.get("failed", 0)) > 0:
            out.append(("refused-configured;parallel", "%s of %d logical connections for configured names failed when opened at the same time" % (f["failed"], case["tags"]["nreq"])))
        return out
    if toks[0] == "c03two":
        eps = impl.split("ep")[1:]
        # ws2: two more blocks, each server asked on the path only the other one has - nothing is served there
        owners = ("x", "y", None, None) if toks[1] == "ws2" else ("x", "y")
        if len(eps) != len(owners):
            return [("crash", "two-endpoint case failed to run: " + impl[:200])]
        out = []
        for i, (ep, mine) in enumerate(zip(eps, owners)):
            w = ep.split()
            res = []
            j = 0
            while j < len(w):
                if w[j] == "dial":
                    res.append(int(w[j + 1]))
                    j += 2
                else:
                    res.append(None)
                    j += 1
            for rq, got in zip(("x", "y", "z"), res):
                if got is not None and rq != mine:
                    out.append(("exposed;two-endpoints=" + toks[1], "endpoint %d allows only %r, yet a request for %r arriving on it was connected (target %d)" % (i, mine, rq, got)))
                if got is None and rq == mine:
                    out.append(("refused-configured;two-endpoints=" + toks[1], "endpoint %d allows %r but refused it" % (i, mine)))
                if got is not None and got != {"x": 0, "y": 1}.get(rq):
                    out.append(("wrong-target", "request %r connected to target %d" % (rq, got)))
        return out
    if toks[0] == "c03net":
        nch, nreq = int(toks[2]), int(toks[3])
        want = [int(t) % nch for t in toks[4:4 + nreq]]
        res = []
        j = 0
        while j < len(p):
            if p[j] == "dial":
                res.append(int(p[j + 1]))
                j += 2
            else:
                res.append(p[j])
                j += 1
        out = []
        if len(res) != len(want):
            return [("crash", "network-channel case failed to run: " + impl[:200])]
        for k, (w, g) in enumerate(zip(want, res)):
            if isinstance(g, int) and g != w:
                out.append(("wrong-target;targets=" + toks[1], "request %d (of %r) for channel svc%d was connected to the service of svc%d" % (k, want, w, g)))
            elif not isinstance(g, int):
                out.append(("refused-configured;targets=" + toks[1], "request %d for the configured channel svc%d: %s" % (k, w, g)))
        return out
    if toks[0] == "c03start":
        # what an endpoint of this kind serves once started: with an allow-list exactly the table entries it names, nothing else
        names, pos = parse_names(toks, 2)
        allow, _ = parse_names(toks, pos)
        if p[0] != "started":
            return []
        served = [int(x) for x in p[2:2 + int(p[1])]]
        out = []
        if allow:
            extra = [t for t in served if t >= len(names) or names[t] not in allow]
            if extra:
                out.append(("exposed;start=" + toks[1], "a %s endpoint with the allow-list %r serves channels that are not on it: %r" % (toks[1], allow, [names[t] for t in extra if t < len(names)])))
            # (an allow-list naming a channel that does not exist is a configuration error: the endpoint does not come up, or - the
            # standard-stream server - comes up serving nothing; neither exposes anything)
            missing = [a for a in allow if names.index(a) not in served] if all(a in names for a in allow) else []
            if missing:
                out.append(("refused-configured;start=" + toks[1], "a %s endpoint does not serve %r although it is configured and on its allow-list" % (toks[1], missing)))
        return out
    if toks[0] != "c03":
        return []
    names, pos = parse_names(toks, 1)
    allow, pos = parse_names(toks, pos)
    reqs, _ = parse_names(toks, pos)
    out = []
    # parse observation
    i = p.index("dials")
    dials = [int(x) for x in p[i + 1:]]
    ferr = p[1] == "err"
    ns = int(p[2])
    body = p[3 + ns:i]
    results = []
    j = 0
    while j < len(body):
        if body[j] == "dial":
            results.append(int(body[j + 1]))
            j += 2
        else:
            results.append(None if body[j] == "refused" else body[j])
            j += 1
    if ferr:
        if dials:
            out.append(("dial-after-filter-error", "targets dialled although Filter failed: " + case["line"][:200]))
        return out
    if len(results) != len(reqs):
        return [("crash", "observation does not match request count: " + impl[:200])]
    expect_dials = []
    for r, got in zip(reqs, results):
        allowed = (not allow) or (r in allow)
        idx = names.index(r) if r in names else None
        if isinstance(got, str):
            out.append(("hang", "request %r ended as %s" % (r, got)))
            continue
        if got is not None:
            expect_dials.append(got)
            if idx is None or names[got] != r:
                out.append(("wrong-target", "request %r was connected to target %d (%r)" % (r, got, names[got] if got < len(names) else None)))
            elif not allowed:
                out.append(("exposed", "request %r is not in the allow-list %r but was connected" % (r, allow)))
            elif got != idx:
                out.append(("wrong-target", "request %r connected to entry %d, first entry of that name is %d" % (r, got, idx)))
        else:
            if idx is not None and allowed:
                out.append(("refused-configured", "request %r is configured and allowed but was refused" % (r,)))
    if sorted(dials) != sorted(expect_dials):
        out.append(("stray-dial", "dial log %r does not match the connections handed out %r" % (dials, expect_dials)))
    return out


def oracle_multi(toks, p, case):
    names, pos = parse_names(toks, 1)
    nend = int(toks[pos])
    pos += 1
    allows = []
    for _ in range(nend):
        al, pos = parse_names(toks, pos)
        allows.append(al)
    reqs, _ = parse_names(toks, pos)
    out = []
    # split the observation per endpoint
    sep = "ep" if toks[0] == "c03multi" else "path"
    if p[0] == "abort":
        return []
    chunks = []
    for x in p:
        if x == sep:
            chunks.append([])
        elif chunks:
            chunks[-1].append(x)
    if len(chunks) != nend:
        return [("crash", "unexpected observation: " + " ".join(p)[:200])]
    for al, ch in zip(allows, chunks):
        if ch and ch[0] == "err":
            continue
        if ch and ch[0] == "ok":
            n = int(ch[1])
            ch = ch[2 + n:]
        res = []
        j = 0
        while j < len(ch):
            if ch[j] == "dial":
                res.append(int(ch[j + 1]))
                j += 2
            else:
                res.append(None if ch[j] == "refused" else ch[j])
                j += 1
        if len(res) != len(reqs):
            out.append(("crash", "request/answer count mismatch"))
            continue
        for r, got in zip(reqs, res):
            allowed = (not al) or (r in al)
            idx = names.index(r) if r in names else None
            if isinstance(got, str):
                out.append(("hang", "request %r on endpoint %r ended as %s" % (r, al, got)))
            elif got is not None:
                if idx is None or names[got] != r:
                    out.append(("wrong-target", "endpoint %r: request %r was connected to target %d (%r)" % (al, r, got, names[got] if got < len(names) else None)))
                elif not allowed:
                    out.append(("exposed", "endpoint with allow-list %r connected request %r" % (al, r)))
            elif idx is not None and allowed:
                out.append(("refused-configured", "endpoint %r refused the configured, allowed request %r" % (al, r)))
    return out


def agree(case, impl, model):
    if impl == model:
        return None
    # the dial log is appended asynchronously by handler goroutines: compare as multisets
    a, b = impl.split(), model.split()
    if "dials" in a and "dials" in b:
        i, j = a.index("dials"), b.index("dials")
        if a[:i] == b[:j] and sorted(a[i:]) == sorted(b[j:]):
            return None
    return "routing"


def distribution(cs):
    d = {}
    for c in cs:
        t = c["tags"]
        k = "%s/chan%d/allow%d" % (t["src"], t["nchan"], t["nallow"])
        d[k] = d.get(k, 0) + 1
    return d


META = {
    "level_text": "Coq theorems characterise completely when a request is connected to a target: iff the name is configured (first entry of "
                  "that exact name) and the endpoint's allow-list is empty or contains it and the endpoint started; otherwise refusal and no "
                  "dial, for every table, allow-list, request and server kind. The model is run against the real Channels.Filter, each "
                  "server kind's Startup and the real ConnectionHandler/multistream negotiation with recording channels.",
    "level_note": "go-multistream and smux are exercised, not modelled; http per-path routing (chi router) is outside the model; names are "
                  "compared as byte strings as Go does.",
    "technique": "Coq proof of a complete routing characterisation + differential correspondence with Filter/ConnectionHandler",
}
