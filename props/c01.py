"""C01 - end-to-end byte-stream fidelity over every transport."""
PID = "C01"
CARRIERS = ["tcp", "tcp+tls", "tcp-starttls", "unix", "ws", "wss", "ws-starttls", "stdio", "kcp", "kcp-starttls", "dns"]
RULE = ("in-process socketace client (socket listener + upstream) and server per carrier {tcp, tcp+tls, StartTLS, unix, ws, wss, ws+StartTLS, "
        "stdio pipes, KCP, KCP+StartTLS, DNS}; a real application socket and a real target socket; payloads with every byte value, lengths "
        "{1, 4095..4097, 32639..32641, 32767..32769, 65535..65537, 1 MiB (thorough: 5 MiB)}, write partitions from a random list of "
        "sizes, both directions; compared byte for byte. distinct_nontrivial = distinct (carrier, length, partition)")
EXPLANATION = ("Composition property: the theorems cover each adapter's contract that is socketace's own (frame size fits the carrier message, "
               "copy loop writes what it read before reporting, websocket adapter, handshake read-ahead = C06, DNS carrier = C07+C09+C10); "
               "TLS, smux, KCP and gorilla are hypotheses exercised end to end here.")
TRUSTED = ["crypto/tls, xtaci/smux, kcp-go, gorilla/websocket, OS sockets: exercised, not modelled"]
RUN_TIMEOUT = 3000


def mk(carrier, n, seed, sizes, d):
    line = "c01 %s %d %d %d %s %s" % (carrier, n, seed, len(sizes), " ".join(str(s) for s in sizes), d)
    return {"line": line, "key": line, "tags": {"carrier": carrier, "n": n, "dir": d}}


def cases(tier, rng):
    thorough = tier == "thorough"
    cs = []
    lens = [1, 4095, 4096, 4097, 32639, 32640, 32641, 32767, 32768, 32769, 65535, 65536, 65537, 1 << 20]
    for c in CARRIERS:
        pick = lens if thorough else [1, rng.choice([4095, 4096, 4097]), rng.choice([32639, 32640, 32641, 32767, 32768, 32769]),
                                      rng.choice([65535, 65536, 65537])]
        if c == "dns":
            pick = [1, 4097, 20000] if not thorough else [1, 4096, 4097, 32641, 70000]
        elif not thorough and c in ("tcp", "ws", "kcp"):
            pick = pick + [1 << 20]
        for n in pick:
            sizes = [rng.choice([1, 7, 100, 1000, 4096, 4097, 16000, 32768, 40000, 70000]) for _ in range(rng.range(1, 4))]
            if n > 100000:
                sizes = [s for s in sizes if s >= 1000] or [32768]
            cs.append(mk(c, n, rng.below(1000), sizes, "both"))
        if thorough and c in ("tcp", "wss", "stdio"):
            cs.append(mk(c, 5 << 20, 5, [65536, 4097], "both"))
    # the websocket byte-stream adapter alone, over a real websocket: write sizes around the message size (32768) against read buffers
    # smaller and larger than a message (the multiplexer reads 8-octet headers, then payloads; bufio reads 4096 at a time)
    edge = [1, 2, 8, 4095, 4096, 4097, 32640, 32767, 32768, 32769, 40000, 65535, 65536, 65537, 100000]
    for _ in range(400 if thorough else 60):
        ws = [rng.choice(edge) if rng.chance(2, 3) else rng.range(1, 70000) for _ in range(rng.range(1, 5))]
        total = sum(ws)
        rs = []
        got = 0
        while got < total and len(rs) < 400:
            n = rng.choice([1, 8, 100, 4096, 4097, 32768, 32769, 65536]) if rng.chance(3, 4) else rng.range(1, 70000)
            rs.append(n)
            got += n          # (an upper bound of what this read can return)
        rs += [rng.choice([1, 4096, 65536]) for _ in range(rng.range(0, 12))]
        line = "c01ws %d %s %d %s" % (len(ws), " ".join(map(str, ws)), len(rs), " ".join(map(str, rs)))
        cs.append({"line": line, "key": line, "tags": {"carrier": "ws-adapter", "n": total, "dir": "adapter"}})
    # the client's standard-stream listener (the ProxyCommand use): the application talks to the listener over one duplex stream
    for c in (["tcp", "ws", "kcp", "tcp-starttls"] if thorough else ["tcp", "ws"]):
        for n in ((1, 40000, 1000000) if thorough else (40000,)):
            line = "c01io %s %d app" % (c, n)
            cs.append({"line": line, "key": line, "model": False, "tags": {"carrier": c + "+stdin-listener", "n": n, "dir": "both"}})
    # several logical connections transferring both ways at the same time over one session, also with one or two scheduler threads (a
    # buffer handed from one connection to another by mistake shows when goroutines switch at blocking points only)
    for c, k, n, procs in ([("tcp", 4, 4000000, 1), ("tcp", 8, 2000000, 1), ("tcp", 8, 2000000, 2), ("ws", 4, 2000000, 1), ("tcp", 6, 1000000, 0)] +
                           ([("kcp", 4, 500000, 1), ("stdio", 4, 1000000, 1), ("tcp-starttls", 4, 1000000, 1), ("wss", 3, 1000000, 2), ("dns", 2, 20000, 1)] if thorough else [])):
        line = "c01par %s %d %d %d" % (c, k, n, procs)
        cs.append({"line": line, "key": line, "model": False, "tags": {"carrier": c, "n": n, "dir": "parallel"}})
    # run on the implementation only: a physical session older than the handshake's time limit (1 s here) when the connection is
    # opened, and the copy loops' logging variant (SOCKETACE_PIPE_DEBUG=1): multi-block transfers with further data after the first block
    for c in (CARRIERS if thorough else ["tcp", "tcp-starttls", "kcp", "ws"]):
        if c == "dns":
            continue
        for variant in ("aged", "debug"):
            if not thorough and variant == "debug" and c != "tcp":
                continue
            x = mk(c, 100000, 7, [3000, 40000], "both")
            x["line"] += " " + variant
            x["key"] = x["line"]
            x["model"] = False
            x["tags"]["variant"] = variant
            cs.append(x)
    return cs


def oracle(case, impl):
    t = case["tags"]
    p = impl.split()
    if not p or p[0] in ("panic", "died", "timeout", "harness-error"):
        return [("crash;carrier=" + t["carrier"], "transfer scenario crashed: " + impl[:150])]
    if t["carrier"] == "ws-adapter":
        if "err" in p or p[-1] != "1":
            return [("ws-adapter-not-a-prefix", "the websocket adapter handed out octets that are not a prefix of what was written: %s -> %s" % (case["line"][:200], impl[:200]))]
        return []
    if p[0] in ("setup", "connect"):
        return [("no-connection;carrier=" + t["carrier"], "no logical connection could be opened: " + impl[:100])]
    if t["dir"] == "parallel":
        out = []
        q = impl.split(" c ")
        for part in q:
            w = part.split()
            if w[0] == "c":
                w = w[1:]
            i, up, down = w[0], (int(w[2]), int(w[3])), (int(w[5]), int(w[6]))
            for d, (got, diff) in (("up", up), ("down", down)):
                if got != t["n"] or diff != -1:
                    kind = "altered" if (diff != -1 and diff < got) else "lost"
                    out.append(("bytes-%s;carrier=%s;parallel" % (kind, t["carrier"]),
                                "with %s logical connections transferring at the same time, connection %s received %d of %d octets %s, first difference at %d (%s)" % (case["line"].split()[2], i, got, t["n"], d, diff, case["line"])))
        return out[:3]
    if "eof" in p:
        p = p[:p.index("eof")]
    out = []
    f = {}
    i = 0
    while i + 2 < len(p) + 1 and i < len(p):
        f[p[i]] = (int(p[i + 1]), int(p[i + 2]))
        i += 3
    for d in ("up", "down"):
        if d in f:
            got, diff = f[d]
            if got != t["n"] or diff != -1:
                kind = "altered" if (diff != -1 and diff < got) else "lost"
                out.append(("bytes-%s;carrier=%s;dir=%s" % (kind, t["carrier"], d),
                            "%s: %d of %d bytes arrived, first difference at %d (%s)" % (d, got, t["n"], diff, case["line"])))
    return out


def agree(case, impl, model):
    return None if impl == model else "byte-stream"


def distribution(cs):
    d = {}
    for c in cs:
        k = c["tags"]["carrier"]
        d[k] = d.get(k, 0) + 1
    return d


META = {
    "level_text": "Partial by nature (a composition over TLS, smux, KCP, websocket libraries): Coq theorems for the parts that are socketace's own "
                  "- multiplexer frame fits one carrier message on both ends, the copy loop reports end-of-stream only after writing all it "
                  "read, the websocket byte-stream adapter returns exactly what was written for every sequence of writes and of read-buffer "
                  "sizes (model run against two real adapters over a real websocket, read length by read length), handshake read-ahead is "
                  "handed on (C06), the DNS carrier is a reliable byte pipe (C07, C09, C10) - and byte-for-byte "
                  "end-to-end transfers on every carrier, with boundary lengths and random write partitions, on every run.",
    "level_note": "Hypotheses: TLS transparent, smux per-stream FIFO, KCP reliable, gorilla delivers whole messages in order. They are exercised "
                  "end to end, not proved.",
    "technique": "Coq proofs of adapter contracts + end-to-end differential transfers (prediction: identity)",
}
