"""C01 - end-to-end byte-stream fidelity over every transport."""
PID = "C01"
CARRIERS = ["tcp", "tcp+tls", "tcp-starttls", "unix", "ws", "wss", "ws-starttls", "stdio", "kcp", "kcp-starttls", "dns"]
RULE = ("in-process socketace client (socket listener + upstream) and server per carrier {tcp, tcp+tls, StartTLS, unix, ws, wss, ws+StartTLS, "
        "stdio pipes, KCP, KCP+StartTLS, DNS}; a real application socket and a real target socket; payloads with every byte value, lengths "
        "{1, 4095..4097, 32639..32641, 32767..32769, 65535..65537, 1 MiB (thorough: 5 MiB)}, write partitions from a random list of "
        "sizes, both directions; compared byte for byte. The DNS carrier in addition at wire level (c01w): the real server listener with a "
        "session opened by real version / set-options exchanges, the real client serializer and queues, every query and answer packed "
        "and unpacked by the DNS library, a scripted network that keeps every packed message and delivers any of them at any later point; "
        "6 upstream codecs x 39 carrying (record type, downstream codec) pairs x 4 domain lengths, every upstream chunk size 0..mtu and "
        "the first that does not fit, downstream chunk sizes next to every record / string / label boundary, histories with loss, "
        "duplication, late delivery and replay, payloads of every octet value, starts near the 16-bit wrap, and the pairs that do not "
        "carry; each case is run on the model too and compared token for token. distinct_nontrivial = distinct (carrier, length, "
        "partition) resp. distinct wire-level histories")
EXPLANATION = ("Composition property: the theorems cover each adapter's contract that is socketace's own (frame size fits the carrier message, "
               "copy loop writes what it read before reporting, websocket adapter, handshake read-ahead = C06) and, for the DNS carrier, the "
               "whole path as ONE wire-level model (Queue/WireLink.v): queries are the packed question octets (C09 pipeline), answers the "
               "packed messages (C10 pipeline), the endpoints the C07 queues; c01_dns_wire_refines proves that this system refines the "
               "abstract link of C07 for every well-formed parameter tuple and every admissible history, and c01_dns_wire_fidelity / "
               "_complete / _not_lost / _no_false_error are the C07 theorems for the octets on the wire. "
               "TLS, smux, KCP and gorilla are hypotheses exercised end to end here.")
TRUSTED = ["crypto/tls, xtaci/smux, kcp-go, gorilla/websocket, OS sockets: exercised, not modelled",
           "DNS carrier: miekg/dns name / record packing and the stdlib codecs at specification level (as in C08-C10), validated here by the "
           "wire-level differential runs; the client half of the c01w harness repeats the few statements of SendAndReceive/QueryWithData "
           "around the real Serializer and queues (those functions block on a communicator); the server half is the real onMessage",
           "DNS carrier: message ids, the communicator's retry ladder and the poller's timing are not part of the wire-level model "
           "(C07 connection-level scenarios exercise them)"]
RUN_TIMEOUT = 3000


def mk(carrier, n, seed, sizes, d):
    line = "c01 %s %d %d %d %s %s" % (carrier, n, seed, len(sizes), " ".join(str(s) for s in sizes), d)
    return {"line": line, "key": line, "tags": {"carrier": carrier, "n": n, "dir": d}}


def cases(tier, rng):
    thorough = tier == "thorough"
    cs = []
    lens = [1, 4095, 4096, 4097, 32639, 32640, 32641, 32767, 32768, 32769, 65535, 65536, 65537, 1 << 20]
    for c in CARRIERS:
        pick = lens if thorough else [1, rng.choice([4095, 4096, 4097]), rng.choice([32639, 32640, 32641, 32767, 32768, 32769]),
                                      rng.choice([65535, 65536, 65537])]
        if c == "dns":
            pick = [1, 4097, 20000] if not thorough else [1, 4096, 4097, 32641, 70000]
        elif not thorough and c in ("tcp", "ws", "kcp"):
            pick = pick + [1 << 20]
        for n in pick:
            sizes = [rng.choice([1, 7, 100, 1000, 4096, 4097, 16000, 32768, 40000, 70000]) for _ in range(rng.range(1, 4))]
            if n > 100000:
                sizes = [s for s in sizes if s >= 1000] or [32768]
            cs.append(mk(c, n, rng.below(1000), sizes, "both"))
        if thorough and c in ("tcp", "wss", "stdio"):
            cs.append(mk(c, 5 << 20, 5, [65536, 4097], "both"))
    # the websocket byte-stream adapter alone, over a real websocket: write sizes around the message size (32768) against read buffers
    # smaller and larger than a message (the multiplexer reads 8-octet headers, then payloads; bufio reads 4096 at a time)
    edge = [1, 2, 8, 4095, 4096, 4097, 32640, 32767, 32768, 32769, 40000, 65535, 65536, 65537, 100000]
    for _ in range(400 if thorough else 60):
        ws = [rng.choice(edge) if rng.chance(2, 3) else rng.range(1, 70000) for _ in range(rng.range(1, 5))]
        total = sum(ws)
        rs = []
        got = 0
        while got < total and len(rs) < 400:
            n = rng.choice([1, 8, 100, 4096, 4097, 32768, 32769, 65536]) if rng.chance(3, 4) else rng.range(1, 70000)
            rs.append(n)
            got += n          # (an upper bound of what this read can return)
        rs += [rng.choice([1, 4096, 65536]) for _ in range(rng.range(0, 12))]
        line = "c01ws %d %s %d %s" % (len(ws), " ".join(map(str, ws)), len(rs), " ".join(map(str, rs)))
        cs.append({"line": line, "key": line, "tags": {"carrier": "ws-adapter", "n": total, "dir": "adapter"}})
    # the bytes reach the target of the channel that was ASKED for (names that are prefixes / extensions of each other)
    for names, reqs in (([b"db", b"db2", b"web"], [b"db2", b"db", b"web"]), ([b"a", b"ab", b"abc"], [b"abc", b"ab", b"a"])):
        line = "c03 %d %s 0 %d %s" % (len(names), " ".join("#" + n.hex() for n in names), len(reqs), " ".join("#" + n.hex() for n in reqs))
        cs.append({"line": line, "key": line, "model": False, "tags": {"carrier": "memory", "n": 0, "dir": "routing", "names": [n.decode() for n in names], "reqs": [n.decode() for n in reqs]}})
    # the client's standard-stream listener (the ProxyCommand use): the application talks to the listener over one duplex stream
    for c in (["tcp", "ws", "kcp", "tcp-starttls"] if thorough else ["tcp", "ws"]):
        for n in ((1, 40000, 1000000) if thorough else (40000,)):
            line = "c01io %s %d app" % (c, n)
            cs.append({"line": line, "key": line, "model": False, "tags": {"carrier": c + "+stdin-listener", "n": n, "dir": "both"}})
    # several logical connections transferring both ways at the same time over one session, also with one or two scheduler threads (a
    # buffer handed from one connection to another by mistake shows when goroutines switch at blocking points only)
    for c, k, n, procs in ([("tcp", 4, 4000000, 1), ("tcp", 8, 2000000, 1), ("tcp", 8, 2000000, 2), ("ws", 4, 2000000, 1), ("tcp", 6, 1000000, 0)] +
                           ([("kcp", 4, 500000, 1), ("stdio", 4, 1000000, 1), ("tcp-starttls", 4, 1000000, 1), ("wss", 3, 1000000, 2), ("dns", 2, 20000, 1)] if thorough else [])):
        line = "c01par %s %d %d %d" % (c, k, n, procs)
        cs.append({"line": line, "key": line, "model": False, "tags": {"carrier": c, "n": n, "dir": "parallel"}})
    for c, k, n, procs in [("tcp", 4, 600000, 1), ("tcp", 4, 600000, 2)]:      # ... and in the copy loops' logging variant
        line = "c01par %s %d %d %d debug" % (c, k, n, procs)
        cs.append({"line": line, "key": line, "model": False, "tags": {"carrier": c, "n": n, "dir": "parallel", "variant": "debug"}})
    # a transfer in two halves while ANOTHER application asks for a channel the server does not offer, or another connection's service fails
    # late: the second half arrives like the first (what happens to a sibling is not a reason to lose this connection's octets)
    for sc in ("other-refused", "other-fails-late"):
        line = "c02 tcp 3 %s" % sc
        cs.append({"line": line, "key": line, "model": False, "tags": {"carrier": "tcp", "n": 0, "dir": "sibling:" + sc}})
    # run on the implementation only: a physical session older than the handshake's time limit (1 s here) when the connection is
    # opened, and the copy loops' logging variant (SOCKETACE_PIPE_DEBUG=1): multi-block transfers with further data after the first block
    cs += wire_cases(tier, rng)
    for c in (CARRIERS if thorough else ["tcp", "tcp-starttls", "kcp", "ws"]):
        if c == "dns":
            continue
        for variant in ("aged", "debug"):
            if not thorough and variant == "debug" and c != "tcp":
                continue
            x = mk(c, 100000, 7, [3000, 40000], "both")
            x["line"] += " " + variant
            x["key"] = x["line"]
            x["model"] = False
            x["tags"]["variant"] = variant
            cs.append(x)
    return cs


# ---------------------------------------------------------------------------------------------------------------------------------
# the DNS tunnel end to end at wire level (model Queue/WireLink.v, harness op c01w)
UP_CODECS = {84: (8, 5), 83: (4, 3), 85: (4, 3), 87: (5, 4), 88: (1231, 1000), 86: (8, 7)}     # code -> Ratio() as a rational
DOWN_TEXT = [84, 83, 85, 87, 88, 86]          # Base32, Base64, Base64u, Base85, Base91, Base128
RAW = 82
RT = {"NULL": 10, "PRIVATE": 65000, "TXT": 16, "SRV": 33, "MX": 15, "CNAME": 5, "AAAA": 28, "A": 1}
DOMAINS = ["t.example.org", "a", "tunnel-%s.example.net" % ("x" * 40),
           ".".join(["d" * 63, "e" * 63, "f" * 63, "gh12-5"])]               # lengths 13, 1, 59, 198


def hx(b):
    return "#" + bytes(b).hex()


def upstream_mtu(dlen, cu):
    num, den = UP_CODECS[cu]
    a = (253 - dlen - 2 - 4) * den - 10 * num
    return max(0, (a * 59) // (num * 60))


def enc_len(code, n):
    if code == RAW:
        return n
    num, den = UP_CODECS[code]
    return -(-n * num // den)


def longest_data_string(dlen):
    space = 253 - 2 - dlen - 2
    space -= space // 58
    return space - 2


def carries(rt, cd):
    if rt in ("A", "AAAA"):
        return False
    return cd != RAW or rt in ("NULL", "PRIVATE", "TXT")


def down_boundaries(rt, cd, dlen):
    """chunk sizes whose encoded packet response sits next to a record / string / label boundary"""
    marks = [57, 114, 171, 253, 506, 759]
    if rt in ("SRV", "MX", "CNAME"):
        ml = longest_data_string(dlen)
        marks += [ml, 2 * ml, 3 * ml, ml - 2, 2 * (ml - 2)]
    out = set()
    for n in range(0, 900):
        ln = 1 + enc_len(cd, 5 + n)
        if any(abs(ln - m) <= 2 for m in marks):
            out.add(n)
    return sorted(out)


def wire_history(rng, length, mu, fd, stale_ok, cache):
    ev = []
    nq = na = 0
    pend_q = None
    faults = writes = 0
    recent = True
    while len(ev) < length:
        r = rng.below(100)
        if r < 22:
            side = rng.below(2)
            lim = mu if side == 0 else fd
            mtu = rng.choice([1, 7, max(1, lim - 1), lim, lim])
            n = rng.weighted([(0, 1), (1, 3), (mtu - 1, 2), (mtu, 3), (mtu + 1, 2), (rng.range(1, 6) * mtu, 2), (rng.range(1, 3 * mtu), 3)])
            n = min(n, 1500)
            d = rng.bytes(n) if rng.chance(2, 3) else bytes(rng.choice([0, 46, 92, 255, 34, 32, 128]) for _ in range(n))
            ev.append("w %d %s %d" % (side, hx(d), mtu))
            writes += 1
        elif r < 32:
            ev.append("r %d %d" % (rng.below(2), rng.choice([1, 2, 16, 100, 4096])))
        else:
            ev.append("q " + cache())
            nq += 1
            fate = rng.weighted([("ok", 62), ("qlost", 8), ("alost", 8), ("qdup", 6), ("adup", 4), ("replay", 6), ("areplay", 3), ("late", 3)])
            if fate == "ok":
                ev += ["ds %d" % (nq - 1), "dc %d" % na]; na += 1
            elif fate == "qlost":
                faults += 1
            elif fate == "alost":
                ev.append("ds %d" % (nq - 1)); na += 1
                faults += 1
            elif fate == "qdup":
                ev += ["ds %d" % (nq - 1), "ds %d" % (nq - 1), "dc %d" % (na + 1)]; na += 2
                faults += 1
            elif fate == "adup":
                ev += ["ds %d" % (nq - 1), "dc %d" % na, "dc %d" % na]; na += 1
                faults += 1
            elif fate == "replay":
                i = rng.below(nq) if (stale_ok and rng.chance(1, 2)) else max(0, nq - 1 - rng.below(40))
                if nq - 1 - i > 40:
                    recent = False
                ev.append("ds %d" % i); na += 1
                if rng.chance(1, 2):
                    ev.append("dc %d" % (na - 1))
                faults += 1
            elif fate == "areplay" and na > 0:
                j = rng.below(na) if (stale_ok and rng.chance(1, 2)) else max(0, na - 1 - rng.below(40))
                if na - 1 - j > 40:
                    recent = False
                ev.append("dc %d" % j)
                faults += 1
            elif fate == "late":
                pend_q = nq - 1
                faults += 1
            if pend_q is not None and rng.chance(1, 3):
                ev += ["ds %d" % pend_q, "dc %d" % na]; na += 1
                pend_q = None
    ev.append("pump 0 %d 0 0 %s" % (writes * 12 + 10, cache()))
    return ev, recent, faults, writes


def wstart(rng):
    k = rng.below(4)
    if k == 0:
        return 0
    if k == 1:
        return rng.range(65400, 65535)
    return rng.below(65536)


def wmk(cu, cd, rt, uid, dom, c0, s0, ev, src, recent=False, faults=0, writes=0, drained=True):
    line = "c01w %d %d %d %d %s %d %d %s" % (cu, cd, RT[rt], uid, hx(dom.encode()), c0, s0, " ".join(ev))
    return {"line": line, "key": line if (faults > 0 and writes > 0) or src.startswith("sweep") else None,
            "tags": {"carrier": "dns-wire", "n": len(ev), "dir": src, "rt": rt, "cu": cu, "cd": cd, "carries": carries(rt, cd),
                     "recent": recent, "drained": drained and carries(rt, cd), "src": src}}


def wire_cases(tier, rng):
    thorough = tier == "thorough"
    cs = []

    def cache():
        return hx(bytes(rng.choice(b"abcdefghijklmnopqrstuvwxyz0123456789") for _ in range(3)))
    combos = [(rt, cd) for rt in ("NULL", "PRIVATE", "TXT") for cd in DOWN_TEXT + [RAW]] + \
             [(rt, cd) for rt in ("SRV", "MX", "CNAME") for cd in DOWN_TEXT]
    ups = sorted(UP_CODECS)
    # (1) every upstream chunk size 0..mtu (and the first size that no longer fits) with every upstream codec, one exchange each
    for cu in ups:
        for dom in (DOMAINS if thorough else [DOMAINS[0], rng.choice(DOMAINS[1:])]):
            mu = upstream_mtu(len(dom), cu)
            rt, cd = rng.choice(combos)
            ev = []
            k = 0
            sizes = list(range(0, mu + 1))
            if not thorough:
                # the quick tier keeps the sizes whose encoded name body ends next to a label boundary (a dot after every 57 characters;
                # names above 60 characters are dotted), both ends of the range, and a random third of the rest
                near = lambda n: any(abs(6 + enc_len(cu, 3 + (2 if n else 0) + n) - b) <= 2 for b in (57, 60, 114, 171, 228))
                sizes = [n for n in sizes if n < 3 or n > mu - 3 or near(n) or rng.chance(1, 3)]
            for n in sizes + [mu + 1, mu + 12]:
                d = rng.bytes(n)
                ev += ["w 0 %s %d" % (hx(d), max(n, 1)), "q " + cache()]
                if n <= mu:
                    ev += ["ds %d" % k, "dc %d" % k]
                    k += 1
                else:
                    ev += ["pump 1 1 0 0 " + cache()]           # the chunk that does not fit stays queued: the model must agree on that too
                    break
                ev.append("r 1 4096")
            cs.append(wmk(cu, cd, rt, rng.choice([0, 1, 35, 36]), dom, wstart(rng), wstart(rng), ev, "sweep-up", drained=False))
    # (2) downstream chunk sizes next to every record / string / label boundary, every carrying (record type, codec) pair
    for rt, cd in combos:
        doms = DOMAINS if thorough else [rng.choice(DOMAINS)]
        for dom in doms:
            sizes = down_boundaries(rt, cd, len(dom))
            if not thorough:
                sizes = [n for n in sizes if n < 300 and rng.chance(1, 3) or rng.chance(1, 8)] + [0, 1, 2]
            sizes += [rng.range(1, 1600) for _ in range(6 if thorough else 2)]
            cu = rng.choice(ups)
            ev = []
            k = 0
            for n in sizes:
                d = rng.bytes(n)
                ev += ["w 1 %s %d" % (hx(d), max(n, 1)), "q " + cache(), "ds %d" % k, "dc %d" % k, "r 0 4096"]
                k += 1
            ev.append("pump 0 4 0 0 " + cache())
            cs.append(wmk(cu, cd, rt, rng.choice([0, 7, 1295 if thorough else 40]), dom, wstart(rng), wstart(rng), ev, "sweep-down"))
    # (3) histories with loss, duplication, late delivery and replay, both directions, every payload octet
    for i in range(600 if thorough else 90):
        rt, cd = combos[i % len(combos)] if i < 2 * len(combos) else rng.choice(combos)
        cu = ups[i % len(ups)]
        dom = rng.choice(DOMAINS)
        mu = upstream_mtu(len(dom), cu)
        fd = rng.choice([1, 50, 200, 1000, 1534])
        stale_ok = rng.chance(1, 3)
        ev, recent, faults, writes = wire_history(rng, rng.range(5, 600 if thorough and rng.chance(1, 8) else 90), mu, fd, stale_ok, cache)
        cs.append(wmk(cu, cd, rt, rng.choice([0, 1, 35, 36, 100]), dom, wstart(rng), wstart(rng), ev,
                      "history-stale" if stale_ok else "history-recent", recent, faults, writes))
    # (4) across the 16-bit wrap through the wire, with sparse faults
    for side in ((0, 1) if thorough else (rng.below(2),)):
        rt, cd = rng.choice(combos)
        cu = rng.choice(ups)
        k = 66000 if thorough else 700
        c0, s0 = (wstart(rng), wstart(rng)) if thorough else (65536 - rng.range(100, 600), 65536 - rng.range(100, 600))
        ev = []
        nq = na = 0
        left = k
        while left > 0:
            n = min(left, rng.range(150, 400))
            ev.append("pump %d %d %d %d %s" % (side, n, rng.choice([1, 3, 20]), rng.below(251), cache()))
            left -= n
            nq += n
            na += n
            ev += ["q " + cache(), "q " + cache(), "ds %d" % (nq + 1), "dc %d" % na, "dc %d" % na]
            nq += 2
            na += 1
        ev.append("pump %d 20 0 0 %s" % (side, cache()))
        cs.append(wmk(cu, cd, rt, 3, DOMAINS[0], c0, s0, ev, "wire-wrap", True, 2, k))
    # (5) outside the carrying combinations: the failure is reported (pack error, undecodable answer), never a silently different stream
    for rt, cd in [("A", 84), ("AAAA", 84), ("A", RAW), ("AAAA", 86), ("CNAME", RAW), ("MX", RAW), ("SRV", RAW)]:
        for _ in range(3 if thorough else 1):
            ev, recent, faults, writes = wire_history(rng, rng.range(10, 60), upstream_mtu(13, 84), rng.choice([3, 14, 28, 100]), False, cache)
            cs.append(wmk(84, cd, rt, 2, DOMAINS[0], wstart(rng), wstart(rng), ev, "not-carrying", False, faults, writes, drained=False))
    return cs


def wire_tags(line):
    """tags of a c01w line that did not come from the generators (corpus, replay)"""
    f = line.split()
    cu, cd, qt = int(f[1]), int(f[2]), int(f[3])
    rt = [k for k, v in RT.items() if v == qt][0]
    return {"carrier": "dns-wire", "n": len(f), "dir": "corpus", "rt": rt, "cu": cu, "cd": cd, "carries": carries(rt, cd) and cu in UP_CODECS,
            "recent": False, "drained": False, "src": "corpus"}


def wire_oracle(case, impl):
    import props.c07 as c07
    p = impl.split()
    t = case["tags"] if "carries" in case.get("tags", {}) else wire_tags(case["line"])
    if not p or p[0] in ("panic", "died", "timeout", "harness-error", "setup-failed") or "end" not in p:
        return [("crash;carrier=dns-wire", "wire-level history could not be run: " + impl[:200])]
    d, body = c07.parse_end(p[:p.index("wire")] if "wire" in p else p)
    out = []
    if t["cd"] == RAW and not t["carries"] and t["rt"] not in ("A", "AAAA"):
        # Raw over a record type that carries the payload inside a domain name: dots, backslashes and spaces of the payload do not
        # survive. The client's downstream codec test rejects this pair, so no session runs with it (C10/C11); here only the model's
        # prediction of what happens is compared (agree)
        return out
    if not d["accc"].startswith(d["rds"] + d["sbuf"]):
        out.append(("bytes-altered;carrier=dns-wire;dir=up", "server-side bytes are not a prefix of what the client's writes accepted (%d read+buffered of %d accepted): %s"
                    % (len(d["rds"]) + len(d["sbuf"]), len(d["accc"]), case["line"][:300])))
    if not d["accs"].startswith(d["rdc"] + d["cbuf"]):
        out.append(("bytes-altered;carrier=dns-wire;dir=down", "client-side bytes are not a prefix of what the server's writes accepted (%d of %d): %s"
                    % (len(d["rdc"]) + len(d["cbuf"]), len(d["accs"]), case["line"][:300])))
    if d["lostc"] or d["losts"]:
        out.append(("bytes-lost;carrier=dns-wire", "a Write returned (its queue drained) while accepted bytes had not reached the peer"))
    if t["carries"]:
        bad = [w for w in ("undecodable", "noanswer", "drop", "error", "other") if w in body]
        for i in range(len(body) - 1):
            if body[i] == "c" and body[i + 1] in ("3", "4", "5"):
                bad.append("c " + body[i + 1])
        if t["src"] != "sweep-up" and "encerr" in body:
            bad.append("encerr")
        if bad:
            out.append(("wire-message-failed;carrier=dns-wire;rt=%s" % t["rt"], "a message of the tunnel could not be formed or read inside the carrying "
                        "combinations (%s): %s" % (",".join(bad), case["line"][:300])))
    if t["drained"] and "stuck" not in body and "encerr" not in body:
        if d["col"] or d["sol"] or d["rds"] + d["sbuf"] != d["accc"] or d["rdc"] + d["cbuf"] != d["accs"]:
            out.append(("bytes-lost;carrier=dns-wire;no-progress", "after the path stopped losing not everything arrived: out queues %d/%d, up %d of %d, down %d of %d"
                        % (d["col"], d["sol"], len(d["rds"]) + len(d["sbuf"]), len(d["accc"]), len(d["rdc"]) + len(d["cbuf"]), len(d["accs"]))))
    if t.get("recent") and t["carries"]:
        for i in range(len(body) - 1):
            if (body[i] == "s" and body[i + 1] == "1") or (body[i] == "c" and body[i + 1] in ("1", "2")):
                out.append(("false-error;carrier=dns-wire", "loss/duplication/late delivery within 40 messages surfaced as an error (%s %s)" % (body[i], body[i + 1])))
                break
    return out


def oracle(case, impl):
    t = case["tags"]
    if t.get("carrier") == "dns-wire" or case["line"].startswith("c01w "):
        return wire_oracle(case, impl)
    p = impl.split()
    if not p or p[0] in ("panic", "died", "timeout", "harness-error"):
        return [("crash;carrier=" + t["carrier"], "transfer scenario crashed: " + impl[:150])]
    if t["carrier"] == "ws-adapter":
        if "err" in p or p[-1] != "1":
            return [("ws-adapter-not-a-prefix", "the websocket adapter handed out octets that are not a prefix of what was written: %s -> %s" % (case["line"][:200], impl[:200]))]
        return []
    if p[0] in ("setup", "connect"):
        return [("no-connection;carrier=" + t["carrier"], "no logical connection could be opened: " + impl[:100])]
    if t["dir"] == "routing":
        # c03 observation: filter ok <n> tags.. then per request dial <tag> | refused; then dials ..
        body = p[3 + int(p[2]):p.index("dials")]
        res, j = [], 0
        while j < len(body):
            if body[j] == "dial":
                res.append(int(body[j + 1]))
                j += 2
            else:
                res.append(None)
                j += 1
        out = []
        for rq, got in zip(t["reqs"], res):
            if got is None or t["names"][got] != rq:
                out.append(("bytes-to-wrong-target", "a connection for channel %r was %s" % (rq, "refused" if got is None else "connected to the target of channel %r" % t["names"][got])))
        return out
    if t["dir"].startswith("sibling:"):
        if "first-half" in p or "second-half" in p:
            return [("bytes-lost;carrier=tcp;" + t["dir"][8:], "a transfer did not arrive complete after a sibling connection was refused or failed: " + impl[:150])]
        return []
    if t["dir"] == "parallel":
        out = []
        q = impl.split(" c ")
        for part in q:
            w = part.split()
            if w[0] == "c":
                w = w[1:]
            i, up, down = w[0], (int(w[2]), int(w[3])), (int(w[5]), int(w[6]))
            for d, (got, diff) in (("up", up), ("down", down)):
                if got != t["n"] or diff != -1:
                    kind = "altered" if (diff != -1 and diff < got) else "lost"
                    out.append(("bytes-%s;carrier=%s;parallel" % (kind, t["carrier"]),
                                "with %s logical connections transferring at the same time, connection %s received %d of %d octets %s, first difference at %d (%s)" % (case["line"].split()[2], i, got, t["n"], d, diff, case["line"])))
        return out[:3]
    if "eof" in p:
        p = p[:p.index("eof")]
    out = []
    f = {}
    i = 0
    while i + 2 < len(p) + 1 and i < len(p):
        f[p[i]] = (int(p[i + 1]), int(p[i + 2]))
        i += 3
    for d in ("up", "down"):
        if d in f:
            got, diff = f[d]
            if got != t["n"] or diff != -1:
                kind = "altered" if (diff != -1 and diff < got) else "lost"
                out.append(("bytes-%s;carrier=%s;dir=%s" % (kind, t["carrier"], d),
                            "%s: %d of %d bytes arrived, first difference at %d (%s)" % (d, got, t["n"], diff, case["line"])))
    return out


def agree(case, impl, model):
    return None if impl == model else "byte-stream"


def distribution(cs):
    d = {}
    for c in cs:
        k = c["tags"].get("carrier", "corpus")
        if k == "dns-wire":
            k += "/" + c["tags"]["src"]
        d[k] = d.get(k, 0) + 1
    return d


META = {
    "level_text": "Partial by nature (a composition over TLS, smux, KCP, websocket libraries): Coq theorems for the parts that are socketace's own "
                  "- multiplexer frame fits one carrier message on both ends, the copy loop reports end-of-stream only after writing all it "
                  "read, the websocket byte-stream adapter returns exactly what was written for every sequence of writes and of read-buffer "
                  "sizes (model run against two real adapters over a real websocket, read length by read length), handshake read-ahead is "
                  "handed on (C06) - and FULL for the DNS carrier's own path: one wire-level model composed of the request pipeline (C09), the "
                  "response pipeline (C10) and the two queue pairs (C07), where every query is the packed question octets and every answer "
                  "the packed message, proved to refine the abstract link for every upstream codec the client can select, every carrying "
                  "(record type, downstream codec) pair, every tunnel domain, user id and fragment size within the stated bounds, and every "
                  "history of writes, reads, losses, duplicates, delays and replays within the age bound: the octets delivered are a prefix of "
                  "the octets written in both directions, a returned Write is delivered, no message fails to encode or decode, and once the "
                  "path stops losing everything arrives (c01_dns_wire_fidelity, _not_lost, _no_false_error, _complete); the composed model is "
                  "run token for token against the real listener, serializer, queues and DNS library. Plus byte-for-byte "
                  "end-to-end transfers on every carrier, with boundary lengths and random write partitions, on every run.",
    "level_note": "Hypotheses: TLS transparent, smux per-stream FIFO, KCP reliable, gorilla delivers whole messages in order. They are exercised "
                  "end to end, not proved. DNS wire-level theorems: message age bound A + W + 128 <= 65536 (as C07); A and AAAA answers and "
                  "Raw over name-carrying records are outside params_ok (findings of C10; the model predicts the reported pack error); "
                  "miekg/dns packing and the stdlib codecs are specification-level models validated by the differential runs.",
    "technique": "Coq proofs of adapter contracts, a refinement proof (wire-level DNS tunnel -> abstract link) + differential runs of the "
                 "composed model against the real code + end-to-end differential transfers (prediction: identity)",
}
