"""Scripts for the endpoint model (Mux/Endpoint.v) and the harness op c15m (C15): generators, a property-level reference for the oracle
(what "one stalled peer cannot block other peers" demands of an observation, computed from every peer's OWN events alone), comparison
with the model."""

KINDS_MEM = ("direct", "sock", "packet", "http", "stdio")
LOOPBACK = ("tcp", "wsl")
TEXT = ("an", "up", "ut", "bp", "bq", "bm", "bo")


def has_loop(kind):
    return kind in ("sock", "packet", "http", "tcp", "wsl")


def tls_early(kind, tls):
    return tls and kind in ("http", "wsl", "stdio")


def tls_lazy(kind, tls):
    return tls and kind in ("sock", "tcp")


def is_http(kind):
    return kind in ("http", "wsl")


def offered(kind, tls, cert):
    secure = tls and kind != "packet"
    return cert and not secure


def good_seq(kind, tls, cert, st):
    """what a well-behaved peer sends, in order"""
    s = []
    if tls_early(kind, tls):
        s.append("hl")
    if is_http(kind):
        s.append("ws")
    if tls_lazy(kind, tls):
        s.append("hl")
    s += ["an", "ut" if st else "up"]
    if st and offered(kind, tls, cert):
        s.append("hl")
    return s


def armed_from(kind, tls):
    """index in good_seq from which the peer's connection carries the handshake deadline"""
    return (1 if tls_early(kind, tls) else 0) + (1 if is_http(kind) else 0)


# ---- the reference: what the script says about every peer, from that peer's own events
#   queued     connected; only where no loop runs any more can it stay so
#   waiting    its goroutine waits for the peer's next octets (stalled, slow, inside a fragment)
#   est        the session is established
#   over       refused (garbage, a wrong message), closed by the peer, or its own deadline has passed: the server must close the connection

class Peer:
    def __init__(self, kind, tls, cert, accerr=False, served=True):
        self.kind, self.tls, self.cert = kind, tls, cert
        self.pos = 0
        self.st = None          # asked for StartTLS?
        self.state = "waiting" if served else "queued"
        self.why = None
        self.expect = None
        self.accerr = accerr
        self.probed = False
        self.pending = []       # messages sent while still in the queue
        if accerr and served:
            self.state, self.why = "over", "accept-error"

    def seq(self):
        return good_seq(self.kind, self.tls, self.cert, bool(self.st))

    def send(self, m):
        if self.state == "queued":
            self.pending.append(m)
            return
        if self.state != "waiting":
            return
        if m in ("up", "ut") and self.st is None and self.pos == len(good_seq(self.kind, self.tls, self.cert, False)) - 1:
            self.st = (m == "ut")
            if m == "ut" and not offered(self.kind, self.tls, self.cert):
                self.state, self.why = "over", "starttls-not-offered"
                return
        s = self.seq()
        if self.pos < len(s) and s[self.pos] == m:
            self.pos += 1
            if self.pos == len(s) and self.st is not None:
                self.state = "est"
        else:
            self.state, self.why = "over", "refused"

    def close(self):
        if self.state in ("waiting", "queued"):
            self.state, self.why = "over", "peer-closed"
        # (an established session that its peer closes is C14's matter; the generators do not do it)

    def expire(self):
        if self.state == "waiting" and self.kind != "stdio" and self.pos >= armed_from(self.kind, self.tls):
            self.state, self.why = "over", "expired"


class Ref:
    def __init__(self, kind, tls, cert):
        self.kind, self.tls, self.cert = kind, tls, cert
        self.peers = []
        self.loop = has_loop(kind)
        self.down = False
        self.events = []     # ("d", k, expected) | ("g", loop, per, sess)

    def gor(self):
        per = sum(1 for p in self.peers if p.state == "waiting")
        sess = sum(1 for p in self.peers if p.state == "est")
        return (1 if self.loop and not self.down else 0, per, sess)

    def apply(self, ops):
        i = 0
        while i < len(ops):
            o = ops[i]
            if o in ("c", "ce"):
                if self.down:
                    i += 1
                    continue
                self.peers.append(Peer(self.kind, self.tls, self.cert, accerr=(o == "ce")))
                i += 1
            elif o == "s":
                k, m = int(ops[i + 1]), ops[i + 2]
                if k < len(self.peers):
                    self.peers[k].send(m)
                i += 3
            elif o in ("p", "z", "x", "d"):
                k = int(ops[i + 1])
                if k < len(self.peers):
                    p = self.peers[k]
                    if o == "z":
                        p.close()
                    elif o == "x":
                        p.expire()
                    elif o == "d":
                        self.events.append(("d", k, p.state == "est"))
                        p.probed = True
                else:
                    if o == "d":
                        self.events.append(("d", k, False))
                i += 2
            elif o == "gq":
                self.events.append(("g",) + self.gor())
                i += 1
            elif o == "sd":
                if self.loop:
                    self.down = True
                i += 1
            else:  # ae
                i += 1
        return self


def parse_line(line):
    w = line.split()
    return w[1], w[2] == "1", w[3] == "1", w[4:]


def parse_obs(impl):
    """-> (events [("d", b) | ("g", l, p, s)], peers [(codes, state, armed)], loop word, (l, p, s), shared) or None"""
    w = impl.split()
    if "end" not in w:
        return None
    e = w.index("end")
    evs = []
    i = 0
    try:
        while i < e:
            if w[i] == "d":
                evs.append(("d", w[i + 1] == "1"))
                i += 2
            elif w[i] == "g":
                evs.append(("g", int(w[i + 1]), int(w[i + 2]), int(w[i + 3])))
                i += 4
            else:
                return None
        peers = []
        i = e + 1
        while i < len(w) and w[i] == "p":
            n = int(w[i + 1])
            codes = [int(x) for x in w[i + 2:i + 2 + n]]
            peers.append((codes, w[i + 2 + n], w[i + 3 + n] == "1"))
            i += 4 + n
        if w[i] != "l" or w[i + 2] != "g" or w[i + 6] != "sh":
            return None
        return evs, peers, w[i + 1], (int(w[i + 3]), int(w[i + 4]), int(w[i + 5])), w[i + 7] == "1"
    except (IndexError, ValueError):
        return None


def oracle(case, impl):
    kind, tls, cert, ops = parse_line(case["line"])
    tag = "kind=" + kind + ("+tls" if tls else "")
    o = parse_obs(impl)
    if o is None:
        return [("crash;" + tag, "endpoint script crashed or gave no observation (%s): %s" % (case["line"][:160], impl[:120]))]
    evs, peers, loopw, gor, shared = o
    ref = Ref(kind, tls, cert).apply(ops)
    out = []
    stalled = [k for k, p in enumerate(ref.peers) if p.state == "waiting"]
    if len(peers) != len(ref.peers) or len(evs) != len(ref.events):
        return [("crash;" + tag, "observation does not match the script's shape: " + impl[:160])]
    for got, want in zip(evs, ref.events):
        if want[0] == "d":
            if got[0] != "d":
                return [("crash;" + tag, "observation does not match the script's shape: " + impl[:160])]
            if want[2] and not got[1]:
                out.append(("blocked-by-stalled-peer;" + tag, "peer %d sent its whole handshake and its session carries no data (peers stalled meanwhile: %s): %s"
                            % (want[1], stalled, case["line"][:200])))
            elif got[1] and not want[2]:
                out.append(("session-without-handshake;" + tag, "peer %d moves data without having completed its handshake: %s" % (want[1], case["line"][:200])))
        else:
            if got[0] != "g":
                return [("crash;" + tag, "observation does not match the script's shape: " + impl[:160])]
    for k, ((codes, st, armed), p) in enumerate(zip(peers, ref.peers)):
        if kind in LOOPBACK and st == "q":
            st = "w"
        if p.state == "est":
            if st != "e":
                out.append(("blocked-by-stalled-peer;" + tag, "peer %d sent its whole handshake and has no session (state %s, answers %s; peers stalled meanwhile: %s): %s"
                            % (k, st, codes, stalled, case["line"][:200])))
            elif armed:
                out.append(("deadline-left-on-session;" + tag, "peer %d's established connection still carries the handshake deadline: %s" % (k, case["line"][:200])))
        elif p.state == "over":
            if st != "c" and not (kind == "stdio" and p.pos == 0 and tls):     # (stdio: the TLS failure before AcceptConnection just returns)
                out.append(("connection-left-open;" + tag, "peer %d's session set-up is over (%s) and the server has not closed its connection (state %s): %s"
                            % (k, p.why, st, case["line"][:200])))
        elif p.state == "waiting":
            if st == "c":
                out.append(("peer-cut-off-by-another;" + tag, "peer %d was cut off although nothing of its own ended its handshake (no refusal, no close, its deadline "
                            "has not passed): %s" % (k, case["line"][:200])))
            elif st == "q":
                out.append(("blocked-by-stalled-peer;" + tag, "peer %d has connected and is not being served (peers stalled meanwhile: %s): %s"
                            % (k, [x for x in stalled if x != k], case["line"][:200])))
            elif st == "e":
                out.append(("session-without-handshake;" + tag, "peer %d has a session without having completed its handshake: %s" % (k, case["line"][:200])))
    wl, wp, ws = ref.gor()
    if kind in ("direct", "stdio"):
        wl = 0
    if not out:
        if gor[1] > wp:
            out.append(("goroutine-left;" + tag, "%d per-peer goroutines at the end, %d peers are still inside their handshake: %s" % (gor[1], wp, case["line"][:200])))
        if gor[0] < wl or (wl == 1 and loopw != "a"):
            out.append(("accept-loop-not-accepting;" + tag, "the accept loop is not back in Accept at the end (%s, %d): %s" % (loopw, gor[0], case["line"][:200])))
    if shared:
        out.append(("deadline-on-shared-socket;" + tag, "a deadline is set on the socket all peers of the endpoint share: %s" % case["line"][:200]))
    return out[:3]


def agree(case, impl, model):
    if impl == model:
        return None
    kind = case["line"].split()[1]
    if kind in LOOPBACK:
        a, b = parse_obs(impl), parse_obs(model)
        if a is None or b is None:
            return "endpoint"
        pa = [(c, "w" if s == "q" else s) for c, s, _ in a[1]]
        pb = [(c, "w" if s == "q" else s) for c, s, _ in b[1]]
        if a[0] == b[0] and pa == pb and a[2] == b[2] and a[3] == b[3]:
            return None
    return "endpoint"


# ---- generators
def mk(kind, tls, cert, ops, cls, model=True):
    line = "c15m %s %d %d %s" % (kind, 1 if tls else 0, 1 if cert else 0, " ".join(str(x) for x in ops))
    c = {"line": line, "key": line, "tags": {"carrier": kind + ("+tls" if tls else ""), "stall": cls, "src": "endpoint:" + cls}}
    if not model:
        c["model"] = False
    return c


def plan(kind, tls, cert, what, rng, at=None, st=None, slow=False):
    """the ops of one peer, with K for its index: what in good | stall | expire | close | bad | latebad"""
    if st is None:
        st = offered(kind, tls, cert) and rng.chance(1, 2)
    seq = good_seq(kind, tls, cert, st)
    ops = [("c",)]
    n = len(seq) if what == "good" else (at if at is not None else rng.below(len(seq)))
    n = min(n, len(seq) - (0 if what == "good" else 1)) if what != "good" else n
    for i in range(n):
        m = seq[i]
        if slow and m in TEXT and rng.chance(1, 2):
            ops.append(("p", "K"))
        ops.append(("s", "K", m))
    if what == "good":
        if rng.chance(1, 3):
            ops.append(("x", "K"))       # the handshake's clock running out later does nothing to an established session
        ops.append(("d", "K"))
        return ops
    nxt = seq[n] if n < len(seq) else None
    if what in ("stall", "expire", "close"):
        if rng.chance(1, 2) and not (kind in LOOPBACK and nxt in ("hl", "ws")):
            ops.append(("p", "K"))
        if what == "expire":
            ops.append(("x", "K"))
        elif what == "close":
            ops.append(("z", "K"))
    elif what == "bad":
        if nxt == "hl":
            ops.append(("s", "K", rng.choice(["bp", "an"])))     # text where a TLS hello is expected
        elif nxt == "ws":
            ops.append(("s", "K", "bp"))
        elif nxt == "an":
            ops.append(("s", "K", rng.choice(["bp", "bq", "bm", "bo", "up", "ws"] if not is_http(kind) else ["bp", "bq", "bm", "bo", "up"])))
        else:
            ops.append(("s", "K", rng.choice(["bp", "bq", "bm", "bo", "an"])))
        if rng.chance(1, 3):
            ops.append(("s", "K", "an"))     # whatever follows a refusal is never read
    return ops


def merge(plans, rng, extra=()):
    """interleave the peers' op lists at random, each in its own order; indices are given in the order of the connects"""
    plans = [list(p) for p in plans]
    idx = [None] * len(plans)
    out = []
    n = 0
    extra = list(extra)
    while any(plans) or extra:
        cands = [i for i, p in enumerate(plans) if p]
        if extra and (not cands or rng.chance(1, 8)):
            out += list(extra.pop(0))
            continue
        i = rng.choice(cands)
        op = plans[i].pop(0)
        if op[0] == "c" or op[0] == "ce":
            idx[i] = n
            n += 1
            out.append(op[0])
        else:
            out += [op[0], idx[i]] + list(op[2:])
    return out


def sequential(plans):
    out = []
    for n, p in enumerate(plans):
        for op in p:
            out += [op[0]] if op[0] in ("c", "ce") else [op[0], n] + list(op[2:])
    return out


CONFIGS = [("direct", False, True), ("direct", False, False), ("direct", True, True), ("sock", False, True), ("sock", False, False), ("sock", True, True),
           ("packet", False, True), ("packet", True, True), ("http", False, True), ("http", True, True), ("http", False, False)]


def fixed(rng):
    cs = []
    # every stall point of every kind, one stalled peer, then a well-behaved one that must get through (and move data)
    for kind, tls, cert in CONFIGS:
        for st in ((False, True) if offered(kind, tls, cert) else (False,)):
            seq = good_seq(kind, tls, cert, st)
            for at in range(len(seq)):
                for frag in (False, True):
                    if at not in (0, len(seq) - 1) and frag and (kind, tls) not in (("sock", False), ("http", False)):
                        continue
                    a = [("c",)] + [("s", "K", m) for m in seq[:at]] + ([("p", "K")] if frag else [])
                    b = [("c",)] + [("s", "K", m) for m in good_seq(kind, tls, cert, False)] + [("d", "K")]
                    cs.append(mk(kind, tls, cert, sequential([a, b]) + ["gq", "x", 0, "gq"], "stall@%d%s" % (at, "+frag" if frag else "")))
    # a session first, then a peer that stalls and stays (whatever the stalled peer's set-up has put on anything shared is still there at the end)
    for kind, tls, cert in CONFIGS:
        seq = good_seq(kind, tls, cert, False)
        a = [("c",)] + [("s", "K", m) for m in seq] + [("d", "K")]
        b = [("c",)] + [("s", "K", m) for m in seq[:-1]] + [("p", "K")]
        cs.append(mk(kind, tls, cert, sequential([a, b]) + ["gq"], "session+stall"))
    # stdio: one peer
    for tls in (False, True):
        seq = good_seq("stdio", tls, True, False)
        cs.append(mk("stdio", tls, True, sequential([[("c",)] + [("s", "K", m) for m in seq] + [("d", "K")]]), "good"))
        cs.append(mk("stdio", tls, True, sequential([[("c",)] + [("s", "K", m) for m in seq[:-1]] + [("p", "K"), ("x", "K")]]) + ["gq"], "stall+expired"))
        cs.append(mk("stdio", tls, True, sequential([[("c",)] + [("s", "K", m) for m in seq[:-1]] + [("s", "K", "bm")]]), "refused"))
    seq = good_seq("stdio", False, True, True)
    cs.append(mk("stdio", False, True, sequential([[("c",)] + [("s", "K", m) for m in seq] + [("d", "K")]]), "good"))
    # every way a handshake ends badly, next to a stalled peer and a good one; accept errors; shutdown
    for kind, tls, cert in (("sock", False, True), ("packet", False, True), ("direct", False, True), ("http", False, True), ("sock", True, True)):
        bad = [["c", "s", 0, "bp"], ["c", "s", 0, "bq"], ["c", "s", 0, "an", "s", 0, "bp"], ["c", "s", 0, "an", "s", 0, "bo"], ["c", "s", 0, "an", "z", 0],
               ["c", "z", 0], ["c", "s", 0, "an", "p", 0, "x", 0]]
        pre = [m for m in good_seq(kind, tls, cert, False) if m in ("hl", "ws")]
        for b in bad[:7 if kind == "sock" and not tls else 4]:
            ops = []
            # peer 0: the failing one; peer 1 stalls; peer 2 completes
            ops += ["c"] + [x for m in pre for x in ("s", 0, m)] + b[1:]
            ops += ["c"] + [x for m in pre for x in ("s", 1, m)] + ["s", 1, "an"]
            ops += ["c"] + [x for m in good_seq(kind, tls, cert, False) for x in ("s", 2, m)] + ["d", 2, "gq"]
            cs.append(mk(kind, tls, cert, ops, "fail+stall+good"))
    cs.append(mk("sock", False, True, ["c", "ae", "c", "ce", "ae", "c", "s", 0, "an", "s", 3, "an", "s", 3, "up", "d", 3, "gq"], "accept-errors"))
    cs.append(mk("packet", False, True, ["ce", "c", "ae", "c", "s", 1, "an", "s", 2, "an", "s", 2, "ut", "s", 2, "hl", "d", 2, "gq", "sd", "gq"], "accept-errors+shutdown"))
    cs.append(mk("sock", False, True, ["c", "c", "s", 1, "an", "s", 1, "up", "sd", "gq", "d", 1, "x", 0], "shutdown"))
    # a crowd of stalled peers (any fixed number of pending handshakes would be used up), then well-behaved ones
    for kind, tls, n in (("sock", False, 40), ("packet", False, 20), ("http", False, 20), ("direct", False, 20), ("sock", True, 18)):
        pre = [m for m in good_seq(kind, tls, True, False) if m in ("hl", "ws")]
        ops = []
        for k in range(n):
            ops += ["c"]
            if kind == "http" or k % 3 == 1:
                ops += [x for m in pre for x in ("s", k, m)]
                if k % 3 == 1:
                    ops += ["s", k, "an"]
        ops += ["c"] + [x for m in good_seq(kind, tls, True, False) for x in ("s", n, m)] + ["d", n, "gq"]
        ops += ["x", 1, "x", 0, "gq"]
        cs.append(mk(kind, tls, True, ops, "crowd%d" % n))
    # the servers' own Startup on loopback (the kernel's listener; the peer's deadline runs out in real time)
    cs.append(mk("tcp", False, True, ["c", "c", "s", 1, "an", "s", 1, "up", "x", 0], "loopback+expired"))
    cs.append(mk("tcp", False, True, ["c", "p", 0, "c", "s", 1, "an", "s", 1, "ut", "s", 1, "hl", "c", "s", 2, "bq", "x", 0], "loopback+expired"))
    cs.append(mk("tcp", True, True, ["c", "p", 0, "c", "s", 1, "hl", "s", 1, "an", "s", 1, "up", "x", 0], "loopback+tls+expired"))
    cs.append(mk("tcp", True, True, ["c", "c", "c", "s", 2, "hl", "s", 2, "an", "s", 2, "up", "s", 1, "hl"], "loopback+tls"))
    # (seventeen websocket peers stalled after the upgrade, then a well-behaved one, on loopback: corpus/C15/endpoint.txt)
    cs.append(mk("wsl", False, True, ["c", "s", 0, "ws", "c", "c", "s", 2, "ws", "s", 2, "an", "s", 2, "up", "x", 0], "loopback+expired"))
    cs.append(mk("wsl", True, True, ["c", "c", "s", 1, "hl", "s", 1, "ws", "s", 1, "an", "s", 1, "up"], "loopback+tls"))
    return cs


def random_case(rng, thorough):
    kind, tls, cert = rng.choice(CONFIGS + [("sock", False, True), ("packet", False, True)])
    npeers = rng.range(2, 7 if thorough else 5)
    plans = []
    for _ in range(npeers):
        what = rng.weighted([("good", 4), ("stall", 3), ("expire", 2), ("close", 1), ("bad", 3)])
        plans.append(plan(kind, tls, cert, what, rng, slow=rng.chance(1, 3) and not tls))
    extra = []
    if kind in ("sock", "packet") and not tls and rng.chance(1, 3):
        extra.append(("ae",))
    if rng.chance(1, 2):
        extra.append(("gq",))
    ops = merge(plans, rng, extra)
    if kind in ("sock", "packet") and rng.chance(1, 6):
        ops += ["sd"]
    ops += ["gq"]
    return mk(kind, tls, cert, ops, "random")


def shrink(case):
    w = case["line"].split()
    head, ops = w[:4], w[4:]
    # group into operations
    groups = []
    i = 0
    while i < len(ops):
        n = {"s": 3, "p": 2, "z": 2, "x": 2, "d": 2}.get(ops[i], 1)
        groups.append(ops[i:i + n])
        i += n
    # drop one peer altogether (renumbering the others), or one operation that is not a connect
    npeers = sum(1 for g in groups if g[0] in ("c", "ce"))
    for k in range(npeers - 1, -1, -1):
        out = []
        seen = -1
        for g in groups:
            if g[0] in ("c", "ce"):
                seen += 1
                if seen == k:
                    continue
                out += g
            elif len(g) >= 2:
                j = int(g[1])
                if j == k:
                    continue
                out += [g[0], str(j - 1 if j > k else j)] + g[2:]
            else:
                out += g
        c = dict(case)
        c["line"] = " ".join(head + out)
        yield c
    for q in range(len(groups) - 1, -1, -1):
        if groups[q][0] in ("c", "ce"):
            continue
        out = [x for r, g in enumerate(groups) if r != q for x in g]
        c = dict(case)
        c["line"] = " ".join(head + out)
        yield c
