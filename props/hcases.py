"""Scripts for the handler model (Mux/Handler.v) and the harness op c02h, shared by C02 and C14: generators, a property-level reference for
the oracles (what isolation and reclamation demand of an observation, computed from the script alone), comparison with the model."""

# ---- the reference: what the script says about every logical connection, by the property's own words
#   silent    the stream is open, nothing proposed yet          (one handler goroutine waits for the first octet)
#   waiting   refused and left open by the client               (one handler goroutine waits for the next proposal)
#   pending   selected, the service's dial has not returned yet (one handler goroutine inside OpenConnection)
#   piping    selected and connected                            (one handler goroutine and two copy loops)
#   over      ended: by the application, the target, a failed dial, a refusal (closed by the client), or the session's death


class Ref:
    def __init__(self):
        self.conns = []      # dicts: st, dialled, cli_closed, by
        self.alive = True
        self.expect = []     # what the observation must contain, in order: ("sel", word) | ("pr", [indices]) | ("g", acc, handlers, copiers)

    def new(self, st, **kw):
        c = {"st": st, "dialled": False, "cli_closed": False, "by": None}
        c.update(kw)
        self.conns.append(c)
        return c

    def gor(self):
        h = sum(1 for c in self.conns if c["st"] in ("silent", "waiting", "pending", "piping"))
        cp = 2 * sum(1 for c in self.conns if c["st"] == "piping")
        return (1 if self.alive else 0, h, cp)

    def die(self):
        self.alive = False
        for c in self.conns:
            if c["st"] in ("silent", "waiting", "piping"):
                c["st"], c["by"] = "over", c["by"] or "death"
            # a pending dial keeps its goroutine until it returns

    def apply(self, ops):
        i = 0
        while i < len(ops):
            o = ops[i]
            arg = None
            if o in ("se", "su", "dk", "df", "ac", "te", "tr", "mr"):
                arg = int(ops[i + 1])
                i += 1
            i += 1
            if o in ("oi", "of", "ol", "or", "orx", "on"):
                if not self.alive:
                    self.expect.append(("sel", "dead"))
                    continue
                if o == "oi":
                    self.new("piping", dialled=True)
                    self.expect.append(("sel", "ok"))
                elif o == "of":
                    self.new("over", by="dialfail")
                    self.expect.append(("sel", "ok"))
                elif o == "ol":
                    self.new("pending")
                    self.expect.append(("sel", "ok"))
                elif o == "or":
                    self.new("over", by="refused", cli_closed=True)
                    self.expect.append(("sel", "na"))
                elif o == "orx":
                    self.new("waiting")
                    self.expect.append(("sel", "na"))
                else:
                    self.new("silent")
                    self.expect.append(("opened",))
            elif o in ("se", "su"):
                c = self.conns[arg] if arg < len(self.conns) else None
                if c is None or c["st"] != "silent" or not self.alive:
                    self.expect.append(("sel", "fail"))
                elif o == "se":
                    c["st"], c["dialled"] = "piping", True
                    self.expect.append(("sel", "ok"))
                else:
                    c["st"], c["by"], c["cli_closed"] = "over", "refused", True
                    self.expect.append(("sel", "na"))
            elif o in ("dk", "df"):
                c = self.conns[arg] if arg < len(self.conns) else None
                if c is not None and c["st"] == "pending":
                    if o == "dk":
                        c["dialled"] = True
                        if self.alive and not c["cli_closed"]:
                            c["st"] = "piping"
                        else:
                            c["st"], c["by"] = "over", c["by"] or "death"
                    else:
                        c["st"], c["by"] = "over", "dialfail"
            elif o == "ac":
                c = self.conns[arg] if arg < len(self.conns) else None
                if c is not None and not c["cli_closed"]:
                    c["cli_closed"] = True
                    if c["st"] in ("silent", "waiting", "piping"):
                        c["st"], c["by"] = "over", c["by"] or "app"
                    elif c["st"] == "pending":
                        c["by"] = "app"
            elif o in ("te", "tr"):
                c = self.conns[arg] if arg < len(self.conns) else None
                if c is not None and c["dialled"]:
                    if c["st"] == "piping":
                        c["st"], c["by"] = "over", ("target-eof" if o == "te" else "target-err")
            elif o == "pr":
                self.expect.append(("pr", [k for k, c in enumerate(self.conns) if c["st"] == "piping" and not c["cli_closed"] and self.alive]))
            elif o == "gq":
                self.expect.append(("g",) + self.gor())
            elif o in ("cut", "gb", "eof"):
                if self.alive:
                    self.die()
            elif o == "mr":
                if self.alive:
                    for _ in range(arg):
                        self.new("over", by="refused", cli_closed=True)
        return self


class RefCli:
    """the same reference for `c02h cli` scripts: local connections through the real client, tunnelled or piped to a forward address"""

    def __init__(self):
        self.conns = []      # dicts: tunnel, st (pending | piping | over), dialled, app_closed, hung, by
        self.alive = True
        self.expect = []

    def gor(self):
        t = [c for c in self.conns if c["tunnel"]]
        hand = sum(1 for c in t if c["st"] == "piping" or c["st"] == "pending")
        cop = 4 * sum(1 for c in t if c["st"] == "piping") + 2 * sum(1 for c in t if c["st"] == "pending" and not c["cli_over"]) + \
            2 * sum(1 for c in self.conns if not c["tunnel"] and c["st"] == "piping")
        lst = sum(1 for c in self.conns if (c["st"] == "piping") or (c["st"] == "pending" and not c["cli_over"]))
        return (1 if self.alive else 0, hand, cop, lst)

    def apply(self, ops):
        i = 0
        while i < len(ops):
            o = ops[i]
            arg = None
            if o in ("dk", "df", "ac", "te", "tr"):
                arg = int(ops[i + 1])
                i += 1
            i += 1
            c = self.conns[arg] if arg is not None and arg < len(self.conns) else None
            if o in ("oi", "of", "ol", "or", "od"):
                n = {"tunnel": o != "od", "st": "piping", "dialled": False, "app_closed": False, "hung": False, "by": None, "cli_over": False}
                if o == "oi":
                    n["dialled"] = True
                elif o == "of":
                    n["st"], n["by"], n["cli_over"] = "over", "dialfail", True
                elif o == "ol":
                    n["st"] = "pending"
                elif o == "or":
                    n["st"], n["by"], n["cli_over"] = "over", "refused", True
                else:
                    n["dialled"] = True
                self.conns.append(n)
                self.expect.append(("up", 1 if o in ("oi", "od") else 0))
            elif o in ("dk", "df"):
                if c is not None and c["st"] == "pending":
                    if o == "dk":
                        c["dialled"] = True
                        if not c["cli_over"]:
                            c["st"] = "piping"
                        else:
                            c["st"] = "over"
                    else:
                        c["st"], c["by"], c["cli_over"] = "over", c["by"] or "dialfail", True
            elif o == "ac":
                if c is not None and not c["app_closed"]:
                    c["app_closed"] = True
                    c["cli_over"] = True
                    if c["st"] == "piping":
                        c["st"], c["by"] = "over", c["by"] or "app"
                    elif c["st"] == "pending":
                        c["by"] = "app"
            elif o in ("te", "tr"):
                if c is not None and c["dialled"] and not c["hung"] and (o == "te" or c["tunnel"]):
                    c["hung"] = True
                    if c["st"] == "piping":
                        c["st"], c["by"], c["cli_over"] = "over", ("target-eof" if o == "te" else "target-err"), True
            elif o == "pr":
                self.expect.append(("pr", [k for k, x in enumerate(self.conns) if x["st"] == "piping" and not x["app_closed"] and not x["hung"]]))
            elif o == "gq":
                self.expect.append(("g",) + self.gor())
            elif o == "cut":
                if self.alive:
                    self.alive = False
                    for x in self.conns:
                        if x["tunnel"]:
                            x["cli_over"] = True
                            if x["st"] == "piping":
                                x["st"], x["by"] = "over", x["by"] or "death"
        return self


def parse_obs_cli(words):
    items = []
    i = 0
    try:
        while i < len(words) and words[i] != "end":
            w = words[i]
            if w == "up":
                items.append(("up", int(words[i + 1])))
                i += 2
            elif w == "pr":
                n = int(words[i + 1])
                items.append(("pr", [int(x) for x in words[i + 2:i + 2 + n]]))
                i += 2 + n
            elif w == "g":
                items.append(("g", int(words[i + 1]), int(words[i + 2]), int(words[i + 3]), int(words[i + 4])))
                i += 5
            else:
                return None
        if i >= len(words):
            return None
        i += 1
        conns = []
        while i < len(words) and words[i] == "c":
            conns.append((words[i + 1], words[i + 2]))
            i += 3
        if i + 4 >= len(words) or words[i] != "g":
            return None
        return items, conns, tuple(int(x) for x in words[i + 1:i + 5])
    except (ValueError, IndexError):
        return None


def oracle_cli(case, impl, want):
    words = impl.split()
    if not words or words[0] in ("panic", "died", "timeout", "harness-error", "handler-error", "client-error"):
        return [("crash;via=c02h", "the scripted session failed to run: " + impl[:150] + " (" + case["line"] + ")")]
    obs = parse_obs_cli(words)
    if obs is None:
        return [("crash;via=c02h", "unreadable observation: " + impl[:150])]
    items, conns, gfinal = obs
    ref = RefCli().apply(script_of(case["line"]))
    out = []
    exp = ref.expect + [("g",) + ref.gor()]
    got = items + [("g",) + gfinal]
    if len(exp) != len(got) or len(conns) != len(ref.conns) or any(e[0] != g[0] for e, g in zip(exp, got)):
        return [("crash;via=c02h", "observation does not follow the script: " + impl[:150])]
    for e, g in zip(exp, got):
        if e[0] == "up" and e[1] == 1 and g[1] != 1 and want == "isolation":
            out.append(("blocked-by-other;via=c02h", "a new local connection did not reach its target, with the other connections of the session as the script "
                        "left them (%s)" % case["line"]))
        elif e[0] == "pr" and want == "isolation":
            missing = [k for k in e[1] if k not in g[1]]
            if missing:
                out.append(("disturbed-by-other-connection;via=c02h", "local connection(s) %s, which nobody ended, no longer carry data after what happened to the "
                            "OTHER connections (%s)" % (missing, case["line"])))
        elif e[0] == "g":
            if want == "reclamation":
                if g[1] == 1 and e[1] == 0:
                    out.append(("accept-loop-outlives-session;via=c02h", "the session is over and its accept loop is still there (%s)" % case["line"]))
                if g[2] > e[2] or g[3] > e[3] or g[4] > e[4]:
                    out.append(("goroutines-left-behind;via=c02h", "%d server handler goroutine(s), %d copy loop(s) and %d client handler goroutine(s) where the connections "
                                "still open account for %d, %d and %d (%s)" % (g[2], g[3], g[4], e[2], e[3], e[4], case["line"])))
            elif g[2] < e[2] or g[3] < e[3] or g[4] < e[4] or (g[1] == 0 and e[1] == 1):
                out.append(("disturbed-by-other-connection;via=c02h", "%d / %d / %d goroutines (server handlers, copy loops, client handlers) where the connections nobody "
                            "ended account for %d / %d / %d (%s)" % (g[2], g[3], g[4], e[2], e[3], e[4], case["line"])))
    for k, (c, (loc, tg)) in enumerate(zip(ref.conns, conns)):
        over = c["st"] == "over" or (c["tunnel"] and not ref.alive and c["st"] != "pending")
        if over and want == "reclamation":
            # through the tunnel and piped directly to a forward address alike: both ends are closed, whichever peer hung up first
            if loc == "0":
                out.append(("local-connection-left-open;via=c02h", "local connection %d is over (%s) and was never closed towards the application (%s)" % (k, c["by"], case["line"])))
            if tg == "o":
                out.append(("target-left-open;via=c02h", "connection %d is over (%s) and the connection to its target%s was never closed (%s)" % (k, c["by"], "" if c["tunnel"] else " (the forward address)", case["line"])))
        elif c["st"] == "piping" and want == "isolation" and (loc == "1" or tg == "c"):
            out.append(("disturbed-by-other-connection;via=c02h", "connection %d, which nobody ended, lost its %s (%s)" % (k, "local connection" if loc == "1" else "target connection", case["line"])))
    seen = set()
    return [(s_, m) for s_, m in out if not (s_ in seen or seen.add(s_))]


def parse_obs(words):
    """observation -> (items before `end`, per-connection (ended, target), final goroutine triple) or None"""
    items = []
    i = 0
    try:
        while i < len(words) and words[i] != "end":
            w = words[i]
            if w == "sel":
                items.append(("sel", words[i + 1]))
                i += 2
            elif w == "opened":
                items.append(("opened",))
                i += 1
            elif w == "pr":
                n = int(words[i + 1])
                items.append(("pr", [int(x) for x in words[i + 2:i + 2 + n]]))
                i += 2 + n
            elif w == "g":
                items.append(("g", int(words[i + 1]), int(words[i + 2]), int(words[i + 3])))
                i += 4
            else:
                return None
        if i >= len(words):
            return None
        i += 1
        conns = []
        while i < len(words) and words[i] == "c":
            conns.append((words[i + 1], words[i + 2]))
            i += 3
        if i + 3 >= len(words) or words[i] != "g":
            return None
        return items, conns, (int(words[i + 1]), int(words[i + 2]), int(words[i + 3]))
    except (ValueError, IndexError):
        return None


def script_of(line):
    return line.split()[2:]


def oracle(case, impl, want):
    """want: "isolation" (C02) or "reclamation" (C14). Returns (signature, text) pairs."""
    if case["line"].split()[1] == "cli":
        return oracle_cli(case, impl, want)
    words = impl.split()
    if not words or words[0] in ("panic", "died", "timeout", "harness-error", "handler-error", "client-error"):
        return [("crash;via=c02h", "the scripted session failed to run: " + impl[:150] + " (" + case["line"] + ")")]
    obs = parse_obs(words)
    if obs is None:
        return [("crash;via=c02h", "unreadable observation: " + impl[:150])]
    items, conns, gfinal = obs
    ref = Ref().apply(script_of(case["line"]))
    out = []
    exp = ref.expect + [("g",) + ref.gor()]
    got = items + [("g",) + gfinal]
    if len(exp) != len(got):
        return [("crash;via=c02h", "observation does not follow the script: " + impl[:150])]
    for e, g in zip(exp, got):
        if e[0] != g[0]:
            return [("crash;via=c02h", "observation does not follow the script: " + impl[:150])]
        if e[0] == "sel" and e[1] != g[1]:
            if want == "isolation":
                out.append(("blocked-by-other;via=c02h", "channel selection of a new logical connection gave '%s' where '%s' is due, with the other connections of "
                            "the session as the script left them (%s)" % (g[1], e[1], case["line"])))
        elif e[0] == "pr":
            missing = [k for k in e[1] if k not in g[1]]
            if missing and want == "isolation":
                out.append(("disturbed-by-other-connection;via=c02h", "logical connection(s) %s, which nobody ended, no longer carry data after what happened to the "
                            "OTHER connections of the session (%s)" % (missing, case["line"])))
        elif e[0] == "g":
            if want == "reclamation":
                if g[1] == 1 and e[1] == 0:
                    out.append(("accept-loop-outlives-session;via=c02h", "the session is over and its accept loop is still there (%s)" % case["line"]))
                if g[2] > e[2] or g[3] > e[3]:
                    out.append(("goroutines-left-behind;via=c02h", "%d handler goroutine(s) and %d copy loop(s) where the connections still open account for "
                                "%d and %d (%s)" % (g[2], g[3], e[2], e[3], case["line"])))
            else:
                if g[1] == 0 and e[1] == 1:
                    out.append(("accept-loop-gone;via=c02h", "the accept loop ended although the session is in order (%s)" % case["line"]))
                if g[2] < e[2] or g[3] < e[3]:
                    out.append(("disturbed-by-other-connection;via=c02h", "%d handler goroutine(s) and %d copy loop(s) where the connections nobody ended account for "
                                "%d and %d (%s)" % (g[2], g[3], e[2], e[3], case["line"])))
    if len(conns) != len(ref.conns):
        return out + [("crash;via=c02h", "observation does not follow the script: " + impl[:150])]
    for k, (c, (ended, tg)) in enumerate(zip(ref.conns, conns)):
        if c["st"] == "over" or not ref.alive:
            if want == "reclamation":
                if ended == "0":
                    out.append(("stream-left-open;via=c02h", "logical connection %d is over (%s) and its stream was never closed by the server (%s)" % (k, c["by"], case["line"])))
                if tg == "o":
                    out.append(("target-left-open;via=c02h", "logical connection %d is over (%s) and the connection to its target was never closed (%s)" % (k, c["by"], case["line"])))
        elif c["st"] == "piping" and want == "isolation":
            if ended == "1" or tg == "c":
                out.append(("disturbed-by-other-connection;via=c02h", "logical connection %d, which nobody ended, lost its %s (%s)" % (k, "stream" if ended == "1" else "target connection", case["line"])))
    seen = set()
    uniq = []
    for s, m in out:
        if s not in seen:
            seen.add(s)
            uniq.append((s, m))
    return uniq


def agree(case, impl, model):
    return None if impl == model else "handler-run"


# ---- generators
def raw_case(ops, kind):
    line = "c02h raw " + " ".join(str(o) for o in ops)
    return {"line": line, "key": line, "tags": {"carrier": "memory", "k": sum(1 for o in ops if str(o).startswith("o")), "sc": "handler-" + kind, "mode": "handler-" + kind, "n": 1}}


ENDINGS = ("ac", "te", "tr")


def fixed_isolation():
    """one connection ends in every way while its neighbours (older and newer) stay up"""
    cs = []
    for end in ENDINGS:
        cs.append(["oi", "oi", "oi", end, 1, "pr", "gq"])
    cs.append(["oi", "of", "oi", "pr", "gq"])                              # a dial fails at once between two healthy ones
    cs.append(["ol", "oi", "df", 0, "pr", "gq"])                           # a dial fails late while a NEWER connection is open
    cs.append(["oi", "ol", "oi", "oi", "df", 1, "pr", "gq"])
    cs.append(["ol", "oi", "pr", "dk", 0, "pr", "gq"])                     # a slow dial does not hold up a newer connection
    cs.append(["ol", "ol", "oi", "pr", "df", 1, "pr", "dk", 0, "pr", "gq"])
    cs.append(["oi", "or", "pr", "orx", "pr", "on", "pr", "gq"])           # refusals and silent streams next to a transfer
    cs.append(["on", "oi", "pr", "ac", 0, "pr", "gq"])                     # a stream dropped before selection
    cs.append(["on", "oi", "su", 0, "pr", "gq"])
    cs.append(["oi", "on", "se", 1, "pr", "tr", 0, "pr", "gq"])
    cs.append(["oi", "oi", "te", 0, "pr", "te", 1, "oi", "pr", "gq"])
    cs.append(["ol", "ac", 0, "oi", "pr", "dk", 0, "pr", "gq"])            # the application gives up while the dial is pending
    return [raw_case(c, "isolation") for c in cs]


def fixed_reclamation():
    cs = []
    for end in ENDINGS:
        cs.append(["oi", "gq", end, 0, "gq"])
        cs.append(["oi", "oi", "oi", end, 0, end, 2, "gq", end, 1, "gq"])
    cs.append(["of", "gq", "of", "of", "gq"])
    cs.append(["or", "gq", "or", "or", "gq"])
    cs.append(["orx", "orx", "gq", "ac", 0, "gq", "ac", 1, "gq"])
    cs.append(["on", "on", "gq", "ac", 1, "gq", "su", 0, "gq"])
    cs.append(["ol", "gq", "df", 0, "gq"])
    cs.append(["ol", "ac", 0, "gq", "dk", 0, "gq"])
    cs.append(["ol", "ac", 0, "gq", "df", 0, "gq"])
    # the session ends in every manner with connections in every state
    for death in ("cut", "gb", "eof"):
        cs.append(["oi", "oi", death, "gq"])
        cs.append(["oi", "on", "orx", "ol", "of", "or", "oi", "te", 0, death, "gq", "dk", 3, "gq"])
        cs.append(["ol", "ol", "oi", death, "gq", "df", 0, "gq", "dk", 1, "gq"])
        cs.append([death, "gq", "oi"])
        cs.append(["oi", "ac", 0, "oi", "tr", 1, "oi", "oi", death, "gq"])
    return [raw_case(c, "reclamation") for c in cs]


def random_script(rng, nmax, with_death):
    ops = []
    st = []          # per connection: silent | waiting | pending | piping | over
    closed = []
    n = rng.range(3, nmax)
    for _ in range(n):
        live = [k for k, s in enumerate(st) if s == "piping"]
        pend = [k for k, s in enumerate(st) if s == "pending"]
        sil = [k for k, s in enumerate(st) if s == "silent"]
        wai = [k for k, s in enumerate(st) if s == "waiting"]
        ch = rng.weighted([("open", 8), ("end", 5 if live else 0), ("dial", 4 if pend else 0), ("sel", 3 if sil else 0),
                           ("drop", 2 if (sil or wai or pend) else 0), ("pr", 3), ("gq", 2)])
        if ch == "open":
            o = rng.weighted([("oi", 8), ("ol", 3), ("of", 2), ("or", 2), ("orx", 1), ("on", 2)])
            ops.append(o)
            st.append({"oi": "piping", "ol": "pending", "of": "over", "or": "over", "orx": "waiting", "on": "silent"}[o])
            closed.append(o == "or")
        elif ch == "end":
            k = rng.choice(live)
            ops += [rng.choice(ENDINGS), k]
            st[k] = "over"
        elif ch == "dial":
            k = rng.choice(pend)
            ok = rng.chance(1, 2)
            ops += ["dk" if ok else "df", k]
            st[k] = "piping" if ok and not closed[k] else "over"
        elif ch == "sel":
            k = rng.choice(sil)
            ok = rng.chance(2, 3)
            ops += ["se" if ok else "su", k]
            st[k] = "piping" if ok else "over"
        elif ch == "drop":
            k = rng.choice(sil + wai + pend)
            if not closed[k]:
                ops += ["ac", k]
                closed[k] = True
                if st[k] != "pending":
                    st[k] = "over"
        else:
            ops.append(ch)
    if with_death:
        ops += [rng.choice(["cut", "gb", "eof"]), "gq"]
        for k, s in enumerate(st):
            if s == "pending" and rng.chance(2, 3):
                ops += [rng.choice(["dk", "df"]), k]
        ops.append("gq")
    else:
        ops += ["pr", "gq"]
    return ops


def cli_case(ops, kind):
    line = "c02h cli " + " ".join(str(o) for o in ops)
    return {"line": line, "key": line, "tags": {"carrier": "memory-client", "k": sum(1 for o in ops if str(o).startswith("o")), "sc": "handler-cli-" + kind, "mode": "handler-cli-" + kind, "n": 1}}


def fixed_cli_isolation():
    cs = [["oi", "oi", "oi", "ac", 1, "pr", "gq"], ["oi", "oi", "te", 0, "pr", "gq"], ["oi", "oi", "tr", 1, "pr", "gq"],
          ["ol", "oi", "df", 0, "pr", "gq"], ["oi", "ol", "oi", "pr", "dk", 1, "pr", "gq"], ["oi", "or", "pr", "of", "pr", "gq"],
          ["od", "oi", "pr", "te", 0, "pr", "gq"], ["oi", "od", "ac", 0, "pr", "cut", "pr", "gq"]]
    return [cli_case(c, "isolation") for c in cs]


def fixed_cli_reclamation():
    cs = [["oi", "gq", "ac", 0, "gq"], ["oi", "gq", "te", 0, "gq"], ["oi", "tr", 0, "gq"], ["of", "of", "gq"], ["or", "gq", "or", "or", "gq"],
          ["ol", "gq", "df", 0, "gq"], ["ol", "ac", 0, "gq", "dk", 0, "gq"], ["od", "gq", "te", 0, "gq"], ["od", "ac", 0, "gq"],
          ["od", "od", "te", 1, "ac", 0, "gq"], ["oi", "oi", "ol", "or", "of", "od", "te", 0, "cut", "gq", "dk", 2, "gq"],
          ["oi", "oi", "oi", "cut", "gq"], ["ol", "oi", "cut", "gq", "df", 0, "gq"]]
    return [cli_case(c, "reclamation") for c in cs]


def random_cli_script(rng, nmax, with_cut):
    ops = []
    st = []
    tun = []
    closed = []
    n = rng.range(3, nmax)
    for _ in range(n):
        live = [k for k, x in enumerate(st) if x == "piping"]
        pend = [k for k, x in enumerate(st) if x == "pending"]
        ch = rng.weighted([("open", 8), ("end", 5 if live else 0), ("dial", 4 if pend else 0), ("drop", 1 if pend else 0), ("pr", 3), ("gq", 2)])
        if ch == "open":
            o = rng.weighted([("oi", 8), ("ol", 3), ("of", 2), ("or", 2), ("od", 3)])
            ops.append(o)
            st.append({"oi": "piping", "ol": "pending", "of": "over", "or": "over", "od": "piping"}[o])
            tun.append(o != "od")
            closed.append(False)
        elif ch == "end":
            k = rng.choice(live)
            e = rng.choice(ENDINGS if tun[k] else ("ac", "te"))
            ops += [e, k]
            st[k] = "over"
        elif ch == "dial":
            k = rng.choice(pend)
            ok = rng.chance(1, 2)
            ops += ["dk" if ok else "df", k]
            st[k] = "piping" if ok and not closed[k] else "over"
        elif ch == "drop":
            k = rng.choice(pend)
            if not closed[k]:
                ops += ["ac", k]
                closed[k] = True
        else:
            ops.append(ch)
    if with_cut:
        ops += ["cut", "gq"]
        for k, x in enumerate(st):
            if x == "pending" and rng.chance(2, 3):
                ops += [rng.choice(["dk", "df"]), k]
        ops += ["pr", "gq"]
    else:
        ops += ["pr", "gq"]
    return ops


def shrink(case):
    """one operation less (never an opening one: the indices of the others would shift), or a shorter tail"""
    w = case["line"].split()
    mode, ops = w[1], w[2:]
    items = []
    i = 0
    while i < len(ops):
        if ops[i] in ("se", "su", "dk", "df", "ac", "te", "tr", "mr") and i + 1 < len(ops):
            items.append(ops[i:i + 2])
            i += 2
        else:
            items.append(ops[i:i + 1])
            i += 1
    mk = raw_case if mode == "raw" else cli_case
    for k in range(len(items) - 1, -1, -1):
        if items[k][0].startswith("o") and any(len(x) == 2 and x[0] != "mr" for x in items[k + 1:]):
            continue
        rest = items[:k] + items[k + 1:]
        if rest:
            c = mk([t for it in rest for t in it], "shrunk")
            c["tags"].update(case.get("tags", {}))
            yield c
