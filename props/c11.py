"""C11 - DNS auto-negotiation only settles on parameters that work."""
PID = "C11"
TYPES = ["NULL", "PRIVATE", "TXT", "SRV", "MX", "CNAME", "AAAA", "A"]
RULE = ("a family of path behaviours: letter case of query names {kept, lower-cased, upper-cased, alternating} x 8-bit octets {kept, high bit "
        "stripped, query dropped} x answered record types {all, each single type, random subsets} x answer size limit {none, 512..8192}; the "
        "real client Handshake against the real server through a communicator implementing the path on packed bytes (a dropped message is a "
        "time-out; at most 1500 exchanges); after a successful negotiation ten transfers per direction (1 byte .. several fragments, "
        "escape-heavy and 8-bit content) through the same path; distinct_nontrivial = distinct non-transparent paths")
EXPLANATION = ("Props/C11.v: the fragment-size search ends for every probe oracle and reports only sizes that were probed successfully "
               "(the shape before the repair is proved non-terminating); the codec ladder only commits to a codec whose whole alphabet the path "
               "leaves alone. The handshake as a whole is exercised, not modelled end to end: success must be followed by correct transfers, "
               "anything else must be a reported failure within the exchange budget.")
TRUSTED = ["the handshake's other stages (query-type detection, EDNS0, lazy mode, option switching) are exercised through the real code only",
           "real resolvers and timing are not modelled; a dropped message is an immediate time-out in the run"]
SHARDS = 4      # harness processes side by side (cases are independent, all in memory)
RUN_TIMEOUT = 3000


def mk(cp, bp, types, limit, seed, src):
    line = "c11 %s %s %s %d %d" % (cp, bp, types, limit, seed)
    transparent = cp == "keep" and bp == "keep" and types == "all" and limit == 0
    return {"line": line, "key": None if transparent else line, "tags": {"case": cp, "bits": bp, "types": types, "limit": limit, "src": src}}


def cases(tier, rng):
    thorough = tier == "thorough"
    cs = [mk("keep", "keep", "all", 0, 1, "transparent")]
    # transfers of every length up to one upstream fragment after the handshake (seed >= 1000 asks the harness for the sweep):
    # a transparent path, one that lower-cases names (Base32 upstream), one that strips the 8th bit, a CNAME-only and an MX-only path
    for cp, bp, ty in ([("keep", "keep", "all"), ("lower", "keep", "all"), ("keep", "strip", "all"), ("keep", "keep", "CNAME"), ("keep", "keep", "MX")]
                       if thorough else [("keep", "keep", "all"), ("lower", "keep", "all"), ("keep", "keep", "CNAME")]):
        cs.append(mk(cp, bp, ty, 0, 1000 + rng.below(100), "length-sweep"))
    for cp in ("keep", "lower", "upper", "alt"):
        for bp in ("keep", "strip", "drop"):
            cs.append(mk(cp, bp, "all", 0, rng.below(100), "name-policy"))
    for t in TYPES:
        cs.append(mk("keep", "keep", t, 0, rng.below(100), "single-type"))
    for lim in ([512, 768, 1024, 1500, 2048, 4096, 8192] if thorough else [512, 1500, 4096]):
        cs.append(mk("keep", "keep", "all", lim, rng.below(100), "size-limit"))
    for _ in range(60 if thorough else 8):
        k = rng.range(1, 4)
        ts = ",".join(sorted(set(rng.choice(TYPES) for _ in range(k))))
        cs.append(mk(rng.choice(["keep", "lower", "upper", "alt"]), rng.choice(["keep", "strip", "drop"]), ts,
                     rng.choice([0, 0, 600, 1200, 1500, 3000, 8192]), rng.below(100), "combination"))
    return cs


def oracle(case, impl):
    t = case["tags"]
    p = impl.split()
    if not p or p[0] in ("panic", "died", "timeout", "harness-error"):
        return [("crash", "negotiation scenario crashed: %s -> %s" % (case["line"], impl[:150]))]
    out = []
    if p[:2] == ["hs", "nonterm"]:
        out.append(("handshake-does-not-terminate;limit=%s" % (t["limit"] or "none"), "the handshake was still probing after %s exchanges on path %s" % (p[3], case["line"])))
        return out
    if p[:2] == ["hs", "ok"]:
        f = dict(zip(p[2::2], p[3::2]))
        if "xfer" in p and p[p.index("xfer") + 1] != "ok":
            what = p[p.index("xfer") + 2]
            out.append(("negotiated-parameters-do-not-work;qt=%s;down=%s" % (f.get("qt"), f.get("down")),
                        "handshake reported success (%s) but a %s transfer over the same path was wrong" % (" ".join(p[2:16]), what)))
        if t["limit"] and int(f.get("frag", 0)) + 2 > t["limit"]:
            out.append(("fragment-above-limit", "negotiated fragment size %s exceeds what the path carries (%d)" % (f.get("frag"), t["limit"])))
        if t["case"] == "keep" and t["bits"] == "keep" and t["types"] == "all" and t["limit"] == 0 and f.get("qt") != "10":
            out.append(("transparent-path-suboptimal", "transparent path but record type %s was chosen" % f.get("qt")))
    elif p[:2] == ["hs", "fail"] and t["case"] == "keep" and t["bits"] == "keep" and t["types"] == "all" and t["limit"] == 0:
        out.append(("transparent-path-fails", "the handshake fails over a transparent path"))
    if "srvpanics" in p and p[p.index("srvpanics") + 1] != "0":
        out.append(("server-panic-during-negotiation", "the server's handler panicked %s times during this negotiation" % p[p.index("srvpanics") + 1]))
    return out


def agree(case, impl, model):
    p, m = impl.split(), model.split()
    if len(m) < 4:
        return "negotiation"
    if p[:2] == ["hs", "nonterm"] and m[1] == "1":
        return "termination"
    if p[:2] == ["hs", "ok"] and m[3] != "0" and case["tags"]["types"] == "all" and case["tags"]["limit"] == 0:
        f = dict(zip(p[2::2], p[3::2]))
        if f.get("up") != m[3]:
            return "upstream-codec"
    return None


def distribution(cs):
    d = {}
    for c in cs:
        d[c["tags"]["src"]] = d.get(c["tags"]["src"], 0) + 1
    return d


META = {
    "level_text": "Partial: Coq theorems for the two algorithms of the negotiation that are socketace's own decision logic - the fragment-size "
                  "search (terminates for every probe behaviour, reports only sizes probed successfully, respects a size limit; the shape before "
                  "the repair is proved non-terminating) and the upstream codec ladder (commits only to a codec whose alphabet the path leaves "
                  "alone) - and the whole real handshake run over a family of path behaviours followed by transfers through the same path.",
    "level_note": "The remaining stages of the handshake are exercised through the real code, not modelled. A dropped message is an immediate "
                  "time-out in the run; real resolvers are out of scope.",
    "technique": "Coq proofs over the search and ladder models + path-family scenarios through the real handshake",
}
