"""C11 - DNS auto-negotiation only settles on parameters that work."""
PID = "C11"
TYPES = ["NULL", "PRIVATE", "TXT", "SRV", "MX", "CNAME", "AAAA", "A"]
RULE = ("a family of path behaviours: letter case of query names {kept, lower-cased, upper-cased, alternating} x 8-bit octets {kept, high bit "
        "stripped, query dropped} x answered record types {all, each single type, random subsets} x answer size limit {none, 300..8192} "
        "enforced either by dropping a larger answer or by cutting trailing answer records until it fits (negative limit: a truncating "
        "forwarder); the real client Handshake against the real server through a communicator implementing the path on packed messages (a "
        "dropped message is a time-out; at most 1500 exchanges); the model (Nego/Handshake.v, the same negotiation over the server model of "
        "C12) predicts the whole outcome for every path but the alternating-case one: success or the stage that fails, record type, both "
        "codecs, EDNS0, lazy mode, both fragment sizes, what the server holds for the session, and the exact number of exchanges; after a "
        "successful negotiation transfers in each direction (1 byte .. several fragments, lengths around the limit, escape-heavy and 8-bit "
        "content) through the same path, and for some cases data both ways in the same exchanges; distinct_nontrivial = distinct "
        "non-transparent paths")
EXPLANATION = ("Props/C11.v: the negotiation as a whole is a Coq function of the path (record type detection with its three rounds, version "
               "exchange, EDNS0 probe, upstream ladder over the real test patterns, both codec switches with their fall-backs, downstream ladder "
               "with the DownloadCodecCheck round trip, lazy mode, the fragment-size search and the switch), every probe pushed through the "
               "request, name, server, wrap and response models of C09/C10/C12 and through the path. Proved for EVERY path of the family (every "
               "size limit, dropping or cutting): it ends, within 141 exchanges; the outcome is success or a named failing stage; when no record "
               "type is answered, no probe passes or the version exchange fails it reports failure; on success the settled record type is "
               "answered, its probe passed and no type before it in the priority order has a passing probe; the path leaves alone the whole "
               "alphabet of the settled upstream codec and every other character of a query name; the settled downstream codec passed the check "
               "pattern round trip through the settled record type on this path; the server holds the same codecs and lazy mode as the client "
               "when the fragment-size search starts; the probe for the settled downstream size passed on this path (never below 768 octets; on "
               "a dropping path its whole packed answer was within the limit); every data packet up to the upstream fragment size is decoded by "
               "the server to the same packet; every packet response whose packed answer the path lets through is decoded by the client to the "
               "same response. The stages before the search are explored over all limits at once by a reflective procedure whose soundness is "
               "proved (the path compares its limit with finitely many answer sizes). Refuted with a computed witness and reproduced on the real "
               "code (known finding): the size condition does not follow from the negotiated fragment sizes when a query that carries a full "
               "upstream fragment is answered with a full downstream fragment (the probe is sent with a short query name, an answer repeats the "
               "query name twice): over a dropping path that exchange fails on all five tries, over a cutting path the client accepts the cut "
               "packet as a shorter one.")
TRUSTED = ["the path acts on query-name octets and on the list of answer records exactly as harness/cmd/verifharness/c11.go does on packed messages; "
           "a dropped message is an immediate time-out; the alternating-case policy is run but not predicted (it depends on the random cache characters)",
           "the model has no clock: validateAndGetUser's refresh of lastConnection is the identity, so the fragment-size search runs over one server state",
           "real resolvers and timing are not modelled"]
SHARDS = 4      # harness processes side by side (cases are independent, all in memory)
RUN_TIMEOUT = 3000


def mk(cp, bp, types, limit, seed, src):
    line = "c11 %s %s %s %d %d" % (cp, bp, types, limit, seed)
    transparent = cp == "keep" and bp == "keep" and types == "all" and limit == 0
    return {"line": line, "key": None if transparent else "c11 %s %s %s %d" % (cp, bp, types, limit),
            "tags": {"case": cp, "bits": bp, "types": types, "limit": limit, "seed": seed, "src": src}}


def cases(tier, rng):
    thorough = tier == "thorough"
    cs = [mk("keep", "keep", "all", 0, 1, "transparent")]
    # transfers of every length up to one upstream fragment after the handshake (seed 1000..1999 asks the harness for the sweep):
    # a transparent path, one that lower-cases names (Base32 upstream), one that strips the 8th bit, a CNAME-only and an MX-only path
    for cp, bp, ty in ([("keep", "keep", "all"), ("lower", "keep", "all"), ("keep", "strip", "all"), ("keep", "keep", "CNAME"), ("keep", "keep", "MX")]
                       if thorough else [("keep", "keep", "all"), ("lower", "keep", "all"), ("keep", "keep", "CNAME")]):
        cs.append(mk(cp, bp, ty, 0, 1000 + rng.below(100), "length-sweep"))
    for cp in ("keep", "lower", "upper", "alt"):
        for bp in ("keep", "strip", "drop"):
            cs.append(mk(cp, bp, "all", 0, rng.below(100), "name-policy"))
    for t in TYPES:
        cs.append(mk("keep", "keep", t, 0, rng.below(100), "single-type"))
    for lim in ([300, 512, 768, 800, 1024, 1500, 2048, 4096, 8192, 9000] if thorough else [512, 800, 1500, 4096]):
        cs.append(mk("keep", "keep", "all", lim, rng.below(100), "size-limit"))
    # a truncating forwarder: answers of several records lose their tail
    trunc = [("CNAME", 1500), ("SRV", 1024), ("MX", 4096), ("A", 512), ("all", 1500), ("TXT", 2048), ("CNAME", 512), ("SRV,MX,CNAME", 700)]
    if thorough:
        trunc += [(t, l) for t in ("CNAME", "SRV", "MX", "A", "TXT", "all") for l in (512, 1024, 1232, 2048, 4096)]
    for ty, lim in trunc:
        cs.append(mk(rng.choice(["keep", "lower"]) if thorough else "keep", "keep", ty, -lim, rng.below(100), "truncating-limit"))
    # the same limits by dropping, for the types whose answers have several records
    for ty, lim in ([("CNAME", 1500), ("TXT", 1200), ("MX", 900)] + ([("SRV", 2048), ("CNAME", 600), ("PRIVATE", 1000)] if thorough else [])):
        cs.append(mk("keep", "keep", ty, lim, rng.below(100), "size-limit-type"))
    # data both ways in the same exchanges after the handshake (seed >= 2000)
    for cp, bp, ty, lim in ([("keep", "keep", "all", 0), ("lower", "keep", "CNAME", 0), ("keep", "keep", "all", 1500), ("keep", "keep", "CNAME", -1500)]
                            + ([("keep", "strip", "TXT", 0), ("keep", "keep", "MX", 4096), ("keep", "keep", "all", -4096)] if thorough else [])):
        cs.append(mk(cp, bp, ty, lim, 2000 + rng.below(100), "both-ways"))
    # tunnel domains so long that the longer test patterns of the negotiation no longer fit into a name (the request cannot be encoded: the
    # codec is not usable and the negotiation goes on); implementation only - the model's domain is the harness's fixed one
    for cp, bp, lim, dl in ([("keep", "strip", 0, 150), ("keep", "drop", 0, 190), ("keep", "strip", 1500, 160)]
                            + ([("lower", "strip", 0, 175), ("keep", "strip", -2048, 150), ("keep", "keep", 0, 230), ("alt", "drop", 900, 205)] if thorough else [])):
        c = mk(cp, bp, "all", lim, rng.below(100), "long-domain")
        c["line"] += " %d" % dl
        c["key"] = c["line"]
        c["model"] = False
        cs.append(c)
    # the switch to the upstream codec that was tested and chosen never gets an answer (five option requests lost in a row): the client
    # falls back to the default codec - with a fragment size that fits the codec it is left with; 5000+: every transfer length up to a fragment
    for cp, bp, lim, k in ([("keep", "keep", 0, 5), ("keep", "strip", 0, 5), ("keep", "keep", 1500, 5)] + ([("keep", "keep", 0, 3), ("lower", "keep", 0, 5), ("keep", "keep", -2048, 5), ("keep", "keep", 0, 10)] if thorough else [])):
        c = mk(cp, bp, "all", lim, (1000 if thorough else 0) + rng.below(100), "option-requests-lost")
        c["line"] += " 0 %d" % k
        c["key"] = c["line"]
        c["model"] = False
        cs.append(c)
    for _ in range(60 if thorough else 8):
        k = rng.range(1, 4)
        ts = ",".join(sorted(set(rng.choice(TYPES) for _ in range(k))))
        lim = rng.choice([0, 0, 600, 1200, 1500, 3000, 8192])
        if rng.below(3) == 0:
            lim = -lim
        cs.append(mk(rng.choice(["keep", "lower", "upper", "alt"]), rng.choice(["keep", "strip", "drop"]), ts, lim, rng.below(100), "combination"))
    return cs


def fields(p):
    """key/value pairs of an observation line (after `hs <status>`, up to the transfer verdict)."""
    if "xfer" in p:
        p = p[:p.index("xfer")]
    return dict(zip(p[2::2], p[3::2]))


def oracle(case, impl):
    t = case["tags"]
    if "limit" not in t:      # a corpus line, or the replay of a stored case line
        w = case["line"].split()
        t = {"case": w[1], "bits": w[2], "types": w[3], "limit": int(w[4]), "seed": int(w[5])}
    lim = abs(t["limit"])
    p = impl.split()
    if not p or p[0] in ("panic", "died", "timeout", "harness-error"):
        return [("crash", "negotiation scenario crashed: %s -> %s" % (case["line"], impl[:150]))]
    out = []
    transparent = t["case"] == "keep" and t["bits"] == "keep" and t["types"] == "all" and t["limit"] == 0
    w = case["line"].split()
    if len(w) > 6 and (int(w[6]) > 0 or (len(w) > 7 and int(w[7]) > 0)):
        # a tunnel domain of a chosen length (one so long that little or nothing fits before it makes the negotiation fail - and say so) or a
        # path that loses option requests: not the transparent path, whatever the other settings
        transparent = False
    if p[:2] == ["hs", "nonterm"]:
        out.append(("handshake-does-not-terminate;limit=%s" % (t["limit"] or "none"), "the handshake was still probing after %s exchanges on path %s" % (p[3], case["line"])))
        return out
    if p[:2] == ["hs", "ok"]:
        f = fields(p)
        if "xfer" in p and p[p.index("xfer") + 1] != "ok":
            what = p[p.index("xfer") + 2]
            if lim and (what.startswith("both") or int(f.get("oversized", 0)) > 0):
                out.append(("full-fragments-both-ways-exceed-the-limit",
                            "handshake reported success (%s) on a path with answer size limit %d, but when a query carrying a full upstream fragment "
                            "is answered with a full downstream fragment the transfer fails (%s; %s such answers exceeded the limit)" %
                            (" ".join(p[2:16]), lim, what, f.get("oversized", "?"))))
            else:
                out.append(("negotiated-parameters-do-not-work;qt=%s;down=%s" % (f.get("qt"), f.get("down")),
                            "handshake reported success (%s) but a %s transfer over the same path was wrong" % (" ".join(p[2:16]), what)))
        if lim and int(f.get("frag", 0)) + 2 > lim:
            out.append(("fragment-above-limit", "negotiated fragment size %s exceeds what the path carries (%d)" % (f.get("frag"), lim)))
        if lim and "srvfrag" in f and int(f["srvfrag"]) + 2 > lim:
            out.append(("server-fragment-above-limit", "the server cuts downstream data into fragments of %s octets, more than the path carries (%d)" % (f["srvfrag"], lim)))
        if "srvup" in f and (f["srvup"] != f.get("up") or f["srvdown"] != f.get("down")):
            out.append(("client-and-server-disagree", "after a successful handshake the client uses codecs up=%s down=%s, the server up=%s down=%s" %
                        (f.get("up"), f.get("down"), f["srvup"], f["srvdown"])))
        if transparent and f.get("qt") != "10":
            out.append(("transparent-path-suboptimal", "transparent path but record type %s was chosen" % f.get("qt")))
    elif p[:2] == ["hs", "fail"] and transparent:
        out.append(("transparent-path-fails", "the handshake fails over a transparent path"))
    if "srvpanics" in p and p[p.index("srvpanics") + 1] != "0":
        out.append(("server-panic-during-negotiation", "the server's handler panicked %s times during this negotiation" % p[p.index("srvpanics") + 1]))
    return out


# what the model predicts of a successful negotiation, in the order compared
SETTLED = ["qt", "up", "down", "edns", "lazy", "upmtu", "frag", "srvup", "srvdown", "srvfrag", "srvlazy", "hsex"]
PROJECTION = {"qt": "record-type", "up": "upstream-codec", "down": "downstream-codec", "edns": "edns0", "lazy": "lazy-mode",
              "upmtu": "upstream-fragment", "frag": "downstream-fragment", "srvup": "server-upstream-codec", "srvdown": "server-downstream-codec",
              "srvfrag": "server-fragment", "srvlazy": "server-lazy-mode", "hsex": "exchanges"}


def agree(case, impl, model):
    p, m = impl.split(), model.split()
    if m[:1] == ["notpredicted"]:
        return None
    if len(m) < 2 or m[0] != "hs":
        return "negotiation"
    if len(p) < 2 or p[0] != "hs":
        return "negotiation"
    if p[1] == "nonterm" or m[1] == "nonterm":
        return None if p[1] == m[1] else "termination"
    if p[1] != m[1]:
        return "outcome"
    fi, fm = fields(p), fields(m)
    if p[1] == "ok":
        for k in SETTLED:
            if fi.get(k) != fm.get(k):
                return PROJECTION[k]
        return None
    if p[1] == "fail":
        why = {"switch": "other"}.get(fm.get("why"), fm.get("why"))
        if fi.get("why") != why:
            return "failing-stage"
        if fi.get("hsex") != fm.get("hsex"):
            return "exchanges"
        return None
    return "outcome"


def distribution(cs):
    d = {}
    for c in cs:
        d[c["tags"]["src"]] = d.get(c["tags"]["src"], 0) + 1
    return d


META = {
    "level_text": "Full for the modelled path family: the whole client-side negotiation is a Coq function of the path (query-name case and 8-bit "
                  "policies, answered record types, answer size limit by dropping or by cutting records), composed of the request, name, server, "
                  "wrap and response models of C09/C10/C12; termination (at most 141 exchanges), reported failure, and for every success that the "
                  "settled record type, codecs and fragment sizes passed their probes on that very path, that client and server agree on the codecs, "
                  "and that data packets within the upstream fragment size and packet responses the path lets through are decoded to the same "
                  "packet are theorems over every path of the family (every limit); the model's prediction of the whole outcome (every settled "
                  "parameter, what the server holds, the failing stage, the exact number of exchanges) is compared with the real handshake against "
                  "the real server on every case, followed by real transfers over the same path.",
    "level_note": "Relative to the path family of the harness (a dropped message is an immediate time-out; answers are dropped or cut record-wise, "
                  "their octets are not altered; the alternating-case policy is exercised but not predicted; one tunnel domain). That the packed "
                  "answer of a downstream fragment stays within the limit is a stated side condition of the downstream theorem: it holds for "
                  "polls by the probe that passed (exercised by the transfers), and is refuted for answers to queries that carry a full upstream "
                  "fragment (known finding, reproduced on the real code).",
    "technique": "Coq proofs over the negotiation model (reflective exploration of the size-limit classes) + path-family scenarios through the real handshake",
}
