"""C05 - peer authentication is enforced as configured."""
PID = "C05"
CARRIERS = ["tls-socket", "starttls-socket", "wss", "starttls-ws", "starttls-kcp", "plain-socket", "plain-ws", "plain-kcp"]
SCERTS = ["good", "dnsonly", "wronghost", "untrusted", "expired", "none"]
CCERTS = ["none", "client-good", "client-foreign", "client-lookalike"]    # lookalike: foreign CA carrying the configured CA's subject name
RULE = ("the full matrix server certificate {trusted+matching (with and without an IP SAN), wrong host, untrusted, expired, none} x client "
        "insecure flag x client certificate {none, CA-signed, foreign CA} x require-client-certificate x must-secure x carrier {TLS socket, "
        "wss, StartTLS over socket / websocket / KCP, plain}: every cell is run end to end against real servers on loopback with "
        "certificates generated in memory; exhaustive")
EXPLANATION = ("Props/C05.v is the decision table over the derived tls.Config (verification stays on unless insecure; client certificates "
               "required as configured); x509/TLS are represented by their acceptance conditions. Every cell of the finite matrix is "
               "run against the real code and must have the outcome the model predicts and the property demands.")
TRUSTED = ["the harness process's system trust store (SSL_CERT_FILE) holds exactly the foreign CA: 'untrusted' means trusted by the host but not configured",
           "crypto/tls and crypto/x509 (hypotheses: a peer is accepted iff the documented conditions on the two tls.Configs hold)",
           "kcp-go's AES block cipher with its checksum: packets under a different key are dropped (hypothesis behind secret_admits)",
           "StartTLS over the DNS carrier is not in the matrix of this check (the DNS carrier is exercised in C07/C11)"]
EXHAUSTIVE = True
RUN_TIMEOUT = 1800


def cases(tier, rng):
    cs = []
    for k in CARRIERS:
        for sc in SCERTS:
            if k.startswith("plain") and sc != "none":
                continue
            if k == "wss" and sc == "none":
                continue      # an https endpoint without a certificate is a configuration error; how the attempt ends (refused at once, or
                              # the dialer's own time-out) depends on timing inside net/http and is not part of the property
            for ins in (0, 1):
                for cc in CCERTS:
                    for req in (0, 1):
                        for must in (0, 1):
                            if tier != "thorough" and must == 1 and not (k.startswith("plain") or sc == "none"):
                                continue
                            line = "c05 %s %s %d %s %d %d" % (k, sc, ins, cc, req, must)
                            cs.append({"line": line, "key": line, "tags": {"carrier": k, "scert": sc, "ins": ins, "ccert": cc, "req": req, "must": must}})
    # one configuration object serving two upstreams in a row (fall-back list, reconnect): each is verified against its own host name
    for order in (0, 1):
        line = "c05two %d" % order
        cs.append({"line": line, "key": line, "model": False, "tags": {"carrier": "two-upstreams", "order": order}})
    # the same decisions with certificate, key and CA given to both configurations as FILE NAMES
    for k in ("tls-socket", "starttls-socket", "starttls-kcp"):
        for sc in ("good", "untrusted"):
            for cc in ("none", "client-good", "client-foreign"):
                for req in (0, 1):
                    if tier != "thorough" and k == "starttls-kcp" and not (sc == "good" and req == 1):
                        continue
                    line = "c05 %s %s 0 %s %d 0 files" % (k, sc, cc, req)
                    cs.append({"line": line, "key": line, "tags": {"carrier": k, "scert": sc, "ins": 0, "ccert": cc, "req": req, "must": 0}})
    # a peer of the harness's own making that completes the session handshake without asking for StartTLS (it presents no certificate)
    # against each kind of real server that has a certificate: let in only when client certificates are not required
    for k in ("starttls-socket", "starttls-ws", "starttls-kcp"):
        for req in (0, 1):
            line = "c05raw %s %d" % (k, req)
            cs.append({"line": line, "key": line, "model": False, "tags": {"carrier": "raw-no-starttls;" + k, "req": req}})
    # a UDP endpoint with a shared secret AND a certificate: the secret does not make the carrier count as encrypted - the server offers
    # StartTLS and the session is upgraded (with and without the client requiring security)
    for must in (0, 1):
        for sec in ("abc", "none"):
            line = "c05s %s %s good %d" % (sec, sec, must)
            cs.append({"line": line, "key": line, "model": False, "tags": {"carrier": "udp-secret+cert", "ssecret": sec, "csecret": sec, "must": must}})
    # ONE upstream object connecting again and again (as after every lost session): the holder of the right secret is let in every time
    for sec in ("abc", "none"):
        line = "c05r %s 3" % sec
        cs.append({"line": line, "key": line, "model": False, "tags": {"carrier": "udp-secret-reconnect", "ssecret": sec, "csecret": sec}})
    # a UDP endpoint protected by a shared secret: equal and different secrets, one side without
    # (blue+green / blue%20green and R%2541t / RAt differ as written and as decoded once; they would only meet if decoded twice)
    secrets = ["none", "abc", "abd", "ABC", "ab", "abcd", "p%40ss%3Aword", "x" * 40, "blue+green", "blue%20green", "R%2541t", "RAt"]
    if tier == "thorough":
        secrets += ["k%d" % rng.below(10 ** 9) for _ in range(4)]   # (a bare number would be read as an integer token, not as a word)
    quick_pairs = {("none", "none"), ("abc", "abc"), ("abc", "abd"), ("abc", "ABC"), ("abc", "none"), ("none", "abc"), ("ab", "abc"),
                   ("p%40ss%3Aword", "p%40ss%3Aword"), ("x" * 40, "x" * 40), ("blue+green", "blue%20green"), ("blue+green", "blue+green"),
                   ("R%2541t", "RAt"), ("RAt", "R%2541t")}
    for a in secrets:
        for b in secrets:
            if tier != "thorough" and (a, b) not in quick_pairs:
                continue     # every refused attempt costs the handshake bound
            line = "c05s %s %s" % (a, b)
            cs.append({"line": line, "key": line, "tags": {"carrier": "udp-secret", "ssecret": a, "csecret": b}})
    return cs


def oracle(case, impl):
    t = case["tags"]
    p = impl.split()
    if not p or p[0] in ("panic", "died", "timeout", "harness-error"):
        return [("crash", "cell crashed: %s -> %s" % (case["line"], impl[:100]))]
    if t["carrier"].startswith("raw-no-starttls"):
        if p[0] != "status":
            return [("crash", "cell could not be run: %s -> %s" % (case["line"], impl[:100]))]
        if t["req"] == 1 and "s101" in p:
            return [("client-cert-not-enforced;raw-no-starttls", "the server requires client certificates, yet a peer that never asked for StartTLS (and so presented none) was let in: %s -> %s" % (case["line"], impl))]
        if t["req"] == 0 and "s101" not in p:
            return [("good-peer-refused;carrier=" + t["carrier"], "without the client-certificate requirement a plain session is the documented behaviour: %s -> %s" % (case["line"], impl))]
        return []
    if t["carrier"] == "two-upstreams":
        if p != ["A", "ok", "B", "err"]:
            return [("host-name-not-per-upstream", "the certificate names localhost only: tcp+tls://localhost must be accepted and tcp+tls://127.0.0.1 refused, in "
                     "either order with one configuration object; got " + impl)]
        return []
    if t["carrier"] == "udp-secret+cert":
        if p[:2] != ["connect", "ok"]:
            return [("good-peer-refused;carrier=udp-secret+cert", "a StartTLS-capable UDP endpoint with a matching secret was not reached: %s -> %s" % (case["line"], impl))]
        if "tech" in p and p[p.index("tech") + 1] != "tls":
            return [("offered-starttls-not-upgraded;carrier=udp", "the server offered StartTLS on a carrier that only has the shared-secret cipher; the client reports '%s' protection instead of TLS: %s" % (p[p.index("tech") + 1], case["line"]))]
        return []
    if t["carrier"] == "udp-secret-reconnect":
        if p != ["ok", "ok", "ok"]:
            return [("right-secret-refused;reconnect", "client and endpoint hold the same secret (%s); one upstream object connecting three times in a row got: %s" % (t["ssecret"], impl))]
        return []
    if t["carrier"] == "udp-secret":
        same = t["ssecret"] == t["csecret"]
        est = p[:2] == ["connect", "ok"]
        if "hang" in p:
            return [("hang;carrier=udp-secret", "connection attempt neither succeeded nor failed: " + case["line"])]
        if p[0] == "startup-err":
            return [("secret-endpoint-does-not-start", "a UDP endpoint with a shared secret could not start: " + case["line"])]
        if est and not same:
            return [("wrong-secret-admitted", "the endpoint's secret is '%s' but a client holding '%s' was admitted" % (t["ssecret"], t["csecret"]))]
        if not est and "hits" in p and p[p.index("hits") + 1] != "0":
            return [("target-reached-without-session", "an application byte reached a target although no session was established: " + case["line"])]
        if same and not est:
            return [("right-secret-refused", "client and endpoint hold the same secret but no session was established: " + case["line"])]
        return []
    k, sc, ins, cc, req, must = t["carrier"], t["scert"], t["ins"], t["ccert"], t["req"], t["must"]
    tls = k in ("tls-socket", "wss") or (sc != "none")
    established = p[:2] == ["connect", "ok"]
    out = []
    if "hang" in p:
        return [("hang;carrier=" + k, "connection attempt neither succeeded nor failed: " + case["line"])]
    good = sc in ("good", "dnsonly")
    if tls and established:
        if not ins and not good:
            out.append(("server-not-verified;cert=" + sc, "verification is on but a session was completed with a %s server certificate: %s" % (sc, case["line"])))
        if req and cc != "client-good":
            out.append(("client-cert-not-enforced;ccert=" + cc, "the server requires client certificates but admitted a client with certificate '%s': %s" % (cc, case["line"])))
        if "secure" in p and p[p.index("secure") + 1] != "1":
            out.append(("tls-session-not-secure", "a TLS/StartTLS session reports itself insecure: " + case["line"]))
    if tls and not established and p[0] != "startup-err":
        if (good or ins) and sc != "none" and (not req or cc == "client-good"):
            out.append(("good-peer-refused;carrier=%s;cert=%s" % (k, sc), "a trusted, matching, valid server (client certificate demand met) was refused: " + case["line"]))
    if established and "echo" in p and p[p.index("echo") + 1] != "1":
        out.append(("no-echo", "session established but the application payload did not come back: " + case["line"]))
    if not established and "hits" in p and p[p.index("hits") + 1] != "0":
        out.append(("target-reached-without-session", "an application byte reached a target although no session was established: " + case["line"]))
    if must and established and "secure" in p and p[p.index("secure") + 1] != "1":
        out.append(("must-secure-violated", "the client requires security but accepted an insecure session: " + case["line"]))
    return out


def agree(case, impl, model):
    return None if impl == model else "cell-outcome"


def distribution(cs):
    d = {}
    for c in cs:
        d[c["tags"]["carrier"]] = d.get(c["tags"]["carrier"], 0) + 1
    return d


META = {
    "level_text": "Coq theorems over the derivation of tls.Config from the options and the carrier-specific use of it: with verification on a "
                  "session completes only with a trusted, matching, valid server certificate and does complete with one; required client "
                  "certificates are enforced. The finite decision matrix is also run exhaustively, cell by cell, against real servers and "
                  "clients on loopback.",
    "level_note": "crypto/tls and x509 enter as acceptance hypotheses (client accepts iff skip-verify or chain+name+validity; server accepts iff "
                  "no client certificate required or a CA-signed one presented). The UDP shared secret: Props c05_shared_secret over secret_admits (kcp's cipher is a hypothesis), every pair of a small secret set is run against a real KCP endpoint.",
    "technique": "Coq decision-table proof + exhaustive end-to-end matrix against the real code",
}
