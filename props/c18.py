"""C18 - address schemes select the documented transport, or are rejected."""
PID = "C18"
RULE = ("every documented scheme and its +tls variant in every position (server address, channel address, upstream URL, listener spec) and input "
        "form (JSON, YAML, command line), servers actually started on loopback (type, secure flag, bound address observed); neighbours: unknown "
        "schemes, upper case, tcp+TLS, tcp+, +tls, tcp+tls+tls, missing '//', missing or non-string address key, extra '~', empty; "
        "distinct_nontrivial = distinct (position, form, string)")
EXPLANATION = ("Props/C18.v: over the scheme tables regenerated from the source, every documented scheme builds the documented kind with the "
               "documented TLS-ness, unknown schemes are errors in every position (default clauses return errors), and a TLS marker is never "
               "dropped. The run parses each string with the real parsers and starts the servers.")
TRUSTED = ["net/url scheme extraction is a specification-level model; goccy/go-yaml and encoding/json are exercised, not modelled"]
RUN_TIMEOUT = 1200

DOC_SERVER = {"http": ("HttpServer", 0), "https": ("HttpServer", 1), "tcp": ("SocketServer", 0), "tcp+tls": ("SocketServer", 1),
              "stdin": ("IoServer", None), "stdin+tls": ("IoServer", None), "unix": ("SocketServer", 0), "unix+tls": ("SocketServer", 1),
              "udp": ("PacketServer", None), "unixgram": ("PacketServer", None), "unixpacket": ("SocketServer", 0),
              "dns+udp": ("DnsServer", 0), "dns+tcp": ("DnsServer", 0)}
DOC_CHANNEL = {"tcp": "NetworkChannel", "unix": "NetworkChannel", "unixpacket": "NetworkChannel"}
DOC_UPSTREAM = {"tcp": "Socket", "tcp+tls": "Socket", "stdin": "InputOutput", "stdin+tls": "InputOutput", "unix": "Socket", "unix+tls": "Socket",
                "http": "Http", "https": "Http", "unixgram": "Packet", "udp": "Packet", "dns": "Dns"}
DOC_LISTENER = {"tcp": "SocketListener", "unix": "SocketListener", "stdin": "InputOutputListener"}


# schemes (lower case: URL schemes are case-insensitive) that name a transport in each position, documented or not
IMPL_SERVER = set(DOC_SERVER) | {"ws", "wss", "http+tls", "ws+tls", "stdio", "stdio+tls", "unixpacket+tls", "udp4", "udp6", "dns", "dns+tcp+tls"}
IMPL_CHANNEL = set(DOC_CHANNEL) | {"socks"}
IMPL_UPSTREAM = set(DOC_UPSTREAM) | {"ws", "wss", "unixpacket", "unixpacket+tls", "udp4", "udp6", "dns+udp", "dns+unixgram"}
IMPL_LISTENER = set(DOC_LISTENER) | {"stdio", "unixpacket"}


def hx(s):
    return "#" + s.encode("latin-1").hex()


def loc(scheme, i):
    base = scheme.split("+")[0]
    if base in ("unix", "unixpacket", "unixgram"):
        return ":///tmp/verif-c18-%d-%s.sock" % (i, base)
    if base in ("stdin", "stdio"):
        return "://"
    return "://127.0.0.1:0"


def cases(tier, rng):
    cs = []
    n = [0]

    def add(pos, form, text, extra="", model=True, src="doc"):
        n[0] += 1
        line = ("c18 %s %s %s %s" % (pos, form, hx(text), extra)).strip()
        cs.append({"line": line, "key": line, "model": model, "tags": {"pos": pos, "form": form, "text": text, "src": src}})
    i = 0
    for s in DOC_SERVER:
        i += 1
        for form in ("json", "yaml", "flag"):      # (flag: the --server option, which takes the same text)
            add("server", form, s + loc(s, i), "1" if form == "json" else "0")
    for s in ("ws", "wss", "http+tls", "ws+tls", "stdio", "stdio+tls", "unixpacket+tls", "udp4", "dns", "dns+tcp+tls"):
        i += 1
        add("server", "json", s + loc(s, i), "1" if s in ("ws", "wss", "http+tls", "ws+tls", "dns+tcp+tls") else "0", src="undocumented")
    for s in ("foo", "TCP", "tcp+TLS", "tcp+", "+tls", "tcp+tls+tls", "tcps", "tls+tcp", "http+", "dns+", "udp+tls", ""):
        add("server", "json", s + "://127.0.0.1:0", "1", src="neighbour")
        add("server", "yaml", s + "://127.0.0.1:0", "0", src="neighbour")
    for t in ("tcp", "tcp:127.0.0.1:0", "tcp//127.0.0.1:0", "127.0.0.1:0", "", ":", "://", "tcp+tls"):
        add("server", "json", t, "0", src="malformed")
    for s in list(DOC_CHANNEL) + ["socks", "udp", "unixgram", "foo", "TCP", "tcp+tls", ""]:
        for form in ("json", "yaml"):
            add("channel", form, s + "://127.0.0.1:22", src="doc" if s in DOC_CHANNEL else "neighbour")
    for form in ("json", "yaml"):
        cs.append({"line": "c18 channel-nokey %s" % form, "key": "nokey-" + form, "tags": {"pos": "channel-nokey", "form": form, "text": "", "src": "malformed"}})
        cs.append({"line": "c18 channel-nonstring %s" % form, "key": "nonstring-" + form, "tags": {"pos": "channel-nonstring", "form": form, "text": "", "src": "malformed"}})
    for t in ("/ssh->tcp:127.0.0.1:22", "/a_b->unix:/tmp/x", "ssh->tcp:1.2.3.4:5", "/ssh->foo:1", "/ssh", ""):
        add("channel", "flag", t, model=False, src="flag")
    for s in list(DOC_UPSTREAM) + ["ws", "wss", "unixpacket", "udp4", "dns+udp", "foo", "TCP", "tcp+TLS", "stdin+", "https+tls", "tcp+tls+tls", ""]:
        add("upstream", "flag", s + "://h.example:1/p", src="doc" if s in DOC_UPSTREAM else "neighbour")
    for t in ("stdin", "tcp", "h.example:1", "://x", ""):
        add("upstream", "flag", t, src="malformed")
    for s in list(DOC_LISTENER) + ["stdio", "unixpacket", "udp", "foo", "TCP", "tcp+tls", ""]:
        add("listener", "flag", "svc~" + s + "://127.0.0.1:2222", model=False, src="doc" if s in DOC_LISTENER else "neighbour")
        add("listener", "flag", "svc~" + s + "://127.0.0.1:2222~tcp://127.0.0.1:22", model=False, src="doc" if s in DOC_LISTENER else "neighbour")
    for t in ("svc", "svc~", "~tcp://h:1", "svc~tcp://h:1~", "svc~tcp://h:1~tcp://x:1~extra", "a~b~c", "", '{"address":"tcp://127.0.0.1:1","name":"x"}',
              '}{"address":"tcp://127.0.0.1:1"}', '}{"address":5}', "}{}",
              # each of the three parts malformed at the URL level (bad port, unclosed bracket, broken escape, control character, blank)
              "svc~tcp://127.0.0.1:22~tcp://127.0.0.1:x22", "svc~tcp://127.0.0.1:22~tcp://[::1", "svc~tcp://127.0.0.1:22~tcp://h%zz:1",
              "svc~tcp://127.0.0.1:22~tcp://h\x7f:1", "svc~tcp://127.0.0.1:22~tcp://a b:1", "svc~tcp://127.0.0.1:22~:", "svc~tcp://127.0.0.1:x22",
              "svc~tcp://[::1", "svc~tcp://h%zz:1~tcp://127.0.0.1:22"):
        add("listener", "flag", t, model=False, src="malformed")
    # (the model is the scheme table; what net/url rejects beyond the scheme is observed on the implementation only: an error, never a crash)
    for t in ("tcp://127.0.0.1:x22", "tcp://[::1", "tcp://h%zz:1", "udp://u:p@h:x", "dns://exa mple.org"):
        add("upstream", "flag", t, model=False, src="malformed")
    for t in ("tcp://127.0.0.1:x22", "tcp://[::1", "http://h%zz:1"):
        add("server", "json", t, "0", model=False, src="malformed")
        add("channel", "json", t, model=False, src="malformed")
    # an upstream object keeps its transport when it connects again (after a failed attempt, after a lost session): a TLS scheme opens
    # with a TLS hello every time
    for kind in ("tcp+tls", "wss"):
        line = "c04first %s 3" % kind
        cs.append({"line": line, "key": line, "model": False, "tags": {"pos": "upstream-reconnect", "form": "flag", "text": kind, "src": "doc"}})
    return cs


def oracle_reconnect(case, impl):
    p = impl.split()
    if not p or p[0] != "first":
        return [("crash;pos=upstream-reconnect", "scenario did not complete: " + impl[:100])]
    if any(x != "22" for x in p[1:]):
        return [("tls-dropped-on-reconnect;scheme=" + case["tags"]["text"], "a %s upstream opened a connection that does not start with a TLS hello (first octets %s)" % (case["tags"]["text"], " ".join(p[1:])))]
    return []


def oracle(case, impl):
    if case["tags"]["pos"] == "upstream-reconnect":
        return oracle_reconnect(case, impl)
    t = case["tags"]
    p = impl.split()
    if not p or p[0] in ("panic", "died", "timeout", "harness-error"):
        return [("crash;pos=%s;site=%s" % (t["pos"], p[1] if len(p) > 1 else "?"), "parsing %r in position %s crashed: %s" % (t["text"], t["pos"], impl[:100]))]
    if p[0] in ("nil-server", "nil-channel", "nil-listener"):
        return [("nil-object;pos=" + t["pos"], "the parser accepted %r and produced a nil %s" % (t["text"], t["pos"]))]
    text = t["text"]
    scheme = text.split(":")[0].lower() if ":" in text else ""
    out = []
    f = dict(zip(p[0::2], p[1::2])) if p[0] == "type" else {}
    if t["pos"] == "server":
        doc = DOC_SERVER.get(scheme) if t["src"] == "doc" else None
        if doc:
            if p[0] != "type" or f.get("type") != doc[0]:
                out.append(("documented-scheme-wrong;pos=server;scheme=" + scheme, "server address %r should give %s, got %s" % (text, doc[0], impl[:60])))
            elif "secure" in f and doc[1] is not None and f["secure"] != str(doc[1]):
                out.append(("tls-flag-wrong;scheme=" + scheme, "server %r reports secure=%s, documented %s" % (text, f["secure"], doc[1])))
        if "bound" in f and "unix" in scheme:
            bound = bytes.fromhex(f["bound"][1:]).decode("latin-1")
            want = text.split("://", 1)[1]
            if bound != want:
                out.append(("silently-different-address;scheme=" + scheme, "server %r is listening on %r" % (text, bound)))
        if p[0] == "type" and ("+tls" in scheme or scheme in ("https", "wss")) and f.get("secure") == "0":
            out.append(("tls-dropped;scheme=" + scheme, "server %r carries a TLS marker but started without TLS" % text))
        if "wire" in f:
            marked = "+tls" in scheme or scheme in ("https", "wss")
            if marked and f["wire"] != "tls":
                out.append(("tls-dropped-on-wire;scheme=" + scheme, "server %r carries a TLS marker but its endpoint answers %s on the wire" % (text, f["wire"])))
            if not marked and f["wire"] == "tls":
                out.append(("tls-without-marker;scheme=" + scheme, "server %r has no TLS marker but its endpoint speaks TLS" % text))
        if t["src"] in ("neighbour", "malformed") and p[0] == "type" and scheme not in IMPL_SERVER:
            out.append(("unknown-accepted;pos=server", "unknown or malformed server address %r was accepted as %s" % (text, f.get("type"))))
    elif t["pos"] == "channel" and t["form"] != "flag":
        doc = DOC_CHANNEL.get(scheme) if t["src"] == "doc" else None
        if doc and (p[0] != "type" or f.get("type") != doc):
            out.append(("documented-scheme-wrong;pos=channel;scheme=" + scheme, "channel address %r should give %s, got %s" % (text, doc, impl[:60])))
        if t["src"] == "neighbour" and scheme not in IMPL_CHANNEL and p[0] == "type":
            out.append(("unknown-accepted;pos=channel", "unknown channel address %r was accepted" % text))
    elif t["pos"] == "channel" and t["form"] == "flag":
        if p[0] == "type":
            name = bytes.fromhex(f["name"][1:]).decode("latin-1") if "name" in f else ""
            sch = bytes.fromhex(f["scheme"][1:]).decode("latin-1") if "scheme" in f else ""
            if "->" in name or sch == "":
                out.append(("channel-flag-form", "command-line channel %r is not interpreted like the YAML form: name=%r scheme=%r" % (text, name, sch)))
    elif t["pos"] == "upstream":
        doc = DOC_UPSTREAM.get(scheme) if t["src"] == "doc" else None
        if doc and (p[0] != "type" or f.get("type") != doc):
            out.append(("documented-scheme-wrong;pos=upstream;scheme=" + scheme, "upstream %r should give %s, got %s" % (text, doc, impl[:60])))
        if t["src"] == "neighbour" and p[0] == "type" and scheme not in IMPL_UPSTREAM:
            out.append(("unknown-accepted;pos=upstream", "unknown upstream %r was accepted as %s" % (text, f.get("type"))))
        if text == "stdin" and p[0] != "type":
            out.append(("documented-form-rejected;upstream=stdin", "README documents the upstream 'stdin' (without ://); it is rejected"))
    elif t["pos"] == "listener":
        parts = text.split("~")
        sch = parts[1].split(":")[0].lower() if len(parts) > 1 and ":" in parts[1] else ""
        doc = DOC_LISTENER.get(sch) if t["src"] == "doc" else None
        if doc and (p[0] != "type" or f.get("type") != doc):
            out.append(("documented-scheme-wrong;pos=listener;scheme=" + sch, "listener %r should give %s, got %s" % (text, doc, impl[:60])))
        if t["src"] == "neighbour" and p[0] == "type" and sch not in IMPL_LISTENER:
            out.append(("unknown-accepted;pos=listener", "unknown listener %r was accepted" % text))
    return out


def agree(case, impl, model):
    if model.startswith("model-unspecified"):
        return None
    i = impl.split()
    for cut in ("wire", "bound", "host", "name"):
        if cut in i:
            i = i[:i.index(cut)]
    if i[:1] == ["type"] and len(i) >= 2 and "starterr" in i:
        i = i[:2]
        model = " ".join(model.split()[:2])
    return None if " ".join(i) == " ".join(model.split()) else "scheme-table"


def distribution(cs):
    d = {}
    for c in cs:
        k = "%s/%s/%s" % (c["tags"]["pos"], c["tags"]["form"], c["tags"]["src"])
        d[k] = d.get(k, 0) + 1
    return d


META = {
    "level_text": "Coq theorems over the scheme tables that the translator regenerates from the four switch statements on every run: every "
                  "documented scheme builds the documented kind with the documented TLS-ness, schemes outside the tables are errors in every "
                  "position, a TLS marker is never dropped. Every documented scheme, its variants and malformed neighbours are parsed with the "
                  "real JSON/YAML/flag parsers and the servers are started on loopback.",
    "level_note": "net/url's scheme extraction is a specification-level model. Known findings: the command-line channel form and the bare 'stdin' "
                  "upstream (KNOWN_FINDINGS.txt).",
    "technique": "Coq proofs by computation over generated scheme tables + differential parsing and start-up of every form",
}
