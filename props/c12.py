"""C12 - DNS endpoints withstand arbitrary messages with bounded work."""
import base64
import struct

PID = "C12"
DOM = b"example.org"
QT = [10, 65000, 16, 33, 15, 5, 28, 1]
RULE = ("c12s: one-question (and 0/2/3-question) DNS queries built on the wire from labels: every command letter in both cases plus digits and "
        "other octets x cache/user-id fields of every length 0..5 (user ids 00, zz, non-base36, 1296-style) x bodies (well-formed per command with "
        "fragment sizes 0,1,767,65535,65536,2^31,2^32-1; truncated at every field; random octets incl. escapes) x names under / not under the "
        "tunnel domain / root / 1-3 characters x query types (the 8 supported, ANY, 0, 65535, others) x classes, delivered to the real "
        "onMessage from a foreign address (or the owner's) while a session is established; c10raw: answer sections given as raw rdata per "
        "record (0..6 records, every supported type plus NS/SOA/OPT/unknown, rdata of every length 0..5, tags without data, names not under "
        "the domain, mixed types) to the real client decoder with each downstream codec. distinct_nontrivial = distinct (side, command/"
        "record-type class, body class, query type class, owner, question count) among cases that reach the handler (not refused by Unpack)")
EXPLANATION = ("Props/C12.v: the modelled request decoder (Wire/Requests.v), StripDomain (Wire/Name.v), the server dispatcher with its effect on the "
               "user table (Srv/Server.v) and the client's answer decoder (Wrap/Wrap.v unwrap, Wrap/Responses.v) have no Panic outcome for any "
               "octet string / message / answer section; every message is Ignored or Answered in every state reachable from the initial one "
               "(wf is an invariant); sessions of other addresses are unchanged by any message (frame theorem); stored fragment sizes stay in "
               "1..65535, the answer payload is at most max(65540, request length) octets and a later Write of n octets adds at most n chunks. "
               "The real onMessage and the real decoder run on every case, where crashes, allocation and a follow-up write are measured.")
TRUSTED = ["miekg/dns Unpack is used to decide which wire messages reach the handler; its model (names, rdata) is validated only differentially",
           "allocation is measured with runtime.MemStats around the handler call (bound 4 MiB per message); it is not part of the model"]
RUN_TIMEOUT = 1800
ALLOC_BOUND_KIB = 4096
CB32 = "abcdefghijklmnopqrstuvwxyz012345"
STD32 = "ABCDEFGHIJKLMNOPQRSTUVWXYZ234567"


def hx(b):
    return "#" + bytes(b).hex()


def b32(b):
    s = base64.b32encode(bytes(b)).decode().rstrip("=")
    return s.translate(str.maketrans(STD32, CB32)).encode()


def labels(first, under):
    """Split the tunnel part into labels of at most 63 octets and append the domain (or not)."""
    ls = [first[i:i + 63] for i in range(0, len(first), 63)] if first else []
    if under == "domain":
        ls += [b"example", b"org"]
    elif under == "upper":
        ls += [b"EXAMPLE", b"Org"]
    elif under == "other":
        ls += [b"www", b"other", b"com"]
    elif under == "suffix":      # ends with the domain's text but not at a label boundary
        ls += [b"notexample", b"org"]
    elif under == "dot-in-label":      # the domain's text appears after a dot that is an octet INSIDE a label (presented as \.)
        ls = [(ls[0] if ls else b"") + b".example", b"org"]
    elif under == "domain-in-label":   # the whole domain inside one label
        ls = [(ls[0] if ls else b"") + b".example.org"]
    return ls


def body_for(cmd, rng):
    """(class, octets) of a request body for command letter cmd."""
    c = cmd.lower()
    k = rng.below(10)
    if k == 0:
        return "empty", b""
    if k == 1:
        return "random", rng.bytes(rng.range(1, 40))
    if k == 2:
        return "escapes", (b"\\.\x00\xff()@; \"" * 4)[:rng.range(1, 30)]
    if c == "r":
        fs = rng.choice([0, 1, 2, 767, 768, 1200, 65535, 65536, 2 ** 31, 2 ** 32 - 1])
        raw = struct.pack("<I", fs)
        cut = rng.choice([4, 4, 4, 0, 1, 3])
        return "fragsize=%s/cut%d" % (fs if fs in (0, 65535, 65536, 2 ** 32 - 1) else "mid", cut), b32(raw[:cut])
    if c == "o":
        fs = rng.choice([0, 1, 200, 65535, 65536, 2 ** 32 - 2, 2 ** 32 - 1])
        raw = bytes([rng.choice([0, 1, 255, 7]), rng.choice([0, 1, 255]), rng.choice([0, 0, 255, 255, 1]),
                     rng.choice([32, 84, 83, 85, 87, 88, 86, 82, 0, 120]), rng.choice([32, 84, 83, 86, 0, 120])]) + struct.pack("<I", fs)
        cut = rng.choice([9, 9, 9, 9, 0, 1, 2, 3, 4, 5, 8])
        return "options/frag=%s/cut%d" % (fs if fs in (0, 65535, 65536, 2 ** 32 - 1) else "mid", cut), b32(raw[:cut])
    if c == "c":
        data = rng.bytes(rng.range(0, 20))
        raw = struct.pack("<H", rng.choice([0, 1, 65535])) + bytes([rng.choice([0, 1, 255, 2])]) + struct.pack("<H", rng.choice([0, 1, 5, 65535])) + data
        cut = rng.choice([len(raw), len(raw), 0, 1, 2, 3, 4])
        return "packet/cut%d" % min(cut, 5), b32(raw[:cut])
    if c == "v":
        raw = struct.pack("<I", rng.choice([0x502, 0x502, 0, 2 ** 32 - 1]))
        cut = rng.choice([4, 4, 0, 2, 3])
        return "version/cut%d" % cut, b32(raw[:cut])
    if c == "y":
        return "codec-letter", bytes([rng.choice([84, 83, 85, 87, 88, 86, 82, 116, 0, 255, 120])])
    if c == "z":
        return "pattern", rng.bytes(rng.range(0, 60))
    return "other", b32(rng.bytes(rng.range(0, 12)))


CMDS = "vlorzymce"


def mk_s(first, under, qt, qc, nq, owner, src, bclass):
    ls = labels(first, under)
    line = "c12s %d %d %d %d %s" % (qt, qc, nq, owner, " ".join(hx(l) for l in ls))
    c0 = chr(first[0]) if first else ""
    cc = c0.lower() if c0.lower() in CMDS else ("digit" if c0.isdigit() else ("none" if not c0 else "other"))
    qtc = str(qt) if qt in QT else "unsupported"
    return {"line": line.rstrip(), "key": ("s", cc, c0.isupper(), bclass, under, qtc, owner, nq, min(len(first), 7)),
            "tags": {"side": "server", "src": src, "cmd": cc, "owner": owner, "qt": qt, "nq": nq, "under": under}}


def server_cases(tier, rng):
    n = 2600 if tier == "thorough" else 420
    cs = []
    # ordinary lookups and degenerate names
    for first in (b"mail", b"", b"v", b"va", b"vab", b"vabc", b"c", b"o0", b"caaa", b"caaa0", b"caaaz", b"raaa0", b"oaaa00", b"yaaa", b"laaa", b"eaaa",
                  b"maaa", b"zaaa", b"zaaa0", b"zaaa00", b"waaa00", b"0aaa00", b"VAAA", b"CAAA00", b"caaa-1", b"caaa+1", b"caaa_1", b"caaa\xff\xff"):
        for under in ("domain", "none", "other", "dot-in-label", "domain-in-label"):
            cs.append(mk_s(first[:50], under, rng.choice(QT), 1, 1, 0, "degenerate", "short"))
    for under in ("domain", "none"):
        for nq in (0, 2, 3):
            cs.append(mk_s(rng.choice([b"", b"a", b"vaaa", b"aacaaa00"]), under, 10, 1, nq, 0, "qcount", "short"))
    # fragment-size edge values from the session's owner and from a stranger
    for owner in (0, 1):
        for fs in (0, 1, 65535, 65536, 2 ** 32 - 1):
            cs.append(mk_s(b"raaa00" + b32(struct.pack("<I", fs)), "domain", 10, 1, 1, owner, "fragsize", "fragsize=%d" % fs))
            cs.append(mk_s(b"oaaa00" + b32(bytes([255, 255, 255, 32, 32]) + struct.pack("<I", fs)), "domain", 10, 1, 1, owner, "fragsize", "options/frag=%d" % fs))
        cs.append(mk_s(b"oaaa00" + b32(bytes([255, 255, 1, 32, 32]) + struct.pack("<I", 2 ** 32 - 1)), "domain", 10, 1, 1, owner, "close", "options/close"))
    # packets for the established session's identifier from a foreign address: every combination of acknowledgement and sequence
    # number that would hit the chunk in flight (0) or the number expected next (1)
    for letter in (b"c", b"C"):
        for ack in (0, 1, 65535):
            for seq in (0, 1, 2):
                raw = struct.pack("<H", ack) + b"\x01" + struct.pack("<H", seq) + b"injected"
                cs.append(mk_s(letter + b"aaa00" + b32(raw), "domain", rng.choice([10, 16, 5]), 1, 1, 0, "stray-packet", "packet/ack%d/seq%d" % (ack, seq)))
    # ... and from the owner's own host but another source port (owner = 2): a packet, a close, new options
    raw = struct.pack("<H", 65535) + b"\x01" + struct.pack("<H", 1) + b"injected"
    cs.append(mk_s(b"caaa00" + b32(raw), "domain", 10, 1, 1, 2, "stray-packet", "packet/same-host"))
    cs.append(mk_s(b"oaaa00" + b32(bytes([255, 255, 1, 32, 32]) + struct.pack("<I", 2 ** 32 - 1)), "domain", 10, 1, 1, 2, "close", "options/close/same-host"))
    cs.append(mk_s(b"oaaa00" + b32(bytes([255, 255, 255, 83, 82]) + struct.pack("<I", 900)), "domain", 10, 1, 1, 2, "fragsize", "options/same-host"))
    # the same message delivered many times (implementation only): what the session keeps must not grow with the repetitions
    for owner in (0, 1):
        for seq in (1, 2, 5, 100, 127, 128, 129, 40000):
            raw = struct.pack("<H", 65535) + b"\x01" + struct.pack("<H", seq) + b"out-of-order"
            c = mk_s(b"caaa00" + b32(raw), "domain", 10, 1, 1, owner, "repeat", "packet/seq%d" % seq)
            c["line"] = "c12r 400 " + c["line"][5:]
            c["model"] = False
            c["key"] = ("r",) + c["key"]
            c["tags"]["repeat"] = 400
            cs.append(c)
    for first in (b"vaaa" + b32(struct.pack("<I", 0x502)), b"mail", b"raaa00" + b32(struct.pack("<I", 65535)), b"zaaa00" + b"x" * 100):
        c = mk_s(first, "domain", 10, 1, 1, 1, "repeat", "other")
        c["line"] = "c12r 400 " + c["line"][5:]
        c["model"] = False
        c["key"] = ("r",) + c["key"]
        c["tags"]["repeat"] = 400
        cs.append(c)
    while len(cs) < n:
        letter = rng.choice(list(CMDS) * 8 + list(CMDS.upper()) * 2 + list("abdfghijkpqstuwx0189") + ["\x00", "\xff", "\\", "."])
        cache = rng.bytes(rng.choice([3, 3, 3, 3, 0, 1, 2])) if rng.below(4) == 0 else b"aaa"[:rng.choice([3, 3, 3, 3, 3, 0, 1, 2])]
        uid = rng.choice([b"00"] * 12 + [b"01", b"zz", b"ZZ", b"0", b"", b"$$", b"-1", b"+1", b"10", b"\xff\xff"])
        bclass, body = body_for(letter, rng)
        first = letter.encode("latin-1") + cache + uid + body
        under = rng.choice(["domain"] * 8 + ["upper", "none", "other", "suffix", "dot-in-label", "domain-in-label"])
        qt = rng.choice(QT * 3 + [255, 0, 65535, 2, 6, 12, 41, 99])
        qc = rng.choice([1, 1, 1, 1, 255, 0, 3, 65535])
        nq = rng.choice([1] * 12 + [0, 2, 3])
        owner = rng.choice([0, 0, 0, 1])
        if len(first) > 180:
            first = first[:180]
        cs.append(mk_s(first, under, qt, qc, nq, owner, "generated", bclass))
    return cs


RR = {10: "NULL", 65000: "PRIVATE", 16: "TXT", 33: "SRV", 15: "MX", 5: "CNAME", 28: "AAAA", 1: "A", 2: "NS", 6: "SOA", 41: "OPT", 99: "SPF", 12345: "unknown"}
CODECS = [84, 83, 85, 87, 88, 86, 82]


def wire_name(ls):
    return b"".join(bytes([len(l)]) + l for l in ls) + b"\x00"


def rdata(t, rng):
    """(class, rdata) for a record of type t: from empty to well-formed."""
    k = rng.below(8)
    payload = rng.choice([b"", b"v", b"va", b"e", b"ebadcodec", b"c", b"l", b"m", b"y", b"yo", b"ye", b"yx", b"z", b"o", b"r", b"x",
                          b"v00", b"v0", b"vzz", b"v$$"]) + (b32(rng.bytes(rng.range(0, 9))) if rng.below(2) else rng.bytes(rng.range(0, 6)))
    if t in (10, 65000):
        if k == 0:
            return "len0", b""
        if k == 1:
            return "len1", rng.bytes(1)
        if k == 2:
            return "tag-only", struct.pack("<H", rng.below(3))
        return "tag+data", struct.pack("<H", rng.choice([0, 1, 2, 65535])) + payload
    if t == 16:
        if k == 0:
            return "len0", b""
        if k == 1:
            return "empty-string", b"\x00"
        if k == 2:
            # one octet: plain, or one the DNS library prints as an escape (\DDD or \X)
            o = rng.choice([b"a", b"\x00", b"\xff", b"\\", b'"', b"\x07", b".", b"(", b"@"])
            return "one-octet" + ("" if o == b"a" else "-escaped"), b"\x01" + o
        if k == 3:
            # several character-strings: the first one empty or one octet, the data in the later ones
            first = rng.choice([b"\x00", b"\x01a", b"\x01\x00"])
            return "short-first-string", first + bytes([len(payload) + 2]) + b"aa" + payload
        if k == 4:
            return "bad-length", bytes([rng.range(10, 255)]) + b"abc"
        s = b"aa" + payload
        return "tag+data", bytes([len(s)]) + s + (b"\x00" if rng.below(3) == 0 else b"")
    if t in (15, 33, 5, 2):
        pre = {15: struct.pack(">H", rng.choice([0, 10, 20, 65535])), 33: struct.pack(">HHH", rng.choice([0, 10, 65535]), 0, 0), 5: b"", 2: b""}[t]
        tag = b"aa" if t == 5 else b""
        if k == 0:
            return "len0", b""
        if k == 1:
            return "root-name", pre + b"\x00"
        if k == 2:
            return "one-char-name", pre + wire_name([b"a"])
        if k == 3:
            return "not-under-domain", pre + wire_name([tag + payload[:60] or b"q", b"other", b"com"])
        if k == 4:
            return "domain-only", pre + wire_name([b"example", b"org"])
        if k == 5:
            return "short-prefix", pre[:max(0, len(pre) - 1)]
        return "under-domain", pre + wire_name(([tag + payload[:60]] if tag + payload else []) + [b"example", b"org"])
    if t == 28:
        return ("len16", rng.bytes(16)) if k else ("len0", b"")
    if t == 1:
        return ("len4", rng.bytes(4)) if k else ("len0", b"")
    if t == 6:
        return "soa", wire_name([b"ns"]) + wire_name([b"hm"]) + bytes(20)
    return "opaque", rng.bytes(rng.range(0, 12))


def client_cases(tier, rng):
    n = 2400 if tier == "thorough" else 380
    cs = []
    types = list(RR)
    for codec in CODECS:
        cs.append({"line": "c10raw %d %s" % (codec, hx(DOM)), "key": ("c", "zero-records", codec), "tags": {"side": "client", "n": 0, "types": ""}})
    while len(cs) < n:
        codec = rng.choice(CODECS)
        nrec = rng.choice([1, 1, 1, 1, 2, 2, 3, 4, 6])
        mixed = rng.below(4) == 0
        t0 = rng.choice(types)
        parts, classes = [], []
        for _ in range(nrec):
            t = rng.choice(types) if mixed else t0
            cl, rd = rdata(t, rng)
            parts.append("%d %s" % (t, hx(rd)))
            classes.append("%s:%s" % (RR[t], cl))
        dom = rng.choice([DOM] * 5 + [b"a.b", b"x" * 70, b""])
        cs.append({"line": "c10raw %d %s %s" % (codec, hx(dom), " ".join(parts)),
                   "key": ("c", tuple(sorted(set(classes))), len(dom) if dom != DOM else -1),
                   "tags": {"side": "client", "n": nrec, "types": ",".join(sorted(set(c.split(":")[0] for c in classes)))}})
    return cs


def near_wrap_cases(tier, rng):
    """the established session has already received packets up to a sequence number near the 16-bit wrap (implementation only)"""
    cs = []
    for inseq in (65407, 65408, 65409, 65500, 65534, 65535, 0, 1):
        for off in ((1, 5, 126, 127, 128, -1, -200, 0) if tier == "thorough" else (1, 127, -1)):
            for owner in (1, 0):
                if owner == 0 and tier != "thorough" and off != 1:
                    continue
                seq = (inseq + off) % 65536
                raw = struct.pack("<H", 65535) + b"\x01" + struct.pack("<H", seq) + b"stray"
                c = mk_s(b"caaa00" + b32(raw), "domain", 10, 1, 1, owner, "near-wrap", "packet/next%d/off%d" % (inseq, off))
                c["line"] = "c12q %d %s" % (inseq, c["line"][5:])
                c["model"] = False
                c["key"] = ("q", inseq, off, owner)
                cs.append(c)
    return cs


def handshake_cases(tier, rng):
    """a whole client handshake against a peer that answers every query with one fixed answer section (implementation only)"""
    ver_ok = b"v00" + b32(struct.pack("<I", 0x502) + b"\x00")
    payloads = [b"", b"e", b"E", b"e" + b32(b""), b"e" + b32(b"BADVER"), b"e" + b32(b"\x00"), b"v", b"v0", b"v00", ver_ok, b"V00" + b32(struct.pack("<I", 0x502) + b"\xff"),
                b"c", b"c" + b32(b"\x00\x00\x00"), b"c" + b32(b"\x01\x00\x00\x05\x00abc"), b"o", b"o" + b32(b"\x00"), b"r", b"r" + b32(b"\x00" + struct.pack("<I", 3) + b"abc"),
                b"y", b"yo", b"ye", b"yo" + b32(b"abc"), b"z", b"z" + b32(b"\x00abc"), b"l", b"m", b"x", b"\x00", b"\xff\xff"]
    cs = []
    # the first k queries are answered by a real server, then the fixed answer takes over: every phase of the handshake meets it
    ks = list(range(0, 23)) if tier == "thorough" else [0, 1, 2, 3, 4, 6, 8, 10, 12, 14, 16, 18, 20, 21]    # an honest handshake takes 22 exchanges
    for pl in payloads:
        forms = [("NULL", "10 %s" % hx(struct.pack("<H", 1) + pl))]
        if tier == "thorough" or rng.chance(1, 3):
            forms.append(("TXT", "16 %s" % hx(bytes([len(pl) + 2]) + b"aa" + pl)))
            forms.append(("PRIVATE", "65000 %s" % hx(struct.pack("<H", 1) + pl)))
        for name, f in forms:
            # (an error response without a readable reason meets every exchange of the handshake in the quick tier too: a nil error
            # with an answer of another type is what callers cannot cope with)
            every = tier == "thorough" or (name == "NULL" and pl in (b"e" + b32(b"\x00"), b"e" + b32(b"")))
            for k in (ks if every else [0] + [rng.choice(ks) for _ in range(3)]):
                cs.append({"line": "c12h %d %s" % (k, f), "key": ("h", name, pl[:4].hex(), k), "model": False, "tags": {"side": "client-handshake", "n": 1, "types": name}})
    for k in ks:
        cs.append({"line": "c12h %d" % k, "key": ("h", "none", k), "model": False, "tags": {"side": "client-handshake", "n": 0, "types": ""}})
        cs.append({"line": "c12h %d 10 %s" % (k, hx(struct.pack("<H", 1) + b"e")), "key": ("h", "bare-e", k), "model": False, "tags": {"side": "client-handshake", "n": 1, "types": "NULL"}})
    for t, rd in ((16, b"\x01\x00"), (16, b"\x01\\"), (16, b""), (5, b"\x00"), (5, b"\x01a\x00"), (15, b"\x00\x0a\x00"), (33, b"\x00\x00\x00\x00\x00\x00\x00"), (10, b""), (10, b"\x01"), (1, b"\x01\x02\x03\x04")):
        cs.append({"line": "c12h %d %d %s" % (rng.choice(ks), t, hx(rd)), "key": ("h", t, rd.hex()), "model": False, "tags": {"side": "client-handshake", "n": 1, "types": RR.get(t, "?")}})
    return cs


def two_session_cases(tier, rng):
    """Two established sessions: what one of them (or a stranger using its identifier) asks for with a set-options request - codecs, fragment
    size, flags - changes nothing of the other session (implementation only)."""
    cs = []
    combos = [(83, 83, 200, 255, "other"), (85, 82, 1200, 1, "other"), (84, 86, 300, 0, "other"), (83, 82, 500, 255, "stranger"), (84, 84, 65535, 1, "other")]
    if tier == "thorough":
        combos += [(u, d, f, l, w) for u in (84, 83, 85, 86) for d in (84, 83, 85, 87, 88, 86, 82) for f in (1, 768, 4000) for l in (0, 255) for w in ("other", "stranger")]
    for u, d, f, l, w in combos:
        line = "c12two %d %d %d %d %s" % (u, d, f, l, w)
        cs.append({"line": line, "key": line, "model": False, "tags": {"side": "server", "src": "two-sessions", "cmd": "o", "owner": 0, "qt": 10, "nq": 1, "under": "domain"}})
    return cs


def cases(tier, rng):
    return server_cases(tier, rng) + two_session_cases(tier, rng) + client_cases(tier, rng) + near_wrap_cases(tier, rng) + handshake_cases(tier, rng)


def oracle(case, impl):
    p = impl.split()
    side = case.get("tags", {}).get("side") or ("client" if case["line"].startswith("c10raw") else "server")
    if side == "client-handshake":
        side = "client"
    if not p:
        return [(side + "-died", "no output: " + case["line"][:200])]
    if p[0] == "panic":
        return [("%s-panic;site=%s" % (side, p[1] if len(p) > 1 else "?"), "%s crashed on %s" % (side, case["line"][:200]))]
    if p[0] in ("died", "timeout", "harness-error", "oom"):
        return [("%s-%s" % (side, p[0]), "%s did not come back (%s) on %s" % (side, impl[:80], case["line"][:200]))]
    if side == "client":
        return []
    if case["line"].startswith("c12two"):
        if p[0] != "set":
            return [("server-setup", "fixture could not be established: " + impl[:100])]
        f = case["line"].split()
        out = []
        if p[3] != "1" or p[4:] != ["a", "ok", "1"]:
            out.append(("session-disturbed;by=" + f[5], "session B's set-options request (codecs %s/%s, fragment size %s) changed session A: %s" % (f[1], f[2], f[3], impl)))
        if f[5] == "stranger" and p[1] == "ok":
            out.append(("session-disturbed;by=stranger-accepted", "a set-options request for session B from a foreign address was accepted: " + impl))
        return out
    if case["line"].startswith("c12h"):
        return []      # any end of the handshake but a crash or a hang is fine (handled above)
    if case["line"].startswith("c12q"):
        if p[0] == "unpackable":
            return []
        f = dict(zip(p[1::2], p[2::2]))
        if int(f.get("future", 0)) > 128:
            return [("kept-without-bound;what=parked-packets", "%s packets parked: %s" % (f["future"], case["line"][:160]))]
        return []
    if case["line"].startswith("c12r"):
        if p[0] == "unpackable":
            return []
        f = dict(zip(p[0::2], p[1::2]))
        rep = case.get("tags", {}).get("repeat", 400)
        out = []
        if int(f.get("future", 0)) > 128:
            out.append(("kept-without-bound;what=parked-packets", "%s packets are parked on the session after %d deliveries of one message: %s" % (f["future"], rep, case["line"][:160])))
        if int(f.get("inbuf", 0)) > 5 + 64 * 2:
            out.append(("kept-without-bound;what=unread-octets", "%s octets wait on the session after %d deliveries of one message" % (f["inbuf"], rep)))
        if int(f.get("allocKiB", 0)) > rep * 2048:
            out.append(("alloc-unbounded", "%s KiB allocated for %d deliveries of one message: %s" % (f["allocKiB"], rep, case["line"][:160])))
        return out
    if p[0] in ("unpackable", "setup-failed"):
        return [] if p[0] == "unpackable" else [("server-setup", "fixture could not be established")]
    out = []
    f = case["line"].split()
    owner = int(f[4])
    if "same" in p and p[p.index("same") + 1] == "0" and owner != 1:
        out.append(("session-disturbed", "a message from a foreign address changed an established session: " + case["line"][:200]))
    if "allocKiB" in p and int(p[p.index("allocKiB") + 1]) > ALLOC_BOUND_KIB:
        out.append(("alloc-unbounded", "handling one message allocated %s KiB: %s" % (p[p.index("allocKiB") + 1], case["line"][:200])))
    if "write" in p:
        if p[p.index("write") + 1] != "returns":
            out.append(("write-unbounded", "after this message a write on the session never returns: " + case["line"][:200]))
        elif int(p[p.index("chunks") + 1]) > 16:
            out.append(("write-unbounded", "after this message a 10-octet write was cut into %s chunks: %s" % (p[p.index("chunks") + 1], case["line"][:200])))
    return out


def project(case, s):
    p = s.split()
    if case["line"].startswith("c10raw"):
        return s
    if not p or p[0] in ("unpackable",):
        return s
    q = p[:p.index("same") + 2] if "same" in p else p
    if int(case["line"].split()[1]) in (1, 28) and q[0] == "answered":
        q = ["answered", "-"] + q[2:]       # whether an A/AAAA answer packs depends on its length (C10 finding), not on C12
    return " ".join(q)


def agree(case, impl, model):
    return None if project(case, impl) == project(case, model) else ("client-decoder" if case["line"].startswith("c10raw") else "server-handler")


def shrink(case):
    f = case["line"].split()
    if f[0] in ("c12s", "c12r"):
        k = 5 if f[0] == "c12s" else 6
        head, ls = f[:k], f[k:]
        for i in range(len(ls)):
            yield dict(case, line=" ".join(head + ls[:i] + ls[i + 1:]))
        for i, l in enumerate(ls):
            b = bytes.fromhex(l[1:])
            if len(b) > 1:
                for nb in (b[:len(b) // 2], b[:-1]):
                    yield dict(case, line=" ".join(head + ls[:i] + [hx(nb)] + ls[i + 1:]))
    else:
        head, rs = f[:3], f[3:]
        for i in range(0, len(rs), 2):
            yield dict(case, line=" ".join(head + rs[:i] + rs[i + 2:]))
        for i in range(1, len(rs), 2):
            b = bytes.fromhex(rs[i][1:])
            if len(b) > 0:
                yield dict(case, line=" ".join(head + rs[:i] + [hx(b[:-1])] + rs[i + 1:]))


def distribution(cs):
    d = {"server": 0, "client": 0}
    cmds, types, nq, owner, under = {}, {}, {}, {}, {}
    for c in cs:
        t = c["tags"]
        if t.get("side") == "server":
            d["server"] += 1
            cmds[t["cmd"]] = cmds.get(t["cmd"], 0) + 1
            nq[str(t["nq"])] = nq.get(str(t["nq"]), 0) + 1
            owner[str(t["owner"])] = owner.get(str(t["owner"]), 0) + 1
            under[t["under"]] = under.get(t["under"], 0) + 1
        elif t.get("side") in ("client", "client-handshake"):
            d["client"] += 1
            types[t["types"]] = types.get(t["types"], 0) + 1
    d.update({"server_commands": cmds, "server_questions": nq, "server_from_owner": owner, "server_name_under": under,
              "client_record_type_sets": len(types)})
    return d


META = {
    "level_text": "Coq theorems that the modelled request decoder and server dispatcher (Wire/Requests.v, Srv/Server.v) and the client's answer "
                  "decoder (Wrap/Wrap.v unwrap, Wrap/Responses.v) never take the Panic outcome for any octet string / any answer section, that a "
                  "message from an address owning no session leaves every established session unchanged, and that the payload built for any "
                  "request is bounded by the fragment-size limit; the models are run against the real onMessage and the real decoder on wire-built "
                  "messages on every check, where crashes, allocation and a follow-up write are also measured directly.",
    "level_note": "Allocation and time are measured on the implementation only (runtime.MemStats, per-case time-out); the model bounds payload "
                  "sizes and chunk counts. miekg/dns Unpack decides which messages reach the handler (modelled without compression pointers). "
                  "The handler is called directly, below the recover() of handleRequest, so that a panic is observed and not swallowed. "
                  "sort.Slice is modelled as a stable insertion sort (exact for identical questions, which is what the harness sends); the expiry "
                  "sweep is not part of on_message (C13 covers it).",
    "technique": "Coq totality/frame proofs over decoder and dispatcher models + differential correspondence on wire-built messages",
}
