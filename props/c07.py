"""C07 - the DNS tunnel delivers every byte exactly once, in order."""
PID = "C07"
RULE = ("a case is a history over four real queues wired as SendAndReceive/packet() wire them: writes (1 byte .. 40 chunks, mtu in "
        "{1,7,100,200}), query formation, delivery of ANY earlier query to the server and of ANY earlier answer to the client "
        "(loss = never delivered, duplicates, late delivery, replay from far back), reads of 1..4096 bytes, starting sequence numbers "
        "uniform and near the wrap, followed by faithful exchanges; long pumped histories cross the 16-bit wrap in both directions. "
        "distinct_nontrivial = distinct histories with at least one write and one non-faithful delivery")
EXPLANATION = ("Props/C07.v: prefix/ordering, no false errors, stale messages harmless, acknowledged means delivered, progress and bounded "
               "memories, for all histories within the stated age bound and all starting numbers (the wrap is inside the quantifier). "
               "The run compares the Gallina queues with the real InQueue/OutQueue event by event and evaluates the property on the real "
               "queues' observations.")
TRUSTED = ["blocking and wake-up (waitEmptyQueue/waitNonEmtpyQueue notifier lists) are exercised but only sequentially modelled",
           "the queue-level wiring in the harness copies the three statements of SendAndReceive/packet(); the connection-level run (L2) "
           "uses the real functions"]
SHARDS = 3      # harness processes side by side (cases are independent)
RUN_TIMEOUT = 1200


def hx(b):
    return "#" + bytes(b).hex()


def gen_history(rng, length, stale_ok):
    ev = []
    nq = na = 0
    pend_q = None
    recent = True
    faults = 0
    writes = 0
    ctr = [rng.below(251)]

    def data(n):
        out = bytes((ctr[0] + i) % 251 for i in range(n))
        ctr[0] = (ctr[0] + n) % 251
        return out
    while len(ev) < length:
        r = rng.below(100)
        if r < 18:
            side = rng.below(2)
            mtu = rng.choice([1, 7, 100, 200])
            n = rng.weighted([(1, 3), (mtu, 3), (mtu + 1, 2), (rng.range(1, 40) * mtu, 2), (rng.range(1, 3 * mtu), 3)])
            n = min(n, 1500)
            ev.append("w %d %s %d" % (side, hx(data(n)), mtu))
            writes += 1
        elif r < 30:
            ev.append("r %d %d" % (rng.below(2), rng.choice([1, 2, 16, 100, 4096])))
        else:
            # an exchange with a fate
            ev.append("q")
            nq += 1
            fate = rng.weighted([("ok", 62), ("qlost", 8), ("alost", 8), ("qdup", 6), ("adup", 4), ("replay", 6), ("areplay", 3), ("late", 3)])
            if fate == "ok":
                ev.append("ds %d" % (nq - 1)); na += 1
                ev.append("dc %d" % (na - 1))
            elif fate == "qlost":
                faults += 1
            elif fate == "alost":
                ev.append("ds %d" % (nq - 1)); na += 1
                faults += 1
            elif fate == "qdup":
                ev.append("ds %d" % (nq - 1)); na += 1
                ev.append("ds %d" % (nq - 1)); na += 1
                ev.append("dc %d" % (na - 1))
                faults += 1
            elif fate == "adup":
                ev.append("ds %d" % (nq - 1)); na += 1
                ev.append("dc %d" % (na - 1))
                ev.append("dc %d" % (na - 1))
                faults += 1
            elif fate == "replay":
                if stale_ok and rng.chance(1, 2):
                    i = rng.below(nq)
                else:
                    i = max(0, nq - 1 - rng.below(40))
                if nq - 1 - i > 40:
                    recent = False
                ev.append("ds %d" % i); na += 1
                if rng.chance(1, 2):
                    ev.append("dc %d" % (na - 1))
                faults += 1
            elif fate == "areplay" and na > 0:
                if stale_ok and rng.chance(1, 2):
                    j = rng.below(na)
                else:
                    j = max(0, na - 1 - rng.below(40))
                if na - 1 - j > 40:
                    recent = False
                ev.append("dc %d" % j)
                faults += 1
            elif fate == "late":
                pend_q = nq - 1
                faults += 1
            if pend_q is not None and rng.chance(1, 3):
                ev.append("ds %d" % pend_q); na += 1
                ev.append("dc %d" % (na - 1))
                pend_q = None
    # the path stops losing: faithful exchanges until everything must have arrived
    ev.append("pump 0 %d 0 0" % (writes * 45 + 10))
    return ev, recent, faults, writes


def mk(c0, s0, ev, recent, faults, writes, src):
    line = "c07 %d %d %s" % (c0, s0, " ".join(ev))
    return {"line": line, "key": line if (faults > 0 and writes > 0) else None,
            "tags": {"src": src, "recent": recent, "faults": faults, "writes": writes, "len": len(ev), "drained": True}}


def start(rng):
    k = rng.below(4)
    if k == 0:
        return 0
    if k == 1:
        return rng.range(65400, 65535)
    return rng.below(65536)


def cases(tier, rng):
    thorough = tier == "thorough"
    cs = []
    for i in range(3000 if thorough else 350):
        stale_ok = rng.chance(1, 3)
        ln = rng.range(5, 2000 if thorough and rng.chance(1, 10) else 120)
        ev, recent, faults, writes = gen_history(rng, ln, stale_ok)
        cs.append(mk(start(rng), start(rng), ev, recent, faults, writes, "random-stale" if stale_ok else "random-recent"))
    # long histories across the wrap with sparse faults
    for (side, k) in ([(0, 70000), (1, 140000)] if not thorough else [(0, 70000), (1, 140000), (0, 140000), (1, 280000)]):
        c0, s0 = start(rng), start(rng)
        ev = []
        left = k
        nq = na = 0
        while left > 0:
            n = min(left, rng.range(2000, 20000))
            ev.append("pump %d %d %d %d" % (side, n, rng.choice([1, 3]), rng.below(251)))
            left -= n
            # a sparse fault: one lost query and one duplicated answer; message indices count pump traffic too
            nq += n
            na += n
            ev += ["q"]; nq += 1
            ev += ["q", "ds %d" % nq, "dc %d" % na, "dc %d" % na]; nq += 1; na += 1
        ev.append("pump %d 20 0 0" % side)
        cs.append(mk(c0, s0, ev, True, 2, k, "long-wrap"))
    # an old query replayed when it is more than 128 packets stale, then more than 65 536 further packets the same way: the stale
    # payload must not come back when the sequence numbers reach its number again
    for side in ((0, 1) if thorough else (rng.below(2),)):
        c0, s0 = rng.range(0, 60000), rng.range(0, 60000)      # (no wrap between the stale packet and its replay)
        ev = ["pump %d 200 3 5" % side, ("ds 10" if side == 0 else "dc 10"), ("ds 10" if side == 0 else "dc 10"),
              "pump %d 65700 3 9" % side, "pump %d 20 0 0" % side]
        cs.append(mk(c0, s0, ev, False, 2, 65900, "stale-then-wrap"))
    cs += l2_cases(rng, 300 if thorough else 40)
    # an outage that outlasts one write's whole retry ladder (every query lost, every answer lost, or the network down), then a
    # recovered path: what the failed write had accepted still arrives, and the following writes go through
    for kind in ("qlost", "alost", "neterr"):
        for n in ((5, 6, 8, 12) if thorough else (6, 12)):
            for side in ("cw", "sw"):
                d1 = bytes(range(10, 10 + 24))
                d2 = bytes(range(60, 60 + 9))
                ops = ["%s %s" % (side, hx(d1)), "settle 600", "%s %s" % (side, hx(d2)), "%s %s" % ("sw" if side == "cw" else "cw", hx(b"\x07\x08")), "%s %s" % (side, hx(b"\x63"))]
                fates = [kind] * (n if kind != "neterr" else 1 + n // 6)
                line = "c07l2 %d %d fates %d %s %s" % (start(rng), start(rng), len(fates), " ".join(fates), " ".join(ops))
                cs.append({"line": line, "model": False, "key": line,
                           "tags": {"src": "l2-outage", "recent": True, "faults": len(fates), "writes": len(ops), "len": len(ops) + len(fates), "burst": True}})
    # the wrap at connection level: server out-queue starts just below the wrap
    cs.append({"line": "c07l2 65500 65500 fates 0 " + " ".join("sw %s cw %s" % (hx(bytes([i % 251] * 3)), hx(bytes([(i + 7) % 251] * 2))) for i in range(60)),
               "model": False, "key": "l2-wrap", "tags": {"src": "l2-connection", "recent": True, "faults": 0, "writes": 120, "len": 120}})
    # the out-queues inside the real connection objects (not alone): a Write that returns success has had its chunks acknowledged, also when
    # the connection is closed under it and also when a write deadline is set (the writer scripts of C17's close protocol; implementation only)
    from . import c17 as _c17
    for c in _c17.close_cases(tier, core_rng_fork(rng)):
        if c["line"].startswith("c17q") and c["tags"]["variant"].startswith("writer"):
            cs.append(dict(c, model=False, tags=dict(c["tags"], src="connection-writers", len=c["tags"]["n"])))
    return cs


def l2_cases(rng, count):
    cs = []
    for idx in range(count):
        nf = rng.range(0, 25)
        fates = []
        run = 0
        burst = idx % 3 == 2     # every third scenario has bursts that exhaust the retry ladder, or a non-timeout error
        for _ in range(nf):
            f = rng.weighted([("ok", 6), ("qlost", 2), ("alost", 2), ("qdup", 1), ("stale", 1)])
            if f in ("qlost", "alost"):
                run += 1
                if run > 3:      # at most three consecutive losses: the five-step retry ladder must absorb them
                    f = "ok"
                    run = 0
            else:
                run = 0
            fates.append(f)
        if burst:
            at = rng.below(len(fates) + 1)
            ins = [rng.choice(["qlost", "alost"]) for _ in range(rng.range(5, 7))] if rng.chance(2, 3) else ["neterr"]
            fates = fates[:at] + ins + fates[at:]
        ops = []
        ctr = rng.below(200)
        for _ in range(rng.range(1, 8)):
            side = rng.choice(["cw", "cw", "sw"])
            n = rng.weighted([(1, 3), (rng.range(2, 60), 4), (rng.range(150, 700), 2)])
            d = bytes(((ctr + i) % 251) for i in range(n))
            ctr += n
            ops.append("%s %s" % (side, hx(d)))
        line = "c07l2 %d %d fates %d %s %s" % (start(rng), start(rng), len(fates), " ".join(fates), " ".join(ops))
        line = " ".join(line.split())
        nfault = sum(1 for f in fates if f != "ok")
        cs.append({"line": line, "model": False, "key": line if nfault else None,
                   "tags": {"src": "l2-burst" if burst else "l2-connection", "recent": True, "faults": nfault, "writes": len(ops),
                            "len": len(ops) + len(fates), "burst": burst}})
    return cs


def oracle_l2(case, impl):
    p = impl.split()
    if len(p) < 2 or p[0] != "hs":
        return [("crash", "connection-level scenario could not run: " + impl[:200])]
    if p[1] != "ok":
        return [("l2-handshake", "handshake over a transparent path failed: " + impl[:100])]
    toks = case["line"].split()
    ops = toks[toks.index("fates") + 1 + int(toks[toks.index("fates") + 1]) + 1:]
    # (a `settle <ms>` operation produces no observation)
    ops = [x for j in range(0, len(ops), 2) if ops[j] != "settle" for x in ops[j:j + 2]]
    acc = {"cw": b"", "sw": b""}
    out = []
    i = 2
    k = 0
    while i < len(p) and p[i] != "final":
        side, n, err = p[i], int(p[i + 1]), int(p[i + 2])
        data = bytes.fromhex(ops[2 * k + 1][1:])
        if n < 0:
            return out + [("l2-write-hangs", "Write never returned although the path stopped losing (stalled tunnel)")]
        acc[side] += data[:max(0, n)]
        if err == 1 and not case.get("tags", {}).get("burst"):
            out.append(("l2-loss-surfaced", "isolated losses (at most three in a row) made Write fail with n=%d of %d" % (n, len(data))))
        i += 3
        k += 1
    if i >= len(p):
        return [("crash", "no final observation: " + impl[:200])]
    rdc = bytes.fromhex(p[i + 1][1:])
    rds = bytes.fromhex(p[i + 2][1:])
    if not acc["cw"].startswith(rds):
        out.append(("l2-order;dir=c2s", "the server read bytes that are not a prefix of what the client's writes reported as accepted (%d read, %d accepted)" % (len(rds), len(acc["cw"]))))
    elif rds != acc["cw"]:
        out.append(("l2-no-progress;dir=c2s", "after the path stopped losing only %d of %d accepted bytes arrived at the server" % (len(rds), len(acc["cw"]))))
    if not acc["sw"].startswith(rdc):
        out.append(("l2-order;dir=s2c", "the client read bytes that are not a prefix of what the server's writes accepted (%d read, %d accepted)" % (len(rdc), len(acc["sw"]))))
    elif rdc != acc["sw"]:
        out.append(("l2-no-progress;dir=s2c", "after the path stopped losing only %d of %d accepted bytes arrived at the client" % (len(rdc), len(acc["sw"]))))
    return out


def parse_end(p):
    i = len(p) - 1 - p[::-1].index("end")
    f = p[i + 1:]
    d = {"cin": int(f[0]), "cout": int(f[1]), "sin": int(f[2]), "sout": int(f[3]), "col": int(f[4]), "sol": int(f[5]),
         "cfut": int(f[6]), "sfut": int(f[7]), "cia": int(f[8]), "sia": int(f[9]), "coa": int(f[10]), "soa": int(f[11]),
         "cbuf": bytes.fromhex(f[12][1:]), "sbuf": bytes.fromhex(f[13][1:]), "rdc": bytes.fromhex(f[14][1:]),
         "rds": bytes.fromhex(f[15][1:]), "accc": bytes.fromhex(f[16][1:]), "accs": bytes.fromhex(f[17][1:]),
         "lostc": int(f[18]), "losts": int(f[19])}
    return d, p[:i]


def core_rng_fork(rng):
    return rng.fork() if hasattr(rng, "fork") else rng


def oracle(case, impl):
    p = impl.split()
    if case["line"].startswith("c17q"):
        from . import c17 as _c17
        if not p or p[0] in ("panic", "died", "timeout", "harness-error", "setup"):
            return [("crash", "connection-level writer script crashed: " + impl[:200])]
        return [(sig, msg) for sig, msg in _c17.oracle_q(case, impl) if sig.startswith("write-ok-without-ack")]
    if case["line"].startswith("c07l2"):
        if not p or p[0] in ("panic", "died", "timeout", "harness-error"):
            return [("crash", "connection-level scenario crashed: " + impl[:200])]
        return oracle_l2(case, impl)
    if not p or p[0] in ("panic", "died", "timeout", "harness-error") or "end" not in p:
        return [("crash", "history could not be run: " + impl[:200])]
    d, body = parse_end(p)
    t = case.get("tags", {})
    out = []
    if not d["accc"].startswith(d["rds"] + d["sbuf"]):
        out.append(("order;dir=c2s", "server-side bytes are not a prefix of what the client's writes accepted (%d read+buffered of %d accepted)" % (len(d["rds"]) + len(d["sbuf"]), len(d["accc"]))))
    if not d["accs"].startswith(d["rdc"] + d["cbuf"]):
        out.append(("order;dir=s2c", "client-side bytes are not a prefix of what the server's writes accepted (%d of %d)" % (len(d["rdc"]) + len(d["cbuf"]), len(d["accs"]))))
    if d["lostc"] or d["losts"]:
        out.append(("acked-not-delivered;wrap=%d" % (1 if len(d["accc"]) + len(d["accs"]) > 60000 else 0),
                    "a Write returned (its queue drained) while accepted bytes had not reached the peer: lost_c=%d lost_s=%d" % (d["lostc"], d["losts"])))
    if t.get("drained", True) and "stuck" not in body:
        if d["col"] or d["sol"] or d["rds"] + d["sbuf"] != d["accc"] or d["rdc"] + d["cbuf"] != d["accs"]:
            out.append(("no-progress", "after the path stopped losing not everything arrived: out queues %d/%d, c2s %d of %d, s2c %d of %d" %
                        (d["col"], d["sol"], len(d["rds"]) + len(d["sbuf"]), len(d["accc"]), len(d["rdc"]) + len(d["cbuf"]), len(d["accs"]))))
    if max(d["cia"], d["sia"], d["coa"], d["soa"]) > 256 or max(d["cfut"], d["sfut"]) > 127:
        out.append(("memory", "acknowledgement memory or future store grew: %r" % ({k: d[k] for k in ("cia", "sia", "coa", "soa", "cfut", "sfut")},)))
    if t.get("recent", False):
        for i in range(len(body) - 1):
            if (body[i] == "s" and body[i + 1] == "1") or (body[i] == "c" and body[i + 1] in ("1", "2")):
                out.append(("false-error", "loss/duplication/late delivery within 40 messages surfaced as an error (%s %s)" % (body[i], body[i + 1])))
                break
    return out


def shrink(case):
    if case["line"].startswith("c17q"):
        from . import c17 as _c17
        for c in _c17.shrink(case):
            yield dict(c, model=False)
        return
    if case["line"].startswith("c07l2"):
        return
    toks = case["line"].split()
    head, ev = toks[:3], []
    i = 3
    while i < len(toks):
        n = {"w": 4, "q": 1, "ds": 2, "dc": 2, "r": 3, "pump": 5}[toks[i]]
        ev.append(toks[i:i + n])
        i += n
    # removing an event shifts message indices: only try removing reads, writes and trailing events
    for k in range(len(ev) - 1, -1, -1):
        if ev[k][0] in ("r", "w") or k == len(ev) - 2:
            e2 = ev[:k] + ev[k + 1:]
            yield {"line": " ".join(head + [x for e in e2 for x in e]), "tags": dict(case.get("tags", {}), recent=False, drained=case.get("tags", {}).get("drained", True))}


def distribution(cs):
    d = {}
    for c in cs:
        t = c.get("tags") or {}
        k = "%s/len<%d" % (t.get("src", "corpus"), 10 ** len(str(t.get("len", len(c["line"].split())))))
        d[k] = d.get(k, 0) + 1
    return d


META = {
    "level_text": "Coq theorems over a faithful model of InQueue/OutQueue and of the client/server wiring, with a network that may deliver any "
                  "earlier query or answer at any later time: the bytes read are a prefix of the bytes accepted in both directions, for runs "
                  "of any length (the 16-bit wrap is inside the quantifier) and all starting numbers, under an explicit message-age bound; "
                  "a drained Write means delivered; faithful exchanges make progress. The model is run event by event against the real queues.",
    "level_note": "Age bound: a message replayed 65 408+ packets late is indistinguishable from a fresh one with 16-bit numbers; the theorem "
                  "states the bound. Blocking/wake-up is modelled sequentially only. The real UDP communicator never yields smux.ErrTimeout, "
                  "so the retry ladder of SendAndReceive is dead over a real socket (finding, see DESIGN.md).",
    "technique": "Coq invariant proof over a queue/link model with an adversarial network + event-by-event differential correspondence",
}
