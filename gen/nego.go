package main

import (
	"go/ast"
	"go/token"
	"math/big"
	"strings"
)

func init() {
	emitters = append(emitters, func() *coqFile {
		f := newCoq("Nego")
		fd := findFunc(dnsDir, "ClientDnsConnection", "AutodetectFragmentSize")
		// constants of the probe: first proposal, upper end of the range, the thresholds
		var proposed, upper *big.Int
		ast.Inspect(fd.Body, func(n ast.Node) bool {
			if vs, ok := n.(*ast.ValueSpec); ok {
				for i, id := range vs.Names {
					if i >= len(vs.Values) {
						continue
					}
					switch id.Name {
					case "proposed":
						proposed = evalInt(dnsDir, vs.Values[i])
					case "fragmentRange":
						if be, ok := vs.Values[i].(*ast.BinaryExpr); ok && be.Op == token.SUB {
							upper = evalInt(dnsDir, be.X)
						}
					}
				}
			}
			return true
		})
		if proposed == nil || upper == nil {
			die("AutodetectFragmentSize: initial proposal / range not found")
		}
		f.defN("frag_first_proposal", proposed, pos(fd))
		f.defN("frag_range_top", upper, pos(fd))
		// where is the search step (fragmentRange >> 1)? nesting depth in for statements: 1 = outer loop, 2 = inside the retry loop
		depth := 0
		var walk func(n ast.Node, d int)
		walk = func(n ast.Node, d int) {
			ast.Inspect(n, func(m ast.Node) bool {
				switch x := m.(type) {
				case *ast.ForStmt:
					if x != n {
						walk(x.Body, d+1)
						return false
					}
				case *ast.AssignStmt:
					if len(x.Lhs) == 1 && exprText(x.Lhs[0]) == "fragmentRange" && strings.Contains(exprText(x.Rhs[0]), ">>") {
						depth = d
					}
				}
				return true
			})
		}
		walk(fd.Body, 0)
		if depth == 0 {
			die("AutodetectFragmentSize: the halving of fragmentRange was not found")
		}
		f.defBool("frag_step_outside_retry_loop", depth == 1, "fragmentRange >> 1 at for-nesting depth "+big.NewInt(int64(depth)).String())
		// thresholds compared with max after the loop
		var lits []string
		ast.Inspect(fd.Body, func(n ast.Node) bool {
			be, ok := n.(*ast.BinaryExpr)
			if ok && (be.Op == token.LSS || be.Op == token.LEQ) && exprText(be.X) == "max" {
				lits = append(lits, exprText(be.Y))
			}
			return true
		})
		f.raw("(* comparisons of max: " + strings.Join(lits, ", ") + " *)\n")
		// the codec ladders
		for _, x := range []struct{ fn, name string }{{"AutodetectEncodingUpstream", "upstream_ladder"}, {"AutodetectEncodingDowntream", "downstream_ladder"}} {
			g := findFunc(dnsDir, "ClientDnsConnection", x.fn)
			var codes []string
			ast.Inspect(g.Body, func(n ast.Node) bool {
				rs, ok := n.(*ast.RangeStmt)
				if !ok {
					return true
				}
				cl, ok := rs.X.(*ast.CompositeLit)
				if !ok || !strings.Contains(exprText(cl.Type), "Encoder") {
					return true
				}
				for _, el := range cl.Elts {
					se, ok := el.(*ast.SelectorExpr)
					if !ok {
						die("%s: ladder element %s", x.fn, exprText(el))
					}
					v := findValue(encDir, se.Sel.Name)
					ty := v.(*ast.UnaryExpr).X.(*ast.CompositeLit).Type.(*ast.Ident).Name
					codes = append(codes, evalInt(encDir, singleReturn(findFunc(encDir, ty, "Code"))).String())
				}
				return false
			})
			if len(codes) == 0 {
				die("%s: codec ladder not found", x.fn)
			}
			f.raw("Definition " + x.name + " : list N := [" + strings.Join(codes, "; ") + "]. (* " + pos(g) + " *)\n")
		}
		// test patterns that are literals
		for _, c := range codecs {
			fdp := findFunc(encDir, c.goType, "TestPatterns")
			var pats [][]byte
			lit := true
			if len(fdp.Body.List) == 1 {
				if rs, ok := fdp.Body.List[0].(*ast.ReturnStmt); ok {
					if cl, ok := rs.Results[0].(*ast.CompositeLit); ok {
						for _, el := range cl.Elts {
							func() {
								defer func() {
									if r := recover(); r != nil {
										lit = false
									}
								}()
								pats = append(pats, []byte(evalString(encDir, el)))
							}()
						}
					} else {
						lit = false
					}
				} else {
					lit = false
				}
			} else {
				lit = false
			}
			if lit {
				f.defBytesList("patterns_"+c.coq, pats, pos(fdp))
			} else {
				f.raw("(* patterns_" + c.coq + ": computed at run time in " + pos(fdp) + " *)\n")
			}
		}
		dcc := findValue(dnsUtilDir, "DownloadCodecCheck")
		f.defBytes("download_codec_check", []byte(evalString(dnsUtilDir, dcc)), pos(dcc))
		return f
	})
}
