package main

import (
	"go/ast"
	"go/token"
	"math/big"
	"sort"
	"strings"
)

// Gen/HandlerShape.v: what the model of the server's per-session handler and of the piping of one logical connection (Mux/Handler.v)
// takes from the source text. Readings are by ROLE (the accepted stream, the goroutine's own parameter, a variable declared outside the
// loop, PipeData's first / second parameter, the report channel fed from the first parameter ...), never by identifier spelling or by
// whole function bodies, so that renamed locals, reworded log lines and if/else written as switch leave them unchanged.

// closeArg: `TryClose(x)`, `LogClose(x)`, `pkg.TryClose(x)` or `x.Close()` -> the text of x
func closeArg(n ast.Node) (string, bool) {
	call, ok := n.(*ast.CallExpr)
	if !ok {
		return "", false
	}
	name := ""
	var recv ast.Expr
	switch f := call.Fun.(type) {
	case *ast.Ident:
		name = f.Name
	case *ast.SelectorExpr:
		name = f.Sel.Name
		recv = f.X
	}
	if (name == "TryClose" || name == "LogClose") && len(call.Args) == 1 {
		return exprText(call.Args[0]), true
	}
	if name == "Close" && len(call.Args) == 0 && recv != nil {
		return exprText(recv), true
	}
	return "", false
}

// closesIn lists, in source order, the arguments of every close call under n (function literals included)
func closesIn(n ast.Node) []string {
	var out []string
	ast.Inspect(n, func(m ast.Node) bool {
		if a, ok := closeArg(m); ok {
			out = append(out, a)
		}
		return true
	})
	return out
}

func calleeName(call *ast.CallExpr) string {
	switch f := call.Fun.(type) {
	case *ast.Ident:
		return f.Name
	case *ast.SelectorExpr:
		return f.Sel.Name
	}
	return ""
}

// findCall: the first call of a function / method with this name under n
func findCall(n ast.Node, name string) *ast.CallExpr {
	var found *ast.CallExpr
	ast.Inspect(n, func(m ast.Node) bool {
		if found != nil {
			return false
		}
		if c, ok := m.(*ast.CallExpr); ok && calleeName(c) == name {
			found = c
			return false
		}
		return true
	})
	return found
}

func mentions(e ast.Node, names map[string]bool) bool {
	hit := false
	ast.Inspect(e, func(m ast.Node) bool {
		if id, ok := m.(*ast.Ident); ok && names[id.Name] {
			hit = true
		}
		return true
	})
	return hit
}

func paramNames(ft *ast.FuncType) []string {
	var out []string
	if ft.Params == nil {
		return out
	}
	for _, fl := range ft.Params.List {
		for _, n := range fl.Names {
			out = append(out, n.Name)
		}
	}
	return out
}

// declaredIn: identifiers declared by the statements of a block at its top level (var declarations and := )
func declaredIn(stmts []ast.Stmt) map[string]bool {
	out := map[string]bool{}
	for _, st := range stmts {
		switch v := st.(type) {
		case *ast.DeclStmt:
			if gd, ok := v.Decl.(*ast.GenDecl); ok {
				for _, sp := range gd.Specs {
					if vs, ok := sp.(*ast.ValueSpec); ok {
						for _, n := range vs.Names {
							out[n.Name] = true
						}
					}
				}
			}
		case *ast.AssignStmt:
			if v.Tok == token.DEFINE {
				for _, l := range v.Lhs {
					if id, ok := l.(*ast.Ident); ok {
						out[id.Name] = true
					}
				}
			}
		}
	}
	return out
}

// errorBranch: what a branch taken on an accept error does: its closes (by role) and how it leaves
type errorBranch struct {
	found   bool
	actions []string
	leave   string // return | continue | break | falls-through
}

func (b errorBranch) text() string {
	if !b.found {
		return "(none)"
	}
	return strings.Join(append(append([]string{}, b.actions...), b.leave), ";")
}

func branchOf(body []ast.Stmt, sessionRole func(string) string) errorBranch {
	b := errorBranch{found: true, leave: "falls-through"}
	for _, st := range body {
		switch v := st.(type) {
		case *ast.ReturnStmt:
			b.leave = "return"
			return b
		case *ast.BranchStmt:
			if v.Tok == token.CONTINUE {
				b.leave = "continue"
				return b
			}
			if v.Tok == token.BREAK {
				b.leave = "break"
				return b
			}
		default:
			for _, a := range closesIn(st) {
				b.actions = append(b.actions, "close:"+sessionRole(a))
			}
		}
	}
	return b
}

// errValues: the error values an expression compares errVar with by ==, joined by || ; other == "other" for `errVar != nil`
func errValues(cond ast.Expr, errVar string) (vals []string, other bool, ok bool) {
	switch c := cond.(type) {
	case *ast.ParenExpr:
		return errValues(c.X, errVar)
	case *ast.BinaryExpr:
		switch c.Op {
		case token.LOR:
			v1, o1, k1 := errValues(c.X, errVar)
			v2, o2, k2 := errValues(c.Y, errVar)
			return append(v1, v2...), o1 || o2, k1 && k2
		case token.EQL:
			if exprText(c.X) == errVar {
				return []string{exprText(c.Y)}, false, true
			}
			if exprText(c.Y) == errVar {
				return []string{exprText(c.X)}, false, true
			}
		case token.NEQ:
			if (exprText(c.X) == errVar && exprText(c.Y) == "nil") || (exprText(c.Y) == errVar && exprText(c.X) == "nil") {
				return nil, true, true
			}
		}
	case *ast.CallExpr: // errors.Is(err, X)
		if calleeName(c) == "Is" && len(c.Args) == 2 && exprText(c.Args[0]) == errVar {
			return []string{exprText(c.Args[1])}, false, true
		}
	}
	return nil, false, false
}

// pipeWalk runs the statements of a select case of PipeData for a report that is / is not io.EOF
type pipeOutcome struct {
	closes   []string
	returned bool
	retErr   bool
}

func isEOFTest(cond ast.Expr, errVar string) (eq bool, ok bool) {
	b, isBin := cond.(*ast.BinaryExpr)
	if p, isP := cond.(*ast.ParenExpr); isP {
		return isEOFTest(p.X, errVar)
	}
	if !isBin {
		if c, isCall := cond.(*ast.CallExpr); isCall && calleeName(c) == "Is" && len(c.Args) == 2 && exprText(c.Args[0]) == errVar && exprText(c.Args[1]) == "io.EOF" {
			return true, true
		}
		if u, isU := cond.(*ast.UnaryExpr); isU && u.Op == token.NOT {
			e, k := isEOFTest(u.X, errVar)
			return !e, k
		}
		return false, false
	}
	x, y := exprText(b.X), exprText(b.Y)
	if !((x == errVar && y == "io.EOF") || (y == errVar && x == "io.EOF")) {
		return false, false
	}
	if b.Op == token.EQL {
		return true, true
	}
	if b.Op == token.NEQ {
		return false, true
	}
	return false, false
}

func pipeWalk(stmts []ast.Stmt, errVar string, isEOF bool, roles map[string]string, out *pipeOutcome, where string) {
	for _, st := range stmts {
		if out.returned {
			return
		}
		switch v := st.(type) {
		case *ast.ExprStmt:
			if a, ok := closeArg(v.X); ok {
				out.closes = append(out.closes, roleName(roles, a))
			}
		case *ast.ReturnStmt:
			out.returned = true
			out.retErr = len(v.Results) == 1 && exprText(v.Results[0]) != "nil"
		case *ast.BlockStmt:
			pipeWalk(v.List, errVar, isEOF, roles, out, where)
		case *ast.IfStmt:
			eq, ok := isEOFTest(v.Cond, errVar)
			if !ok {
				die("PipeData (%s): cannot read the condition %q as a test of the report against io.EOF", where, exprText(v.Cond))
			}
			if eq == isEOF {
				pipeWalk(v.Body.List, errVar, isEOF, roles, out, where)
			} else if v.Else != nil {
				pipeWalk([]ast.Stmt{v.Else}, errVar, isEOF, roles, out, where)
			}
		case *ast.SwitchStmt:
			taken := false
			var deflt *ast.CaseClause
			for _, c := range v.Body.List {
				cc := c.(*ast.CaseClause)
				if cc.List == nil {
					deflt = cc
					continue
				}
				for _, e := range cc.List {
					match := false
					if v.Tag != nil && exprText(v.Tag) == errVar {
						match = (exprText(e) == "io.EOF") == isEOF && exprText(e) == "io.EOF"
					} else if v.Tag == nil {
						eq, ok := isEOFTest(e, errVar)
						if !ok {
							die("PipeData (%s): cannot read the case %q as a test of the report against io.EOF", where, exprText(e))
						}
						match = eq == isEOF
					} else {
						die("PipeData (%s): switch on %q", where, exprText(v.Tag))
					}
					if match && !taken {
						taken = true
						pipeWalk(cc.Body, errVar, isEOF, roles, out, where)
					}
				}
			}
			if !taken && deflt != nil {
				pipeWalk(deflt.Body, errVar, isEOF, roles, out, where)
			}
		}
	}
}

// roleSet: the roles as a sorted set (the order of two closes is not a reading)
func roleSet(l []string) string {
	seen := map[string]bool{}
	var out []string
	for _, x := range l {
		if !seen[x] {
			seen[x] = true
			out = append(out, x)
		}
	}
	sort.Strings(out)
	return strings.Join(out, ";")
}

func hasRole(l []string, r string) bool {
	for _, x := range l {
		if x == r {
			return true
		}
	}
	return false
}

func init() {
	emitters = append(emitters, func() *coqFile {
		f := newCoq("HandlerShape")
		f.raw("From Coq Require Import String.\nOpen Scope string_scope.\n")
		str := func(name, v, src string) {
			f.raw("Definition " + name + " : string := \"" + coqStr(v) + "\". (* " + src + " *)\n")
		}

		// ---- HandleConnection: the accept loop runs on its own goroutine
		hc := findFunc(serverDir, "ConnectionHandler", "HandleConnection")
		inGo, found := callInGo(hc, "acceptStream")
		if !found {
			die("HandleConnection: call of acceptStream not found")
		}
		f.defBool("handle_connection_starts_accept_loop", inGo, pos(hc))

		// ---- acceptStream
		as := findFunc(serverDir, "ConnectionHandler", "acceptStream")
		var loop *ast.ForStmt
		var before []ast.Stmt
		for i, st := range as.Body.List {
			if fs, ok := st.(*ast.ForStmt); ok {
				loop = fs
				before = as.Body.List[:i]
				break
			}
		}
		if loop == nil {
			die("acceptStream at %s: no for loop at the top level of the body", pos(as))
		}
		outer := declaredIn(before)
		// the statement `x, err := <..>.AcceptStream()`
		acceptIdx := -1
		var accVar, errVar string
		for i, st := range loop.Body.List {
			a, ok := st.(*ast.AssignStmt)
			if !ok || len(a.Rhs) != 1 || len(a.Lhs) != 2 {
				continue
			}
			if c, ok := a.Rhs[0].(*ast.CallExpr); ok && calleeName(c) == "AcceptStream" {
				acceptIdx, accVar, errVar = i, exprText(a.Lhs[0]), exprText(a.Lhs[1])
				break
			}
		}
		if acceptIdx < 0 {
			die("acceptStream at %s: no `x, err := ....AcceptStream()` in the loop body", pos(as))
		}
		// a semaphore taken before AcceptStream
		slotChan := ""
		for _, st := range loop.Body.List[:acceptIdx] {
			if s, ok := st.(*ast.SendStmt); ok {
				slotChan = exprText(s.Chan)
			}
		}
		// which variables hold the stream accepted in this iteration (the accepted value itself, and whatever is computed from it)
		holds := map[string]bool{accVar: true}
		var goStmt *ast.GoStmt
		quiet, other := errorBranch{}, errorBranch{}
		var quietVals []string
		sessionRole := func(a string) string {
			if strings.HasSuffix(a, ".session") || a == "session" {
				return "session"
			}
			if holds[a] {
				return "accepted"
			}
			return a
		}
		takeBranch := func(cond ast.Expr, body []ast.Stmt) {
			vals, oth, ok := errValues(cond, errVar)
			if !ok {
				return
			}
			b := branchOf(body, sessionRole)
			if oth {
				other = b
			} else {
				quiet = b
				quietVals = append(quietVals, vals...)
			}
		}
		for _, st := range loop.Body.List[acceptIdx+1:] {
			switch v := st.(type) {
			case *ast.AssignStmt:
				if len(v.Rhs) == 1 && mentions(v.Rhs[0], holds) {
					for _, l := range v.Lhs {
						if id, ok := l.(*ast.Ident); ok {
							holds[id.Name] = true
						}
					}
				}
			case *ast.IfStmt:
				var cur ast.Stmt = v
				for cur != nil {
					ifs, ok := cur.(*ast.IfStmt)
					if !ok {
						break
					}
					if mentions(ifs.Cond, map[string]bool{errVar: true}) {
						takeBranch(ifs.Cond, ifs.Body.List)
					}
					cur = ifs.Else
				}
			case *ast.SwitchStmt:
				for _, c := range v.Body.List {
					cc := c.(*ast.CaseClause)
					if v.Tag != nil && exprText(v.Tag) == errVar {
						if cc.List == nil {
							other = branchOf(cc.Body, sessionRole)
							continue
						}
						var vals []string
						isNil := false
						for _, e := range cc.List {
							if exprText(e) == "nil" {
								isNil = true
							} else {
								vals = append(vals, exprText(e))
							}
						}
						if !isNil {
							quiet = branchOf(cc.Body, sessionRole)
							quietVals = append(quietVals, vals...)
						}
					} else if v.Tag == nil {
						for _, e := range cc.List {
							if mentions(e, map[string]bool{errVar: true}) {
								takeBranch(e, cc.Body)
							}
						}
					}
				}
			case *ast.GoStmt:
				if findCall(v.Call, "multiplexToUpstream") != nil {
					goStmt = v
				}
			}
		}
		if goStmt == nil {
			die("acceptStream at %s: no `go` statement that calls multiplexToUpstream in the loop body", pos(as))
		}
		if !other.found {
			die("acceptStream at %s: no branch for `%s != nil` after AcceptStream", pos(as), errVar)
		}
		if !quiet.found { // every error takes the same branch
			quiet = other
		}
		sort.Strings(quietVals)
		// the goroutine: its own stream is its parameter (or, without a parameter, a variable of this iteration)
		lit, isLit := goStmt.Call.Fun.(*ast.FuncLit)
		own := map[string]bool{}
		argText, argOK := "(none)", false
		if isLit {
			ps := paramNames(lit.Type)
			if len(ps) == 1 && len(goStmt.Call.Args) == 1 {
				own[ps[0]] = true
				if id, ok := goStmt.Call.Args[0].(*ast.Ident); ok && holds[id.Name] {
					argText, argOK = "accepted", true
				} else {
					argText = exprText(goStmt.Call.Args[0])
				}
			} else if len(ps) == 0 {
				inLoop := declaredIn(loop.Body.List)
				for n := range holds {
					if inLoop[n] && !outer[n] {
						own[n] = true
					}
				}
				argText, argOK = "captured", len(own) > 0
			} else {
				die("acceptStream at %s: the per-stream goroutine takes %d parameters", pos(as), len(ps))
			}
		} else {
			die("acceptStream at %s: the per-stream goroutine is not a function literal", pos(as))
		}
		served := findCall(lit.Body, "multiplexToUpstream")
		servesOwn := len(served.Args) == 1 && own[exprText(served.Args[0])]
		// the error path: closes inside the literal that are not the call itself
		errCloses := closesIn(lit.Body)
		errRole, errOwn := "none", false
		if len(errCloses) > 0 {
			errOwn = true
			var rs []string
			for _, a := range errCloses {
				switch {
				case own[a]:
					rs = append(rs, "param")
				case outer[a]:
					rs = append(rs, "outer")
					errOwn = false
				default:
					rs = append(rs, a)
					errOwn = false
				}
			}
			errRole = roleSet(rs)
		}
		str("accept_goroutine_argument", argText, pos(goStmt))
		f.defBool("accept_goroutine_gets_accepted_stream", argOK && servesOwn, "the goroutine serves the stream accepted in this iteration: "+pos(goStmt))
		str("accept_error_path_closes", errRole, pos(goStmt))
		f.defBool("accept_error_path_closes_own_param", errOwn, "param = the goroutine's own stream; outer = a variable declared outside the loop: "+pos(goStmt))
		str("accept_quiet_errors", strings.Join(quietVals, ";"), pos(as))
		str("accept_quiet_branch", quiet.text(), pos(as))
		str("accept_other_error_branch", other.text(), pos(as))
		terminal := func(b errorBranch) bool { return b.leave == "return" || b.leave == "break" }
		f.defBool("accept_quiet_error_returns", terminal(quiet), pos(as))
		f.defBool("accept_other_error_returns", terminal(other), pos(as))
		f.defBool("accept_other_error_closes_session", hasRole(other.actions, "close:session"), pos(as))
		f.defBool("accept_loop_continues", quiet.leave == "continue" || other.leave == "continue", pos(as))
		// the semaphore, if any
		mu := findFunc(serverDir, "ConnectionHandler", "multiplexToUpstream")
		capacity := big.NewInt(0)
		releasedOnErr := true
		if slotChan != "" {
			ast.Inspect(hc.Body, func(n ast.Node) bool {
				a, ok := n.(*ast.AssignStmt)
				if !ok || len(a.Lhs) != 1 || len(a.Rhs) != 1 || exprText(a.Lhs[0]) != slotChan {
					return true
				}
				if c, ok := a.Rhs[0].(*ast.CallExpr); ok && calleeName(c) == "make" && len(c.Args) == 2 {
					capacity = evalInt(serverDir, c.Args[1])
				}
				return true
			})
			if capacity.Sign() == 0 {
				die("acceptStream at %s: sends on %s before AcceptStream, but its capacity is not set in HandleConnection", pos(as), slotChan)
			}
			releasedOnErr = false
			ast.Inspect(mu.Body, func(n ast.Node) bool {
				if d, ok := n.(*ast.DeferStmt); ok {
					ast.Inspect(d.Call, func(m ast.Node) bool {
						if u, ok := m.(*ast.UnaryExpr); ok && u.Op == token.ARROW && exprText(u.X) == slotChan {
							releasedOnErr = true
						}
						return true
					})
				}
				return true
			})
		}
		f.defN("accept_slot_capacity", capacity, "a send on a channel of the handler before AcceptStream: "+pos(as))
		f.defBool("handler_slot_released_on_error_paths", releasedOnErr, "the slot is given back in a deferred call of multiplexToUpstream: "+pos(mu))

		// ---- multiplexToUpstream: the deferred close acts on the parameter
		mps := paramNames(mu.Type)
		if len(mps) != 1 {
			die("multiplexToUpstream at %s: expected one parameter", pos(mu))
		}
		var deferred []string
		for _, st := range mu.Body.List {
			if d, ok := st.(*ast.DeferStmt); ok {
				for _, a := range closesIn(d.Call) {
					if a == mps[0] {
						deferred = append(deferred, "param")
					} else {
						deferred = append(deferred, a)
					}
				}
			}
		}
		dtext := "none"
		if len(deferred) > 0 {
			dtext = roleSet(deferred)
		}
		str("mux_deferred_close", dtext, pos(mu))
		f.defBool("mux_deferred_close_on_param", hasRole(deferred, "param"), pos(mu))

		// ---- muxHandler
		mh := findFunc(serverDir, "ConnectionHandler", "muxHandler")
		hps := paramNames(mh.Type)
		if len(hps) != 2 {
			die("muxHandler at %s: expected two parameters", pos(mh))
		}
		var dialAssign *ast.AssignStmt
		var dialBlock []ast.Stmt
		var findDial func(stmts []ast.Stmt)
		findDial = func(stmts []ast.Stmt) {
			for _, st := range stmts {
				if dialAssign != nil {
					return
				}
				switch v := st.(type) {
				case *ast.AssignStmt:
					if len(v.Rhs) == 1 {
						if c, ok := v.Rhs[0].(*ast.CallExpr); ok && calleeName(c) == "OpenConnection" {
							dialAssign, dialBlock = v, stmts
						}
					}
				case *ast.RangeStmt:
					findDial(v.Body.List)
				case *ast.ForStmt:
					findDial(v.Body.List)
				case *ast.IfStmt:
					findDial(v.Body.List)
				case *ast.BlockStmt:
					findDial(v.List)
				case *ast.SwitchStmt:
					for _, c := range v.Body.List {
						findDial(c.(*ast.CaseClause).Body)
					}
				}
			}
		}
		findDial(mh.Body.List)
		if dialAssign == nil || len(dialAssign.Lhs) != 2 {
			die("muxHandler at %s: no `up, err := <channel>.OpenConnection()`", pos(mh))
		}
		upVar, dErr := exprText(dialAssign.Lhs[0]), exprText(dialAssign.Lhs[1])
		dialErr := errorBranch{}
		closesUp := false
		pipeOK := false
		after := false
		afterPipe := []string{}
		for _, st := range dialBlock {
			if st == ast.Stmt(dialAssign) {
				after = true
				continue
			}
			if !after {
				continue
			}
			switch v := st.(type) {
			case *ast.IfStmt:
				if _, oth, ok := errValues(v.Cond, dErr); ok && oth {
					dialErr = branchOf(v.Body.List, func(a string) string {
						if a == hps[1] {
							return "down"
						}
						if a == upVar {
							return "up"
						}
						return a
					})
				}
			case *ast.DeferStmt:
				for _, a := range closesIn(v.Call) {
					if a == upVar {
						closesUp = true
						afterPipe = append(afterPipe, "defer close:up")
					}
				}
			}
			if c := findCall(st, "PipeData"); c != nil && len(c.Args) == 2 {
				pipeOK = exprText(c.Args[0]) == hps[1] && exprText(c.Args[1]) == upVar
				if _, isRet := st.(*ast.ReturnStmt); isRet {
					afterPipe = append(afterPipe, "return")
				} else {
					// the result is kept: closes of the target that follow at the same level count
					seen := false
					for _, st2 := range dialBlock {
						if st2 == st {
							seen = true
							continue
						}
						if seen {
							if es, ok := st2.(*ast.ExprStmt); ok {
								if a, ok := closeArg(es.X); ok && a == upVar {
									closesUp = true
									afterPipe = append(afterPipe, "close:up")
								}
							}
						}
					}
				}
			}
		}
		if !dialErr.found {
			die("muxHandler at %s: no `if %s != nil` after OpenConnection", pos(mh), dErr)
		}
		if !pipeOK {
			die("muxHandler at %s: no call PipeData(<second parameter>, <the connection OpenConnection returned>)", pos(mh))
		}
		str("mux_handler_dial_error_path", dialErr.text(), pos(dialAssign))
		str("mux_handler_after_pipe", strings.Join(afterPipe, ";"), pos(mh))
		f.defBool("mux_handler_closes_up_after_pipe", closesUp, "a close of the connection OpenConnection returned, deferred or after PipeData: "+pos(mh))
		// a lock held across the dial: a Lock() before OpenConnection with no Unlock() in between
		locked := false
		ast.Inspect(mh.Body, func(n ast.Node) bool {
			c, ok := n.(*ast.CallExpr)
			if !ok || c.Pos() >= dialAssign.Pos() {
				return true
			}
			switch calleeName(c) {
			case "Lock", "RLock":
				if _, isDefer := n.(*ast.DeferStmt); !isDefer {
					locked = true
				}
			case "Unlock", "RUnlock":
				locked = false
			}
			return true
		})
		f.defBool("mux_handler_locks_around_dial", locked, "a Lock() before OpenConnection that is still held when it is called: "+pos(mh))

		// ---- PipeData
		pd := findFunc(streamsDir, "", "PipeData")
		roles := pipeRoles(pd)
		caps := map[string]*big.Int{}
		ast.Inspect(pd.Body, func(n ast.Node) bool {
			a, ok := n.(*ast.AssignStmt)
			if !ok || len(a.Rhs) != 1 || len(a.Lhs) != 1 {
				return true
			}
			c, ok := a.Rhs[0].(*ast.CallExpr)
			if !ok || calleeName(c) != "make" || len(c.Args) == 0 {
				return true
			}
			if _, ok := c.Args[0].(*ast.ChanType); !ok {
				return true
			}
			v := big.NewInt(0)
			if len(c.Args) > 1 {
				v = evalInt(streamsDir, c.Args[1])
			}
			caps[roleName(roles, exprText(a.Lhs[0]))] = v
			return true
		})
		if caps["downPipe"] == nil || caps["upPipe"] == nil {
			die("PipeData at %s: the two report channels (one fed by the loop reading from each parameter) were not found", pos(pd))
		}
		f.defN("pipe_cap_down", caps["downPipe"], "capacity of the channel fed by the loop that reads from the first parameter: "+pos(pd))
		f.defN("pipe_cap_up", caps["upPipe"], "capacity of the channel fed by the loop that reads from the second parameter: "+pos(pd))
		var sel *ast.SelectStmt
		var rest []ast.Stmt
		for i, st := range pd.Body.List {
			if s, ok := st.(*ast.SelectStmt); ok {
				sel, rest = s, pd.Body.List[i+1:]
			}
		}
		if sel == nil {
			die("PipeData at %s: no select statement at the top level", pos(pd))
		}
		errReturn := true
		seen := map[string]bool{}
		type pipeReading struct {
			closes []string
			src    string
		}
		readings := map[string]pipeReading{}
		for _, c := range sel.Body.List {
			cc := c.(*ast.CommClause)
			if cc.Comm == nil {
				continue
			}
			ch, ev := "", ""
			switch v := cc.Comm.(type) {
			case *ast.AssignStmt:
				if len(v.Lhs) == 1 && len(v.Rhs) == 1 {
					if u, ok := v.Rhs[0].(*ast.UnaryExpr); ok && u.Op == token.ARROW {
						ch, ev = roleName(roles, exprText(u.X)), exprText(v.Lhs[0])
					}
				}
			}
			if ch != "downPipe" && ch != "upPipe" {
				die("PipeData at %s: a select case that does not receive a report into a variable", pos(cc))
			}
			seen[ch] = true
			for _, isEOF := range []bool{true, false} {
				o := &pipeOutcome{}
				pipeWalk(cc.Body, ev, isEOF, roles, o, pos(cc))
				if !o.returned {
					pipeWalk(rest, ev, isEOF, roles, o, pos(cc))
				}
				name := "pipe_" + strings.TrimSuffix(ch, "Pipe")
				if isEOF {
					name += "_eof"
				} else {
					name += "_err"
					errReturn = errReturn && o.returned && o.retErr
				}
				readings[name] = pipeReading{o.closes, pos(cc)}
			}
		}
		if !seen["downPipe"] || !seen["upPipe"] {
			die("PipeData at %s: expected one select case per report channel", pos(pd))
		}
		for _, name := range []string{"pipe_down_eof", "pipe_down_err", "pipe_up_eof", "pipe_up_err"} {
			r := readings[name]
			str(name+"_closes", roleSet(r.closes), r.src)
			f.defBool(name+"_closes_down", hasRole(r.closes, "down"), r.src)
			f.defBool(name+"_closes_up", hasRole(r.closes, "up"), r.src)
		}
		f.defBool("pipe_error_branches_return_error", errReturn, "a report that is not io.EOF is returned to the caller: "+pos(pd))

		// ---- client: listener.HandleConnection closes both ends at the end; openStream closes a refused stream
		lh := findFunc("internal/client/listener", "AbstractListener", "HandleConnection")
		lps := paramNames(lh.Type)
		if len(lps) != 1 {
			die("listener.HandleConnection at %s: expected one parameter", pos(lh))
		}
		lup := ""
		ast.Inspect(lh.Body, func(n ast.Node) bool {
			a, ok := n.(*ast.AssignStmt)
			if ok && len(a.Rhs) == 1 && len(a.Lhs) >= 1 {
				if c, ok := a.Rhs[0].(*ast.CallExpr); ok && calleeName(c) == "Connect" {
					lup = exprText(a.Lhs[0])
				}
			}
			return true
		})
		if lup == "" {
			die("listener.HandleConnection at %s: no `up, err := <upstreams>.Connect(...)`", pos(lh))
		}
		var ends []string
		for _, st := range lh.Body.List {
			var call ast.Node
			switch v := st.(type) {
			case *ast.ExprStmt:
				call = v.X
			case *ast.DeferStmt:
				call = v.Call
			}
			if call == nil {
				continue
			}
			for _, a := range closesIn(call) {
				switch a {
				case lup:
					ends = append(ends, "up")
				case lps[0]:
					ends = append(ends, "conn")
				default:
					ends = append(ends, a)
				}
			}
		}
		str("listener_end_closes", roleSet(ends), "unconditional closes at the top level of HandleConnection: "+pos(lh))
		f.defBool("listener_end_closes_up", hasRole(ends, "up"), pos(lh))
		f.defBool("listener_end_closes_conn", hasRole(ends, "conn"), pos(lh))
		f.defBool("listener_closes_both_at_end", hasRole(ends, "up") && hasRole(ends, "conn"), pos(lh))

		os := findFunc("internal/client/upstream", "Upstreams", "openStream")
		streamVars := map[string]bool{}
		var selErrVar string
		refusedClosed := false
		ast.Inspect(os.Body, func(n ast.Node) bool {
			switch v := n.(type) {
			case *ast.AssignStmt:
				if len(v.Rhs) != 1 {
					return true
				}
				c, ok := v.Rhs[0].(*ast.CallExpr)
				if !ok {
					return true
				}
				switch {
				case calleeName(c) == "OpenStream" && len(v.Lhs) >= 1:
					streamVars[exprText(v.Lhs[0])] = true
				case calleeName(c) == "SelectProtoOrFail" && len(v.Lhs) == 1:
					selErrVar = exprText(v.Lhs[0])
					for _, a := range c.Args {
						if id, ok := a.(*ast.Ident); ok {
							streamVars[id.Name] = true
						}
					}
				case mentions(c, streamVars) && len(v.Lhs) == 1:
					streamVars[exprText(v.Lhs[0])] = true
				}
			case *ast.IfStmt:
				if selErrVar == "" {
					return true
				}
				if _, oth, ok := errValues(v.Cond, selErrVar); ok && oth {
					for _, a := range closesIn(v.Body) {
						if streamVars[a] {
							refusedClosed = true
						}
					}
				}
			}
			return true
		})
		if selErrVar == "" {
			die("openStream at %s: no `err = ms.SelectProtoOrFail(...)`", pos(os))
		}
		f.defBool("client_open_stream_closes_refused", refusedClosed, "the branch taken when channel selection fails closes the stream: "+pos(os))

		cd := findFunc("internal/client/listener", "AbstractListener", "ConnectDirectly")
		cps := paramNames(cd.Type)
		if len(cps) != 1 {
			die("ConnectDirectly at %s: expected one parameter", pos(cd))
		}
		// the connection to the forward address: what net.Dial returned, and whatever is computed from it
		directVars := map[string]bool{}
		ast.Inspect(cd.Body, func(n ast.Node) bool {
			a, ok := n.(*ast.AssignStmt)
			if !ok || len(a.Rhs) != 1 || len(a.Lhs) < 1 {
				return true
			}
			if c, ok := a.Rhs[0].(*ast.CallExpr); ok {
				if calleeName(c) == "Dial" || calleeName(c) == "DialTimeout" || mentions(c, directVars) {
					directVars[exprText(a.Lhs[0])] = true
				}
			}
			return true
		})
		if len(directVars) == 0 {
			die("ConnectDirectly at %s: no connection dialled", pos(cd))
		}
		cdRole := func(a string) string {
			switch {
			case a == cps[0]:
				return "conn"
			case directVars[a]:
				return "direct"
			}
			return a
		}
		cdText := "(no PipeData)"
		var cdCloses []string
		ast.Inspect(cd.Body, func(n ast.Node) bool {
			b, ok := n.(*ast.BlockStmt)
			if !ok {
				return true
			}
			for i, st := range b.List {
				if _, isBlock := st.(*ast.IfStmt); isBlock {
					continue
				}
				if c := findCall(st, "PipeData"); c != nil {
					if len(c.Args) != 2 || cdRole(exprText(c.Args[0])) != "conn" || cdRole(exprText(c.Args[1])) != "direct" {
						die("ConnectDirectly at %s: PipeData is not called with (the local connection, the dialled connection)", pos(cd))
					}
					var acts []string
					// closes deferred in this block (or in the function) before the pipe run when the function returns
					for _, st0 := range append(append([]ast.Stmt{}, cd.Body.List...), b.List[:i]...) {
						if d, ok := st0.(*ast.DeferStmt); ok && d.Pos() < st.Pos() {
							for _, a := range closesIn(d.Call) {
								acts = append(acts, "defer close:"+cdRole(a))
								cdCloses = append(cdCloses, cdRole(a))
							}
						}
					}
					for _, st2 := range b.List[i+1:] {
						if es, ok := st2.(*ast.ExprStmt); ok {
							if a, ok := closeArg(es.X); ok {
								acts = append(acts, "close:"+cdRole(a))
								cdCloses = append(cdCloses, cdRole(a))
							}
						}
						if _, ok := st2.(*ast.ReturnStmt); ok {
							acts = append(acts, "return")
						}
					}
					cdText = strings.Join(acts, ";")
				}
			}
			return true
		})
		// ... or by the caller: HandleConnection closing its parameter in a deferred call, or in the branch taken when ConnectDirectly took the connection
		for _, st := range lh.Body.List {
			switch v := st.(type) {
			case *ast.DeferStmt:
				for _, a := range closesIn(v.Call) {
					if a == lps[0] {
						cdCloses = append(cdCloses, "conn")
					}
				}
			case *ast.IfStmt:
				if findCall(v.Cond, "ConnectDirectly") != nil {
					for _, a := range closesIn(v.Body) {
						if a == lps[0] {
							cdCloses = append(cdCloses, "conn")
						}
					}
				}
			}
		}
		f.defBool("connect_directly_closes_conn", hasRole(cdCloses, "conn"), "the local connection is closed when the direct pipe is over (in ConnectDirectly or by HandleConnection): "+pos(cd))
		f.defBool("connect_directly_closes_direct", hasRole(cdCloses, "direct"), "the connection to the forward address is closed when the direct pipe is over: "+pos(cd))
		str("connect_directly_after_pipe", cdText, pos(cd))
		return f
	})
}
