package main

import (
	"go/ast"
	"strconv"
	"strings"
)

// schemeSwitch extracts, from the switch on <x>.Scheme inside fd, the case lists and an identifier describing what each case
// builds (the first composite literal type or constructor call in its body), and whether the default clause returns an error.
func schemeSwitches(fd *ast.FuncDecl) [][]struct {
	schemes []string
	what    string
} {
	var all [][]struct {
		schemes []string
		what    string
	}
	ast.Inspect(fd.Body, func(n ast.Node) bool {
		sw, ok := n.(*ast.SwitchStmt)
		if !ok || sw.Tag == nil || !strings.HasSuffix(exprText(sw.Tag), "Scheme") && exprText(sw.Tag) != "scheme" {
			return true
		}
		var one []struct {
			schemes []string
			what    string
		}
		hasDefaultErr := false
		for _, st := range sw.Body.List {
			cc := st.(*ast.CaseClause)
			if cc.List == nil {
				for _, b := range cc.Body {
					if rs, ok := b.(*ast.ReturnStmt); ok && strings.Contains(exprText(rs), "Errorf") {
						hasDefaultErr = true
					}
				}
				continue
			}
			var ss []string
			for _, e := range cc.List {
				s, err := strconv.Unquote(exprText(e))
				if err != nil {
					die("%s: non-literal case %s", fd.Name.Name, exprText(e))
				}
				ss = append(ss, s)
			}
			what := ""
			for _, b := range cc.Body {
				ast.Inspect(b, func(m ast.Node) bool {
					if what != "" {
						return false
					}
					switch x := m.(type) {
					case *ast.CompositeLit:
						what = strings.TrimPrefix(exprText(x.Type), "&")
					case *ast.CallExpr:
						if id, ok := x.Fun.(*ast.Ident); ok && strings.HasPrefix(id.Name, "New") {
							what = id.Name
						}
						if strings.Contains(exprText(x.Fun), "Errorf") {
							what = "error"
						}
					}
					return true
				})
			}
			one = append(one, struct {
				schemes []string
				what    string
			}{ss, what})
		}
		if !hasDefaultErr {
			one = append(one, struct {
				schemes []string
				what    string
			}{nil, "NO-ERROR-DEFAULT"})
		}
		all = append(all, one)
		return false
	})
	return all
}

func init() {
	emitters = append(emitters, func() *coqFile {
		f := newCoq("Schemes")
		f.raw("From Coq Require Import String.\nOpen Scope string_scope.\n")
		emit := func(name string, sw []struct {
			schemes []string
			what    string
		}, src string) {
			f.raw("Definition " + name + " : list (list string * string) := [")
			first := true
			defErr := true
			for _, c := range sw {
				if c.what == "NO-ERROR-DEFAULT" {
					defErr = false
					continue
				}
				if !first {
					f.raw(";\n  ")
				}
				first = false
				var q []string
				for _, s := range c.schemes {
					q = append(q, "\""+s+"\"")
				}
				f.raw("([" + strings.Join(q, "; ") + "], \"" + c.what + "\")")
			}
			f.raw("]. (* " + src + " *)\n")
			f.raw("Definition " + name + "_default_is_error : bool := " + boolS(defErr) + ".\n")
		}
		us := findFunc(serverDir, "", "unmarshalServer")
		sws := schemeSwitches(us)
		if len(sws) != 1 {
			die("unmarshalServer: expected one switch on the scheme, found %d", len(sws))
		}
		emit("server_schemes", sws[0], pos(us))
		uc := findFunc(serverDir, "", "unmarshalChannel")
		sws = schemeSwitches(uc)
		if len(sws) != 1 {
			die("unmarshalChannel: expected one switch on the scheme, found %d", len(sws))
		}
		emit("channel_schemes", sws[0], pos(uc))
		uu := findFunc("internal/client/upstream", "", "unmarshalUpstream")
		sws = schemeSwitches(uu)
		if len(sws) != 1 {
			die("unmarshalUpstream: expected one switch on the scheme, found %d", len(sws))
		}
		emit("upstream_schemes", sws[0], pos(uu))
		ul := findFunc("internal/client/listener", "Listeners", "UnmarshalFlag")
		sws = schemeSwitches(ul)
		if len(sws) < 1 {
			die("Listeners.UnmarshalFlag: no switch on the scheme found")
		}
		emit("listener_schemes", sws[len(sws)-1], pos(ul)) // the name~listen~forward form is the last switch
		// dial-time refusal of packet schemes in NetworkChannel.OpenConnection
		oc := findFunc(serverDir, "NetworkChannel", "OpenConnection")
		sws = schemeSwitches(oc)
		if len(sws) == 1 {
			emit("channel_dial_refused", sws[0], pos(oc))
		}
		return f
	})
}
