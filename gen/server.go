package main

import (
	"go/ast"
	"go/token"
	"strings"
)

// Gen/Server.v: the limits and guards of the DNS server's message handler that property C12 rests on.
func init() {
	emitters = append(emitters, func() *coqFile {
		f := newCoq("Server")
		mf := findValue(dnsDir, "MaxDownstreamFragmentSize")
		f.defN("max_downstream_fragment_size", evalInt(dnsDir, mf), pos(mf))

		// DefaultSerializer in NewServerDnsListener: Downstream: util.DownstreamConfig{FragmentSize: N, Encoder: E},
		// Upstream: util.UpstreamConfig{..., Encoder: E}
		nl := findFunc(dnsDir, "", "NewServerDnsListener")
		var frag ast.Expr
		encs := map[string]string{}
		ast.Inspect(nl, func(n ast.Node) bool {
			kv, ok := n.(*ast.KeyValueExpr)
			if !ok {
				return true
			}
			key := exprText(kv.Key)
			if key != "Downstream" && key != "Upstream" {
				return true
			}
			cl, ok := kv.Value.(*ast.CompositeLit)
			if !ok {
				return true
			}
			for _, el := range cl.Elts {
				in, ok := el.(*ast.KeyValueExpr)
				if !ok {
					continue
				}
				switch exprText(in.Key) {
				case "FragmentSize":
					if key == "Downstream" {
						frag = in.Value
					}
				case "Encoder":
					encs[key] = exprText(in.Value)
				}
			}
			return true
		})
		if frag == nil {
			die("DefaultSerializer.Downstream.FragmentSize not found in NewServerDnsListener")
		}
		f.defN("default_downstream_fragment_size", evalInt(dnsDir, frag), pos(frag))
		f.defBool("default_codecs_are_base32", encs["Downstream"] == "enc.Base32Encoding" && encs["Upstream"] == "enc.Base32Encoding",
			"DefaultSerializer encoders: down "+encs["Downstream"]+", up "+encs["Upstream"])

		// the guards the repairs put in: recorded as shape facts
		norm := func(e ast.Node) string { return strings.Replace(exprText(e), " ", "", -1) }
		hasCond := func(fd *ast.FuncDecl, want string) bool {
			found := false
			ast.Inspect(fd, func(n ast.Node) bool {
				switch x := n.(type) {
				case *ast.IfStmt:
					if strings.Contains(norm(x.Cond), want) {
						found = true
					}
				}
				return true
			})
			return found
		}
		so := findFunc(dnsDir, "ServerDnsListener", "setOptionsRequest")
		f.defBool("setoptions_rejects_zero_and_above_max",
			hasCond(so, "*v.DownstreamFragmentSize==0||*v.DownstreamFragmentSize>MaxDownstreamFragmentSize"), pos(so))
		tf := findFunc(dnsDir, "ServerDnsListener", "testDownstreamFragmentSize")
		f.defBool("fragtest_rejects_above_max", hasCond(tf, "v.FragmentSize>MaxDownstreamFragmentSize"), pos(tf))
		om := findFunc(dnsDir, "ServerDnsListener", "onMessage")
		f.defBool("onmessage_ignores_empty_question", hasCond(om, "len(m.Question)==0"), pos(om))
		sd := findFunc(cmdDir, "", "StripDomain")
		f.defBool("stripdomain_guards_lone_backslash", hasCond(sd, "len(data)>=2"), pos(sd))
		dh := findFunc(cmdDir, "", "DecodeRequestHeader")
		f.defBool("header_guards_short_request", hasCond(dh, "len(req)<4") && hasCond(dh, "len(req)<2"), pos(dh))
		it := findFunc(cmdDir, "Command", "IsOfType")
		f.defBool("isoftype_guards_empty", hasCond(it, "len(data)==0"), pos(it))
		// handleRequest recovers from panics
		hr := findFunc(dnsDir, "NetConnectionServerCommunicator", "handleRequest")
		rec := false
		ast.Inspect(hr, func(n ast.Node) bool {
			if ce, ok := n.(*ast.CallExpr); ok {
				if id, ok := ce.Fun.(*ast.Ident); ok && id.Name == "recover" {
					rec = true
				}
			}
			return true
		})
		f.defBool("handle_request_recovers", rec, pos(hr))
		// every Serializer decode loop skips commands without a constructor
		nilGuard := func(fn, field string) bool {
			fd := findFunc(cmdDir, "Serializer", fn)
			ok := false
			ast.Inspect(fd, func(n ast.Node) bool {
				if be, isBe := n.(*ast.BinaryExpr); isBe && be.Op == token.EQL && norm(be) == "c."+field+"==nil" {
					ok = true
				}
				return true
			})
			return ok
		}
		f.defBool("decode_skips_nil_constructors", nilGuard("DecodeDnsRequest", "NewRequest") && nilGuard("DecodeDnsResponseWithParams", "NewResponse"),
			"internal/streams/dns/commands/serializer.go")
		return f
	})
}
