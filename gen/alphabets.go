package main

import (
	"go/ast"
	"math/big"
)

const encDir = "internal/util/enc"

type codecInfo struct{ coq, goType string }

var codecs = []codecInfo{
	{"base32", "Base32Encoder"}, {"base64", "Base64Encoder"}, {"base64u", "Base64uEncoder"},
	{"base85", "Base85Encoder"}, {"base91", "Base91Encoder"}, {"base128", "Base128Encoder"},
	{"base192", "Base192Encoder"}, {"raw", "RawEncoder"},
}

func init() {
	emitters = append(emitters, func() *coqFile {
		f := newCoq("Alphabets")
		for _, n := range []string{"cb32", "cb32Ucase", "cb64", "cb64u", "cb91", "cb128"} {
			e := findValue(encDir, n)
			f.defBytes(n, []byte(evalString(encDir, e)), pos(e))
		}
		for _, c := range codecs {
			code := singleReturn(findFunc(encDir, c.goType, "Code"))
			f.defN("code_"+c.coq, evalInt(encDir, code), pos(code))
			ratio := singleReturn(findFunc(encDir, c.goType, "Ratio"))
			r := evalRat(encDir, ratio)
			f.defN("ratio_num_"+c.coq, r.Num(), exprText(ratio)+" at "+pos(ratio))
			f.defN("ratio_den_"+c.coq, r.Denom(), exprText(ratio))
		}
		// registry order of FromCode: the composite literal it ranges over
		fc := findFunc(encDir, "", "FromCode")
		var order []string
		ast.Inspect(fc, func(n ast.Node) bool {
			if cl, ok := n.(*ast.CompositeLit); ok {
				for _, el := range cl.Elts {
					if id, ok := el.(*ast.Ident); ok {
						order = append(order, id.Name)
					}
				}
				return false
			}
			return true
		})
		if len(order) == 0 {
			die("FromCode: registry literal not found")
		}
		// map variable -> codec via the var declarations  XEncoding Encoder = &XEncoder{}
		f.raw("Definition registry_order : list N := [")
		for i, v := range order {
			e := findValue(encDir, v)
			ue, ok := e.(*ast.UnaryExpr)
			var ty string
			if ok {
				if cl, ok := ue.X.(*ast.CompositeLit); ok {
					if id, ok := cl.Type.(*ast.Ident); ok {
						ty = id.Name
					}
				}
			}
			if ty == "" {
				die("cannot resolve registry entry %s", v)
			}
			code := singleReturn(findFunc(encDir, ty, "Code"))
			if i > 0 {
				f.raw("; ")
			}
			f.raw(evalInt(encDir, code).String())
		}
		f.raw("]. (* " + pos(fc) + " *)\n")
		// Base85 substitution pairs in Encode: if b == X { dst[k] = Y }
		f.raw(subst("b85_subst_enc", findFunc(encDir, "Base85Encoder", "Encode")))
		f.raw(subst("b85_subst_dec", findFunc(encDir, "Base85Encoder", "Decode")))
		m := findValue(encDir, "MinAsciiCode")
		f.defN("min_ascii_code", evalInt(encDir, m), pos(m))
		return f
	})
}

// subst reads the chain `if b == 'x' { dst[k] = 'y' } else if ...` inside the range loop of fd.
func subst(name string, fd *ast.FuncDecl) string {
	type pair struct{ from, to *big.Int }
	var pairs []pair
	ast.Inspect(fd, func(n ast.Node) bool {
		ifs, ok := n.(*ast.IfStmt)
		if !ok {
			return true
		}
		be, ok := ifs.Cond.(*ast.BinaryExpr)
		if !ok || be.Op.String() != "==" || len(ifs.Body.List) != 1 {
			return true
		}
		as, ok := ifs.Body.List[0].(*ast.AssignStmt)
		if !ok || len(as.Rhs) != 1 {
			return true
		}
		if _, ok := as.Lhs[0].(*ast.IndexExpr); !ok {
			return true
		}
		if _, ok := be.Y.(*ast.BasicLit); !ok {
			return true
		}
		if _, ok := as.Rhs[0].(*ast.BasicLit); !ok {
			return true
		}
		pairs = append(pairs, pair{evalInt(encDir, be.Y), evalInt(encDir, as.Rhs[0])})
		return true
	})
	if len(pairs) == 0 {
		die("%s: no substitution pairs found in %s", name, pos(fd))
	}
	s := "Definition " + name + " : list (N * N) := ["
	for i, p := range pairs {
		if i > 0 {
			s += "; "
		}
		s += "(" + p.from.String() + ", " + p.to.String() + ")"
	}
	return s + "]. (* " + pos(fd) + " *)\n"
}
