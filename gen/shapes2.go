package main

import (
	"go/ast"
	"strings"
)

// Further shape facts (Gen/Shapes2.v): small, table-like readings of the runtime glue that the transition-system models take
// for granted. Each is re-read on every run; the property files assert them by reflexivity, so an edit that changes one of
// them breaks a proof obligation and the scenarios then look for the concrete failure.

// firstCalls lists, in source order, the statement-level calls `name(arg)` of a block (not those nested in if/for bodies)
func topLevelCallsArg(body []ast.Stmt, name string) []string {
	var out []string
	for _, st := range body {
		es, ok := st.(*ast.ExprStmt)
		if !ok {
			continue
		}
		call, ok := es.X.(*ast.CallExpr)
		if !ok || len(call.Args) != 1 {
			continue
		}
		if id, ok := call.Fun.(*ast.Ident); ok && id.Name == name {
			out = append(out, exprText(call.Args[0]))
		}
	}
	return out
}

// pipeRoles names the identifiers of PipeData by role, so that renaming a parameter or a local does not change a reading: the first
// parameter is "down", the second "up"; the report channel fed by the loop that READS from the first parameter is "downPipe", the
// other "upPipe" (go pipeData(<chan>, <from>, <to>)).
func pipeRoles(pd *ast.FuncDecl) map[string]string {
	r := map[string]string{}
	var params []string
	for _, fl := range pd.Type.Params.List {
		for _, n := range fl.Names {
			params = append(params, n.Name)
		}
	}
	if len(params) != 2 {
		die("PipeData: expected two parameters")
	}
	r[params[0]], r[params[1]] = "down", "up"
	ast.Inspect(pd.Body, func(n ast.Node) bool {
		g, ok := n.(*ast.GoStmt)
		if !ok || len(g.Call.Args) != 3 {
			return true
		}
		ch, from := exprText(g.Call.Args[0]), exprText(g.Call.Args[1])
		if from == params[0] {
			r[ch] = "downPipe"
		} else if from == params[1] {
			r[ch] = "upPipe"
		}
		return true
	})
	return r
}

func roleName(r map[string]string, s string) string {
	if v, ok := r[s]; ok {
		return v
	}
	return s
}

func init() {
	emitters = append(emitters, func() *coqFile {
		f := newCoq("Shapes2")
		f.raw("From Coq Require Import String.\nOpen Scope string_scope.\n")
		str := func(name, v, src string) {
			f.raw("Definition " + name + " : string := \"" + v + "\". (* " + src + " *)\n")
		}
		// PipeData: which side is closed unconditionally when which copy loop reports first
		pd := findFunc(streamsDir, "", "PipeData")
		roles := pipeRoles(pd)
		found := 0
		ast.Inspect(pd.Body, func(n ast.Node) bool {
			sel, ok := n.(*ast.SelectStmt)
			if !ok {
				return true
			}
			for _, c := range sel.Body.List {
				cc := c.(*ast.CommClause)
				if cc.Comm == nil {
					continue
				}
				ch := ""
				ast.Inspect(cc.Comm, func(m ast.Node) bool {
					if u, ok := m.(*ast.UnaryExpr); ok {
						ch = roleName(roles, exprText(u.X))
					}
					return true
				})
				closed := topLevelCallsArg(cc.Body, "TryClose")
				first := ""
				if len(closed) > 0 {
					first = roleName(roles, closed[0])
				}
				switch ch {
				case "downPipe":
					str("pipe_on_down_report_closes", first, pos(cc))
					found++
				case "upPipe":
					str("pipe_on_up_report_closes", first, pos(cc))
					found++
				}
			}
			return false
		})
		if found != 2 {
			die("PipeData: expected a select with the two receive cases downPipe / upPipe")
		}
		// which goroutine feeds which report channel: go pipeData(<chan>, <from>, <to>) in the non-debug and the debug branch
		var feeds []string
		ast.Inspect(pd.Body, func(n ast.Node) bool {
			g, ok := n.(*ast.GoStmt)
			if !ok {
				return true
			}
			var args []string
			for _, a := range g.Call.Args {
				args = append(args, roleName(roles, exprText(a)))
			}
			feeds = append(feeds, exprText(g.Call.Fun)+"("+strings.Join(args, ",")+")")
			return true
		})
		str("pipe_copy_loops", strings.Join(feeds, ";"), pos(pd))

		// the handshake deadline: armed with SetDeadline(now+HandshakeTimeout) and cleared, in a deferred call, with SetDeadline(zero)
		for _, x := range []struct{ fn, name string }{{"NewServerConnection", "server"}, {"NewClientConnection", "client"}} {
			fd := findFunc("internal/socketace", "", x.fn)
			armed, cleared := "", ""
			ast.Inspect(fd.Body, func(n ast.Node) bool {
				switch v := n.(type) {
				case *ast.DeferStmt:
					ast.Inspect(v.Call, func(m ast.Node) bool {
						if c, ok := m.(*ast.CallExpr); ok {
							if s, ok := c.Fun.(*ast.SelectorExpr); ok && strings.Contains(s.Sel.Name, "Deadline") {
								cleared = s.Sel.Name + "(" + exprText(c.Args[0]) + ")"
							}
						}
						return true
					})
					return false
				case *ast.CallExpr:
					if s, ok := v.Fun.(*ast.SelectorExpr); ok && strings.Contains(s.Sel.Name, "Deadline") && armed == "" {
						armed = s.Sel.Name + "(" + exprText(v.Args[0]) + ")"
					}
				}
				return true
			})
			str(x.name+"_handshake_deadline_armed", armed, pos(fd))
			str(x.name+"_handshake_deadline_cleared", cleared, pos(fd))
		}

		// the multiplexer configuration: which fields each end overrides (a smaller shared receive buffer stalls everyone earlier)
		for _, x := range []struct{ dir, recv, fn, name string }{{serverDir, "ConnectionHandler", "HandleConnection", "server_mux_overrides"},
			{"internal/client/upstream", "Upstreams", "creteSession", "client_mux_overrides"}} {
			fd := findFunc(x.dir, x.recv, x.fn)
			var fields []string
			ast.Inspect(fd.Body, func(n ast.Node) bool {
				a, ok := n.(*ast.AssignStmt)
				if ok && len(a.Lhs) == 1 && strings.HasPrefix(exprText(a.Lhs[0]), "config.") {
					fields = append(fields, strings.TrimPrefix(exprText(a.Lhs[0]), "config."))
				}
				return true
			})
			str(x.name, strings.Join(fields, ","), pos(fd))
		}

		// every server kind hands its own ServerConfig (the one that carries requireClientCert) to AcceptConnection
		for _, x := range []struct{ file, recv, fn, name string }{
			{"socket_server.go", "SocketServer", "acceptConnection", "socket_server_tls_manager"},
			{"packet_server.go", "PacketServer", "acceptConnection", "packet_server_tls_manager"},
			{"http_server.go", "HttpServer", "EndpointHandler", "http_server_tls_manager"},
			{"stdio_server.go", "IoServer", "Startup", "io_server_tls_manager"}} {
			fd := findFunc(serverDir, x.recv, x.fn)
			arg := ""
			ast.Inspect(fd.Body, func(n ast.Node) bool {
				if c, ok := n.(*ast.CallExpr); ok {
					if id, ok := c.Fun.(*ast.Ident); ok && id.Name == "AcceptConnection" && len(c.Args) >= 2 {
						arg = exprText(c.Args[1])
					}
				}
				return true
			})
			if arg == "" {
				die("%s.%s: call of AcceptConnection not found", x.recv, x.fn)
			}
			str(x.name, arg, pos(fd))
		}
		return f
	})
}
