package main

import (
	"go/ast"
	"go/token"
	"math/big"
	"sort"
	"strings"
)

// Gen/EndpointShape.v: what the model of the server endpoints' accept loops and of the per-peer session set-up (Mux/Endpoint.v) takes
// from the source text. Readings are by ROLE (the connection and the error Accept returned, the function's own first parameter, the
// method's receiver, the channel a send in the loop goes to ...), never by identifier spelling, log texts or whole function bodies: a
// renamed local, a reworded log line, if/else written as a tagless switch leave them unchanged.

// acceptAssign finds `conn, err := <x>.Accept()` in a function and returns the names of the two results
func acceptAssign(fd *ast.FuncDecl) (connVar, errVar string, loop *ast.ForStmt) {
	ast.Inspect(fd.Body, func(n ast.Node) bool {
		if connVar != "" {
			return false
		}
		fs, ok := n.(*ast.ForStmt)
		if !ok {
			return true
		}
		for _, st := range fs.Body.List {
			as, ok := st.(*ast.AssignStmt)
			if !ok || len(as.Lhs) != 2 || len(as.Rhs) != 1 {
				continue
			}
			call, ok := as.Rhs[0].(*ast.CallExpr)
			if !ok || calleeName(call) != "Accept" {
				continue
			}
			c, ok1 := as.Lhs[0].(*ast.Ident)
			e, ok2 := as.Lhs[1].(*ast.Ident)
			if ok1 && ok2 {
				connVar, errVar, loop = c.Name, e.Name, fs
				return false
			}
		}
		return true
	})
	return
}

// isErrNotNil: `err != nil` (possibly in parentheses, either way round)
func isErrNotNil(e ast.Expr, errVar string) bool {
	if p, ok := e.(*ast.ParenExpr); ok {
		return isErrNotNil(p.X, errVar)
	}
	b, ok := e.(*ast.BinaryExpr)
	if !ok || b.Op != token.NEQ {
		return false
	}
	x, y := exprText(b.X), exprText(b.Y)
	return (x == errVar && y == "nil") || (y == errVar && x == "nil")
}

// errBranch: the statements run when errVar != nil, among the top-level statements given: the body of `if errVar != nil { .. }` (also as
// the init-less first test of an if / else-if chain) or of the matching case of a tagless switch
func errBranch(stmts []ast.Stmt, errVar string) []ast.Stmt {
	for _, st := range stmts {
		switch v := st.(type) {
		case *ast.IfStmt:
			var cur ast.Stmt = v
			for cur != nil {
				is, ok := cur.(*ast.IfStmt)
				if !ok {
					break
				}
				if isErrNotNil(is.Cond, errVar) {
					return is.Body.List
				}
				cur = is.Else
			}
		case *ast.SwitchStmt:
			if v.Tag != nil {
				continue
			}
			for _, c := range v.Body.List {
				cc := c.(*ast.CaseClause)
				for _, e := range cc.List {
					if isErrNotNil(e, errVar) {
						return cc.Body
					}
				}
			}
		}
	}
	return nil
}

// leaves: how a statement list ends at its top level
func leaves(stmts []ast.Stmt) string {
	for _, st := range stmts {
		switch v := st.(type) {
		case *ast.ReturnStmt:
			return "return"
		case *ast.BranchStmt:
			switch v.Tok {
			case token.CONTINUE:
				return "continue"
			case token.BREAK:
				return "break"
			}
		}
	}
	return "falls-through"
}

// closesOf: does any close call under the statements act on the variable?
func closesVar(stmts []ast.Stmt, name string) bool {
	for _, st := range stmts {
		for _, a := range closesIn(st) {
			if a == name {
				return true
			}
		}
	}
	return false
}

// outsideGo visits every node of n that is not inside a `go` statement
func outsideGo(n ast.Node, f func(ast.Node)) {
	ast.Inspect(n, func(m ast.Node) bool {
		if _, ok := m.(*ast.GoStmt); ok {
			return false
		}
		if m != nil {
			f(m)
		}
		return true
	})
}

// chanCapacity: the capacity of the channel `name` made in fd (`name := make(chan T, n)` or `var name = make(...)`), -1 if it is not made there
func chanCapacity(rel string, fd *ast.FuncDecl, name string) *big.Int {
	var c *big.Int
	ast.Inspect(fd.Body, func(n ast.Node) bool {
		as, ok := n.(*ast.AssignStmt)
		if !ok || len(as.Lhs) != 1 || len(as.Rhs) != 1 || exprText(as.Lhs[0]) != name {
			return true
		}
		call, ok := as.Rhs[0].(*ast.CallExpr)
		if !ok {
			return true
		}
		if id, ok := call.Fun.(*ast.Ident); !ok || id.Name != "make" || len(call.Args) == 0 {
			return true
		}
		if _, ok := call.Args[0].(*ast.ChanType); !ok {
			return true
		}
		c = big.NewInt(0)
		if len(call.Args) > 1 {
			c = evalInt(rel, call.Args[1])
		}
		return true
	})
	return c
}

// loopSemaphore: a channel send on the loop's own thread (outside every go statement) is a slot taken before the goroutine starts
func loopSemaphore(rel string, fd *ast.FuncDecl, loop *ast.ForStmt) *big.Int {
	capa := big.NewInt(0)
	outsideGo(loop.Body, func(m ast.Node) {
		if s, ok := m.(*ast.SendStmt); ok {
			name := exprText(s.Chan)
			c := chanCapacity(rel, fd, name)
			if c == nil {
				// a channel that is a field or a package variable: find its make anywhere in the package
				c = packageChanCapacity(rel, name)
			}
			if c == nil {
				die("%s: the loop sends on %q but its capacity cannot be found", fd.Name.Name, name)
			}
			if c.Sign() == 0 {
				c = big.NewInt(1) // an unbuffered hand-over blocks the loop like a semaphore of one
			}
			capa = c
		}
	})
	return capa
}

func packageChanCapacity(rel, name string) *big.Int {
	last := name
	if i := strings.LastIndex(name, "."); i >= 0 {
		last = name[i+1:]
	}
	var c *big.Int
	p := loadDir(rel)
	for _, fn := range sortedFiles(p) {
		ast.Inspect(p[fn], func(n ast.Node) bool {
			var lhs string
			var rhs ast.Expr
			switch v := n.(type) {
			case *ast.AssignStmt:
				if len(v.Lhs) == 1 && len(v.Rhs) == 1 {
					lhs, rhs = exprText(v.Lhs[0]), v.Rhs[0]
				}
			case *ast.KeyValueExpr:
				lhs, rhs = exprText(v.Key), v.Value
			case *ast.ValueSpec:
				if len(v.Names) == 1 && len(v.Values) == 1 {
					lhs, rhs = v.Names[0].Name, v.Values[0]
				}
			}
			if rhs == nil || !(lhs == last || strings.HasSuffix(lhs, "."+last)) {
				return true
			}
			call, ok := rhs.(*ast.CallExpr)
			if !ok {
				return true
			}
			if id, ok := call.Fun.(*ast.Ident); !ok || id.Name != "make" || len(call.Args) == 0 {
				return true
			}
			if _, ok := call.Args[0].(*ast.ChanType); !ok {
				return true
			}
			c = big.NewInt(0)
			if len(call.Args) > 1 {
				c = evalInt(rel, call.Args[1])
			}
			return true
		})
	}
	return c
}

// deadlineCalls: every Set[Read|Write]Deadline call under n: receiver text, whether deferred (directly or inside a deferred literal), whether
// its argument is the zero time
type dlCall struct {
	recv     string
	deferred bool
	zero     bool
	inGo     bool
}

func deadlineCalls(n ast.Node) []dlCall {
	var out []dlCall
	var walk func(m ast.Node, deferred, inGo bool)
	walk = func(m ast.Node, deferred, inGo bool) {
		ast.Inspect(m, func(x ast.Node) bool {
			switch v := x.(type) {
			case *ast.DeferStmt:
				walk(v.Call, true, inGo)
				return false
			case *ast.GoStmt:
				walk(v.Call, deferred, true)
				return false
			case *ast.CallExpr:
				if sel, ok := v.Fun.(*ast.SelectorExpr); ok {
					switch sel.Sel.Name {
					case "SetDeadline", "SetReadDeadline", "SetWriteDeadline":
						z := len(v.Args) == 1 && strings.Replace(exprText(v.Args[0]), " ", "", -1) == "time.Time{}"
						out = append(out, dlCall{recv: exprText(sel.X), deferred: deferred, zero: z, inGo: inGo})
					}
				}
			}
			return true
		})
	}
	walk(n, false, false)
	return out
}

func rootIdent(s string) string {
	for i, ch := range s {
		if !(ch == '_' || (ch >= 'a' && ch <= 'z') || (ch >= 'A' && ch <= 'Z') || (ch >= '0' && ch <= '9')) {
			return s[:i]
		}
	}
	return s
}

// deadlineOnReceiverField: a deadline set on something reached through the method's receiver (st.X..., ws.X...): shared by every peer
func deadlineOnReceiverField(fd *ast.FuncDecl) bool {
	r := recvName(fd)
	if r == "" {
		return false
	}
	for _, c := range deadlineCalls(fd.Body) {
		if rootIdent(c.recv) == r && strings.Contains(c.recv, ".") {
			return true
		}
	}
	return false
}

// lockAcrossBlocking: a Lock() that is still held (no Unlock outside a defer in between, in source order) when one of the named calls is made
func lockAcrossBlocking(fd *ast.FuncDecl, blocking map[string]bool) bool {
	type at struct {
		pos  token.Pos
		kind string
	}
	var evs []at
	var walk func(m ast.Node, deferred bool)
	walk = func(m ast.Node, deferred bool) {
		ast.Inspect(m, func(x ast.Node) bool {
			switch v := x.(type) {
			case *ast.DeferStmt:
				walk(v.Call, true)
				return false
			case *ast.CallExpr:
				n := calleeName(v)
				switch {
				case n == "Lock" || n == "RLock":
					if !deferred {
						evs = append(evs, at{v.Pos(), "lock"})
					}
				case n == "Unlock" || n == "RUnlock":
					if !deferred {
						evs = append(evs, at{v.Pos(), "unlock"})
					}
				case blocking[n]:
					evs = append(evs, at{v.Pos(), "block"})
				}
			}
			return true
		})
	}
	walk(fd.Body, false)
	sort.Slice(evs, func(i, j int) bool { return evs[i].pos < evs[j].pos })
	held := false
	for _, e := range evs {
		switch e.kind {
		case "lock":
			held = true
		case "unlock":
			held = false
		case "block":
			if held {
				return true
			}
		}
	}
	return false
}

func init() {
	emitters = append(emitters, func() *coqFile {
		f := newCoq("EndpointShape")
		f.raw("From Coq Require Import String.\nOpen Scope string_scope.\n")
		str := func(name, v, src string) {
			f.raw("Definition " + name + " : string := \"" + coqStr(v) + "\". (* " + src + " *)\n")
		}

		// ---- the two accept loops of socketace's own
		for _, x := range []struct{ recv, pre, startup string }{{"SocketServer", "socket", "Startup"}, {"PacketServer", "packet", "StartupPacket"}} {
			fd := findFunc(serverDir, x.recv, "acceptConnection")
			connVar, errVar, loop := acceptAssign(fd)
			if loop == nil {
				die("%s.acceptConnection: no `conn, err := listener.Accept()` inside a for loop", x.recv)
			}
			g, ok := callInGo(fd, "AcceptConnection")
			if !ok {
				die("%s.acceptConnection: call of AcceptConnection not found", x.recv)
			}
			f.defBool(x.pre+"_accept_connection_in_go", g, "AcceptConnection is called inside a go statement of the loop: "+pos(fd))
			// the TLS handshake completed by the loop's own thread
			onLoop := false
			outsideGo(loop.Body, func(m ast.Node) {
				if c, ok := m.(*ast.CallExpr); ok && (calleeName(c) == "Handshake" || calleeName(c) == "HandshakeContext") {
					onLoop = true
				}
			})
			f.defBool(x.pre+"_loop_runs_tls_handshake", onLoop, "a Handshake() call on the loop's own thread: "+pos(fd))
			// the accept-error branch
			br := errBranch(loop.Body.List, errVar)
			if br == nil {
				die("%s.acceptConnection: no branch for %s != nil at the top level of the loop", x.recv, errVar)
			}
			lv := leaves(br)
			str(x.pre+"_accept_error_branch", func() string {
				s := ""
				if closesVar(br, connVar) {
					s = "close:conn;"
				}
				return s + lv
			}(), pos(fd))
			f.defBool(x.pre+"_accept_error_continues", lv == "continue", pos(fd))
			f.defBool(x.pre+"_accept_error_closes_conn", closesVar(br, connVar), "the connection that came with the error is closed: "+pos(fd))
			f.defN(x.pre+"_loop_semaphore_capacity", loopSemaphore(serverDir, fd, loop), "a channel send on the loop's own thread: "+pos(fd))
			f.defBool(x.pre+"_deadline_on_server_field", deadlineOnReceiverField(fd), "a Set*Deadline call on something reached through the receiver: "+pos(fd))
			// Startup starts the loop on a goroutine of its own
			sf := findFunc(serverDir, x.recv, x.startup)
			sg, sok := callInGo(sf, "acceptConnection")
			if !sok {
				die("%s.%s: call of acceptConnection not found", x.recv, x.startup)
			}
			f.defBool(x.pre+"_startup_spawns_loop", sg, pos(sf))
		}
		// the DNS endpoint uses the socket server's loop
		df := findFunc(serverDir, "DnsServer", "Startup")
		dg, dok := callInGo(df, "acceptConnection")
		if !dok {
			die("DnsServer.Startup: call of acceptConnection not found")
		}
		f.defBool("dns_startup_spawns_loop", dg, pos(df))
		if findFuncOpt(serverDir, "DnsServer", "acceptConnection") != nil {
			die("DnsServer has an accept loop of its own: it is not modelled")
		}
		f.defBool("dns_shares_socket_loop", true, "DnsServer embeds SocketServer and declares no acceptConnection: "+pos(df))

		// ---- http: the endpoint handler runs on net/http's per-connection goroutine
		eh := findFunc(serverDir, "HttpServer", "EndpointHandler")
		if findCall(eh, "AcceptConnection") == nil {
			die("HttpServer.EndpointHandler: call of AcceptConnection not found")
		}
		up := findCall(eh, "Upgrade")
		ac := findCall(eh, "AcceptConnection")
		f.defBool("http_upgrade_before_accept_connection", up != nil && up.Pos() < ac.Pos(), pos(eh))
		f.defBool("http_deadline_on_server_field", deadlineOnReceiverField(eh), pos(eh))
		hs := findFunc(serverDir, "HttpServer", "Startup")
		bound := big.NewInt(0)
		ast.Inspect(hs.Body, func(n ast.Node) bool {
			if c, ok := n.(*ast.CallExpr); ok && strings.HasPrefix(calleeName(c), "Throttle") && len(c.Args) >= 1 {
				bound = evalInt(serverDir, c.Args[0])
				if bound.Sign() == 0 {
					bound = big.NewInt(1)
				}
			}
			return true
		})
		// ... or a counting channel in the handler itself
		ast.Inspect(eh.Body, func(n ast.Node) bool {
			if s, ok := n.(*ast.SendStmt); ok {
				c := chanCapacity(serverDir, eh, exprText(s.Chan))
				if c == nil {
					c = packageChanCapacity(serverDir, exprText(s.Chan))
				}
				if c == nil {
					die("EndpointHandler sends on %q but its capacity cannot be found", exprText(s.Chan))
				}
				if c.Sign() == 0 {
					c = big.NewInt(1)
				}
				bound = c
			}
			return true
		})
		f.defN("http_requests_in_flight_bound", bound, "a Throttle middleware in Startup or a counting channel in the handler: "+pos(hs))
		sv, svok := callInGo(hs, "Serve")
		st, stok := callInGo(hs, "ServeTLS")
		if !svok || !stok {
			die("HttpServer.Startup: Serve / ServeTLS not found")
		}
		f.defBool("http_startup_serves_in_go", sv && st, pos(hs))
		var timeouts []string
		ast.Inspect(hs.Body, func(n ast.Node) bool {
			if kv, ok := n.(*ast.KeyValueExpr); ok {
				k := exprText(kv.Key)
				if strings.HasSuffix(k, "Timeout") {
					timeouts = append(timeouts, k)
				}
			}
			return true
		})
		sort.Strings(timeouts)
		str("http_server_timeouts", strings.Join(timeouts, ";"), "time limits net/http is given for the part before the upgrade: "+pos(hs))

		// ---- stdio: one peer, its session set up on a goroutine
		is := findFunc(serverDir, "IoServer", "Startup")
		ig, iok := callInGo(is, "AcceptConnection")
		if !iok {
			die("IoServer.Startup: call of AcceptConnection not found")
		}
		f.defBool("stdio_accept_connection_in_go", ig, pos(is))
		f.defBool("stdio_deadline_on_server_field", deadlineOnReceiverField(is), pos(is))

		// ---- AcceptConnection: the connection is closed when NewServerConnection fails
		acf := findFunc(serverDir, "", "AcceptConnection")
		ps := paramNames(acf.Type)
		if len(ps) == 0 {
			die("AcceptConnection has no parameters")
		}
		var nscErr string
		ast.Inspect(acf.Body, func(n ast.Node) bool {
			as, ok := n.(*ast.AssignStmt)
			if !ok || len(as.Rhs) != 1 || len(as.Lhs) != 2 {
				return true
			}
			if c, ok := as.Rhs[0].(*ast.CallExpr); ok && calleeName(c) == "NewServerConnection" {
				nscErr = exprText(as.Lhs[1])
				if len(c.Args) == 0 || exprText(c.Args[0]) != ps[0] {
					die("AcceptConnection: NewServerConnection is not given the connection parameter")
				}
			}
			return true
		})
		if nscErr == "" {
			die("AcceptConnection: `x, err := NewServerConnection(..)` not found")
		}
		eb := errBranch(acf.Body.List, nscErr)
		if eb == nil {
			die("AcceptConnection: no branch for the error of NewServerConnection")
		}
		f.defBool("accept_connection_closes_on_error", closesVar(eb, ps[0]) && leaves(eb) == "return",
			"the branch taken when NewServerConnection fails closes the connection parameter and returns: "+pos(acf))
		f.defBool("accept_connection_hands_session_to_handler", findCall(acf, "HandleConnection") != nil, pos(acf))

		// ---- NewServerConnection: the deadline, and on what
		nsc := findFunc("internal/socketace", "", "NewServerConnection")
		np := paramNames(nsc.Type)
		if len(np) == 0 {
			die("NewServerConnection has no parameters")
		}
		armed, cleared, own := false, false, true
		var targets []string
		for _, c := range deadlineCalls(nsc.Body) {
			if c.recv != np[0] {
				own = false
			}
			targets = append(targets, c.recv)
			if c.zero && c.deferred {
				cleared = true
			}
			if !c.zero && !c.deferred {
				armed = true
			}
		}
		hsCall := findCall(nsc, "handshake")
		if hsCall == nil || findCall(nsc, "upgrade") == nil {
			die("NewServerConnection: calls of handshake / upgrade not found")
		}
		// the deadline must be set before the first read
		before := false
		ast.Inspect(nsc.Body, func(n ast.Node) bool {
			if c, ok := n.(*ast.CallExpr); ok && calleeName(c) == "SetDeadline" && c.Pos() < hsCall.Pos() {
				before = true
			}
			return true
		})
		f.defBool("server_deadline_armed", armed && before, "a SetDeadline with a time, outside defer, before the call of handshake: "+pos(nsc))
		f.defBool("server_deadline_cleared", cleared, "a deferred SetDeadline(time.Time{}): "+pos(nsc))
		f.defBool("server_deadline_on_own_parameter", own && len(targets) > 0, "every deadline call of NewServerConnection acts on its first parameter: "+pos(nsc))
		sort.Strings(targets)
		str("server_deadline_targets", roleSet(func() []string {
			var out []string
			for _, t := range targets {
				if t == np[0] {
					out = append(out, "param")
				} else {
					out = append(out, t)
				}
			}
			return out
		}()), pos(nsc))
		// a lock held while blocked on the peer
		blocking := map[string]bool{"Handshake": true, "HandshakeContext": true, "Read": true, "handshake": true, "upgrade": true}
		held := false
		for _, x := range []struct{ recv, fn string }{{"", "NewServerConnection"}, {"ServerConnection", "handshake"}, {"ServerConnection", "upgrade"}} {
			if lockAcrossBlocking(findFunc("internal/socketace", x.recv, x.fn), blocking) {
				held = true
			}
		}
		if lockAcrossBlocking(acf, map[string]bool{"NewServerConnection": true}) {
			held = true
		}
		f.defBool("upgrade_lock_held_across_tls_handshake", held,
			"a Lock() still held when the peer is read from (Read, Handshake, handshake, upgrade) in NewServerConnection / handshake / upgrade / AcceptConnection")
		ug := findFunc("internal/socketace", "ServerConnection", "upgrade")
		f.defBool("starttls_handshake_inside_upgrade", findCall(ug, "Handshake") != nil, pos(ug))
		return f
	})
}
