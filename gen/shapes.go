package main

import (
	"go/ast"
	"go/token"
	"math/big"
)

const streamsDir = "internal/streams"
const serverDir = "internal/server"

// callInGo reports whether a call to a function/method with the given name occurs inside a `go` statement of fd
// (directly, or inside a function literal started with go).
func callInGo(fd *ast.FuncDecl, name string) (inGo bool, found bool) {
	var walk func(n ast.Node, under bool)
	walk = func(n ast.Node, under bool) {
		ast.Inspect(n, func(m ast.Node) bool {
			switch x := m.(type) {
			case *ast.GoStmt:
				walk(x.Call, true)
				return false
			case *ast.CallExpr:
				callee := ""
				switch f := x.Fun.(type) {
				case *ast.Ident:
					callee = f.Name
				case *ast.SelectorExpr:
					callee = f.Sel.Name
				}
				if callee == name {
					found = true
					if under {
						inGo = true
					}
				}
			}
			return true
		})
	}
	walk(fd.Body, false)
	return
}

func init() {
	emitters = append(emitters, func() *coqFile {
		f := newCoq("Shapes")
		// PipeData: capacities of the two result channels
		pd := findFunc(streamsDir, "", "PipeData")
		var caps []*big.Int
		ast.Inspect(pd.Body, func(n ast.Node) bool {
			as, ok := n.(*ast.AssignStmt)
			if !ok || len(as.Rhs) != 1 {
				return true
			}
			call, ok := as.Rhs[0].(*ast.CallExpr)
			if !ok {
				return true
			}
			if id, ok := call.Fun.(*ast.Ident); !ok || id.Name != "make" {
				return true
			}
			if _, ok := call.Args[0].(*ast.ChanType); !ok {
				return true
			}
			c := big.NewInt(0)
			if len(call.Args) > 1 {
				c = evalInt(streamsDir, call.Args[1])
			}
			caps = append(caps, c)
			return true
		})
		if len(caps) != 2 {
			die("PipeData: expected two result channels, found %d", len(caps))
		}
		f.defN("pipe_chan_cap_down", caps[0], pos(pd))
		f.defN("pipe_chan_cap_up", caps[1], pos(pd))
		// how many reports does the select consume? (one select statement with two receive cases = one report)
		selects := 0
		ast.Inspect(pd.Body, func(n ast.Node) bool {
			if _, ok := n.(*ast.SelectStmt); ok {
				selects++
			}
			return true
		})
		f.defN("pipe_reports_consumed", big.NewInt(int64(selects)), "select statements in PipeData")

		// acceptStream: is the per-stream handler started with go? does an error path `continue`?
		as := findFunc(serverDir, "ConnectionHandler", "acceptStream")
		inGo, found := callInGo(as, "multiplexToUpstream")
		if !found {
			die("acceptStream: call of multiplexToUpstream not found")
		}
		f.defBool("accept_stream_spawns", inGo, pos(as))
		cont := false
		ast.Inspect(as.Body, func(n ast.Node) bool {
			if b, ok := n.(*ast.BranchStmt); ok && b.Tok == token.CONTINUE {
				cont = true
			}
			return true
		})
		f.defBool("accept_stream_continues_on_error", cont, "a continue statement in "+pos(as))
		// listener accept loops
		for _, x := range []struct{ recv, name string }{{"SocketServer", "socket_accept_spawns"}, {"PacketServer", "packet_accept_spawns"}} {
			fd := findFunc(serverDir, x.recv, "acceptConnection")
			g, ok := callInGo(fd, "AcceptConnection")
			if !ok {
				die("%s.acceptConnection: call of AcceptConnection not found", x.recv)
			}
			f.defBool(x.name, g, pos(fd))
		}
		// frame size versus carrier message size: MaxFrameSize = buffers.BufferSize - K on both ends
		bs := findValue("internal/util/buffers", "BufferSize")
		f.defN("buffer_size", evalInt("internal/util/buffers", bs), pos(bs))
		for _, x := range []struct{ dir, recv, fn, name string }{{serverDir, "ConnectionHandler", "HandleConnection", "server_max_frame"},
			{"internal/client/upstream", "Upstreams", "creteSession", "client_max_frame"}} {
			fd := findFunc(x.dir, x.recv, x.fn)
			var v *big.Int
			ast.Inspect(fd.Body, func(n ast.Node) bool {
				a, ok := n.(*ast.AssignStmt)
				if ok && len(a.Lhs) == 1 && exprText(a.Lhs[0]) == "config.MaxFrameSize" {
					v = evalInt(x.dir, a.Rhs[0])
				}
				return true
			})
			if v == nil {
				die("%s: MaxFrameSize assignment not found", x.fn)
			}
			f.defN(x.name, v, pos(fd))
		}
		mh := findValue(streamsDir, "MaxHeaderSize")
		f.defN("max_header_size", evalInt(streamsDir, mh), pos(mh))
		return f
	})
}
