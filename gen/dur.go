package main

import (
	"go/ast"
	"go/token"
	"math/big"
)

type big_Int = big.Int

var durUnits = map[string]int64{"Nanosecond": 1, "Microsecond": 1000, "Millisecond": 1000000, "Second": 1000000000,
	"Minute": 60000000000, "Hour": 3600000000000}

func evalDur(e ast.Expr) *big.Int {
	switch x := e.(type) {
	case *ast.BasicLit:
		return evalInt("", x)
	case *ast.ParenExpr:
		return evalDur(x.X)
	case *ast.SelectorExpr:
		if id, ok := x.X.(*ast.Ident); ok && id.Name == "time" {
			if u, ok := durUnits[x.Sel.Name]; ok {
				return big.NewInt(u)
			}
		}
	case *ast.BinaryExpr:
		a, b := evalDur(x.X), evalDur(x.Y)
		switch x.Op {
		case token.MUL:
			return new(big.Int).Mul(a, b)
		case token.ADD:
			return new(big.Int).Add(a, b)
		}
	case *ast.CallExpr:
		if len(x.Args) == 1 {
			return evalDur(x.Args[0])
		}
	}
	die("cannot evaluate duration %q at %s", exprText(e), pos(e))
	return nil
}
