// Translator: reads declarations from the socketace working tree (go/parser, go/ast only) and
// writes Coq definitions. It never guesses: a declaration it cannot find or evaluate is a fatal error (exit 2).
package main

import (
	"fmt"
	"go/ast"
	"go/parser"
	"go/printer"
	"go/token"
	"math/big"
	"os"
	"path/filepath"
	"sort"
	"strconv"
	"strings"
)

var repo string
var fset = token.NewFileSet()
var pkgCache = map[string]map[string]*ast.File{}

type fatal struct{ msg string }

func die(format string, a ...interface{}) {
	panic(fatal{fmt.Sprintf(format, a...)})
}

func loadDir(rel string) map[string]*ast.File {
	if p, ok := pkgCache[rel]; ok {
		return p
	}
	dir := filepath.Join(repo, rel)
	ents, err := os.ReadDir(dir)
	if err != nil {
		die("cannot read %s: %v", dir, err)
	}
	files := map[string]*ast.File{}
	for _, e := range ents {
		n := e.Name()
		if !strings.HasSuffix(n, ".go") || strings.HasSuffix(n, "_test.go") || strings.HasPrefix(n, "zz_verif") {
			continue
		}
		f, err := parser.ParseFile(fset, filepath.Join(dir, n), nil, parser.ParseComments)
		if err != nil {
			die("cannot parse %s/%s: %v", rel, n, err)
		}
		files[n] = f
	}
	pkgCache[rel] = files
	return files
}

func sortedFiles(p map[string]*ast.File) []string {
	var ns []string
	for n := range p {
		ns = append(ns, n)
	}
	sort.Strings(ns)
	return ns
}

// findValueSpec finds a package-level const or var by name.
func findValue(rel, name string) ast.Expr {
	p := loadDir(rel)
	for _, fn := range sortedFiles(p) {
		for _, d := range p[fn].Decls {
			gd, ok := d.(*ast.GenDecl)
			if !ok || (gd.Tok != token.CONST && gd.Tok != token.VAR) {
				continue
			}
			for _, s := range gd.Specs {
				vs := s.(*ast.ValueSpec)
				for i, id := range vs.Names {
					if id.Name == name {
						if i < len(vs.Values) {
							return vs.Values[i]
						}
						die("%s.%s has no initialiser", rel, name)
					}
				}
			}
		}
	}
	die("declaration %s not found in %s", name, rel)
	return nil
}

func findFunc(rel, recv, name string) *ast.FuncDecl {
	p := loadDir(rel)
	for _, fn := range sortedFiles(p) {
		for _, d := range p[fn].Decls {
			fd, ok := d.(*ast.FuncDecl)
			if !ok || fd.Name.Name != name {
				continue
			}
			r := ""
			if fd.Recv != nil && len(fd.Recv.List) == 1 {
				t := fd.Recv.List[0].Type
				if st, ok := t.(*ast.StarExpr); ok {
					t = st.X
				}
				if id, ok := t.(*ast.Ident); ok {
					r = id.Name
				}
			}
			if r == recv {
				return fd
			}
		}
	}
	die("function %s.%s not found in %s", recv, name, rel)
	return nil
}

func exprText(e ast.Node) string {
	var sb strings.Builder
	printer.Fprint(&sb, fset, e)
	return sb.String()
}

func pos(n ast.Node) string {
	p := fset.Position(n.Pos())
	r, _ := filepath.Rel(repo, p.Filename)
	return fmt.Sprintf("%s:%d", r, p.Line)
}

// evalString evaluates a constant string expression (literals, +, references to package constants).
func evalString(rel string, e ast.Expr) string {
	switch x := e.(type) {
	case *ast.BasicLit:
		if x.Kind == token.STRING {
			s, err := strconv.Unquote(x.Value)
			if err != nil {
				die("bad string literal at %s", pos(x))
			}
			return s
		}
	case *ast.BinaryExpr:
		if x.Op == token.ADD {
			return evalString(rel, x.X) + evalString(rel, x.Y)
		}
	case *ast.ParenExpr:
		return evalString(rel, x.X)
	case *ast.Ident:
		return evalString(rel, findValue(rel, x.Name))
	case *ast.CallExpr: // string(x) / []byte(x) conversions
		if len(x.Args) == 1 {
			return evalString(rel, x.Args[0])
		}
	}
	die("cannot evaluate string expression %q at %s", exprText(e), pos(e))
	return ""
}

// evalRat evaluates a constant numeric expression exactly.
func evalRat(rel string, e ast.Expr) *big.Rat {
	switch x := e.(type) {
	case *ast.BasicLit:
		switch x.Kind {
		case token.INT:
			i, ok := new(big.Int).SetString(x.Value, 0)
			if ok {
				return new(big.Rat).SetInt(i)
			}
		case token.FLOAT:
			r, ok := new(big.Rat).SetString(x.Value)
			if ok {
				return r
			}
		case token.CHAR:
			s, _, _, err := strconv.UnquoteChar(x.Value[1:len(x.Value)-1], '\'')
			if err == nil {
				return new(big.Rat).SetInt64(int64(s))
			}
		}
	case *ast.ParenExpr:
		return evalRat(rel, x.X)
	case *ast.UnaryExpr:
		if x.Op == token.SUB {
			return new(big.Rat).Neg(evalRat(rel, x.X))
		}
	case *ast.BinaryExpr:
		a, b := evalRat(rel, x.X), evalRat(rel, x.Y)
		switch x.Op {
		case token.ADD:
			return new(big.Rat).Add(a, b)
		case token.SUB:
			return new(big.Rat).Sub(a, b)
		case token.MUL:
			return new(big.Rat).Mul(a, b)
		case token.QUO:
			if b.Sign() == 0 {
				die("division by zero at %s", pos(e))
			}
			if intConstExpr(rel, x.X) && intConstExpr(rel, x.Y) {
				// two integer constants: Go divides them as integers (8 / 5 is 1, 8.0 / 5.0 is 1.6)
				return new(big.Rat).SetInt(new(big.Int).Quo(a.Num(), b.Num()))
			}
			q := new(big.Rat).Quo(a, b)
			return q
		case token.SHL:
			if a.IsInt() && b.IsInt() {
				return new(big.Rat).SetInt(new(big.Int).Lsh(a.Num(), uint(b.Num().Int64())))
			}
		}
	case *ast.Ident:
		return evalRat(rel, findValue(rel, x.Name))
	case *ast.SelectorExpr: // pkg.Const -- resolved through the table of known packages
		if id, ok := x.X.(*ast.Ident); ok {
			if dir, ok := knownPkgs[id.Name]; ok {
				return evalRat(dir, findValue(dir, x.Sel.Name))
			}
		}
	case *ast.CallExpr: // conversions such as uint16(128), time.Duration(..) are transparent
		if len(x.Args) == 1 {
			return evalRat(rel, x.Args[0])
		}
	}
	die("cannot evaluate numeric expression %q at %s", exprText(e), pos(e))
	return nil
}

// intConstExpr: the expression is built from integer literals, character literals and named integer constants only (no
// floating-point literal, no conversion), so that Go's constant arithmetic on it is integer arithmetic.
func intConstExpr(rel string, e ast.Expr) bool {
	switch x := e.(type) {
	case *ast.BasicLit:
		return x.Kind == token.INT || x.Kind == token.CHAR
	case *ast.ParenExpr:
		return intConstExpr(rel, x.X)
	case *ast.UnaryExpr:
		return intConstExpr(rel, x.X)
	case *ast.BinaryExpr:
		return intConstExpr(rel, x.X) && intConstExpr(rel, x.Y)
	case *ast.Ident:
		return intConstExpr(rel, findValue(rel, x.Name))
	case *ast.SelectorExpr:
		if id, ok := x.X.(*ast.Ident); ok {
			if dir, ok := knownPkgs[id.Name]; ok {
				return intConstExpr(dir, findValue(dir, x.Sel.Name))
			}
		}
	}
	return false
}

func evalInt(rel string, e ast.Expr) *big.Int {
	r := evalRat(rel, e)
	if !r.IsInt() {
		die("expression %q at %s is not an integer", exprText(e), pos(e))
	}
	return r.Num()
}

var knownPkgs = map[string]string{
	"util":     "internal/streams/dns/util",
	"buffers":  "internal/util/buffers",
	"commands": "internal/streams/dns/commands",
	"enc":      "internal/util/enc",
}

// singleReturn returns the expression of the only return statement of a method body
// consisting of exactly one statement.
func singleReturn(fd *ast.FuncDecl) ast.Expr {
	if fd.Body == nil || len(fd.Body.List) != 1 {
		die("%s at %s: expected a single return statement", fd.Name.Name, pos(fd))
	}
	rs, ok := fd.Body.List[0].(*ast.ReturnStmt)
	if !ok || len(rs.Results) != 1 {
		die("%s at %s: expected a single return statement", fd.Name.Name, pos(fd))
	}
	return rs.Results[0]
}

// ---- Coq output helpers

type coqFile struct {
	name string
	sb   strings.Builder
}

func newCoq(name string) *coqFile {
	f := &coqFile{name: name}
	f.sb.WriteString("(* GENERATED by /verif/gen from the socketace working tree. Do not edit. *)\n")
	f.sb.WriteString("From Coq Require Import List NArith ZArith Bool.\nImport ListNotations.\nOpen Scope N_scope.\n\n")
	return f
}

func (f *coqFile) comment(s string) { fmt.Fprintf(&f.sb, "(* %s *)\n", strings.Replace(s, "*)", "* )", -1)) }
func (f *coqFile) defN(name string, v *big.Int, src string) {
	if v.Sign() < 0 {
		die("negative constant %s", name)
	}
	fmt.Fprintf(&f.sb, "Definition %s : N := %s. (* %s *)\n", name, v.String(), src)
}
func (f *coqFile) defBool(name string, v bool, src string) {
	fmt.Fprintf(&f.sb, "Definition %s : bool := %v. (* %s *)\n", name, v, src)
}
func nlist(b []byte) string {
	parts := make([]string, len(b))
	for i, x := range b {
		parts[i] = strconv.Itoa(int(x))
	}
	return "[" + strings.Join(parts, "; ") + "]"
}
func (f *coqFile) defBytes(name string, b []byte, src string) {
	fmt.Fprintf(&f.sb, "Definition %s : list N := %s. (* %s *)\n", name, nlist(b), src)
}
func (f *coqFile) defBytesList(name string, bs [][]byte, src string) {
	parts := make([]string, len(bs))
	for i, b := range bs {
		parts[i] = nlist(b)
	}
	fmt.Fprintf(&f.sb, "Definition %s : list (list N) := [%s]. (* %s *)\n", name, strings.Join(parts, ";\n  "), src)
}
func (f *coqFile) raw(s string) { f.sb.WriteString(s) }

func (f *coqFile) write(outdir string) {
	p := filepath.Join(outdir, f.name+".v")
	content := f.sb.String()
	old, err := os.ReadFile(p)
	if err == nil && string(old) == content {
		return
	}
	if err := os.WriteFile(p, []byte(content), 0o644); err != nil {
		die("write %s: %v", p, err)
	}
}
