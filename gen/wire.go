package main

import (
	"go/ast"
	"go/token"
	"math/big"
	"sort"
	"strconv"
	"strings"
)

const cmdDir = "internal/streams/dns/commands"

// intLiteralsIn collects the distinct integer literals in a function body.
func intLiteralsIn(fd *ast.FuncDecl) []string {
	set := map[string]bool{}
	ast.Inspect(fd.Body, func(n ast.Node) bool {
		if bl, ok := n.(*ast.BasicLit); ok && bl.Kind == token.INT && bl.Value != "0" {
			set[bl.Value] = true
		}
		return true
	})
	var out []string
	for k := range set {
		out = append(out, k)
	}
	sort.Strings(out)
	return out
}

func init() {
	emitters = append(emitters, func() *coqFile {
		f := newCoq("NameLimits")
		for _, n := range []string{"HostnameMaxLen", "LabelMaxlen"} {
			e := findValue(dnsUtilDir, n)
			f.defN(strings.ToLower(n[:1])+n[1:], evalInt(dnsUtilDir, e), pos(e))
		}
		// Dotify: the one block length it cuts by - the loop bound and every slice bound must evaluate to the same number (written as a
		// literal or as a named constant)
		d := findFunc(dnsUtilDir, "", "Dotify")
		var vals []*big.Int
		ast.Inspect(d.Body, func(n ast.Node) bool {
			switch x := n.(type) {
			case *ast.BinaryExpr:
				if x.Op == token.GTR || x.Op == token.GEQ || x.Op == token.LSS || x.Op == token.LEQ {
					for _, side := range []ast.Expr{x.X, x.Y} {
						if _, isCall := side.(*ast.CallExpr); !isCall {
							vals = append(vals, evalInt(dnsUtilDir, side))
						}
					}
				}
			case *ast.SliceExpr:
				for _, b := range []ast.Expr{x.Low, x.High} {
					if b != nil && exprText(b) != "0" {
						vals = append(vals, evalInt(dnsUtilDir, b))
					}
				}
			}
			return true
		})
		if len(vals) == 0 {
			die("Dotify: no block length found")
		}
		for _, x := range vals {
			if x.Cmp(vals[0]) != 0 {
				die("Dotify: expected one block length, found %v", vals)
			}
		}
		f.defN("dotify_every", vals[0], pos(d))
		// per-record payload sizes in wrap.go: the literal N in `len(data) > N` of each splitter
		for _, w := range []struct{ fn, name string }{{"WrapDnsResponseA", "chunk_a"}, {"WrapDnsResponseAAAA", "chunk_aaaa"},
			{"WrapDnsResponseTxt", "chunk_txt"}, {"WrapDnsResponseNull", "chunk_null"}, {"WrapDnsResponsePrivate", "chunk_private"}} {
			fd := findFunc(dnsUtilDir, "", w.fn)
			var found *big.Int
			ast.Inspect(fd.Body, func(n ast.Node) bool {
				be, ok := n.(*ast.BinaryExpr)
				if ok && be.Op == token.GTR && exprText(be.X) == "len(data)" {
					if bl, ok := be.Y.(*ast.BasicLit); ok && bl.Kind == token.INT && bl.Value != "0" {
						found, _ = new(big.Int).SetString(bl.Value, 0)
					}
				}
				return true
			})
			if found == nil {
				die("%s: chunk size comparison len(data) > N not found", w.fn)
			}
			f.defN(w.name, found, pos(fd))
		}
		// strings per TXT record: len(txtData) == N
		txt := findFunc(dnsUtilDir, "", "WrapDnsResponseTxt")
		var per *big.Int
		ast.Inspect(txt.Body, func(n ast.Node) bool {
			be, ok := n.(*ast.BinaryExpr)
			if ok && be.Op == token.EQL && exprText(be.X) == "len(txtData)" {
				if bl, ok := be.Y.(*ast.BasicLit); ok && bl.Value != "0" {
					per, _ = new(big.Int).SetString(bl.Value, 0)
				}
			}
			return true
		})
		if per == nil {
			die("WrapDnsResponseTxt: strings-per-record constant not found")
		}
		f.defN("txt_strings_per_record", per, pos(txt))
		// record type numbers
		for _, q := range []struct{ v, name string }{{"QueryTypeNull", "qt_null"}, {"QueryTypePrivate", "qt_private"}} {
			e := findValue(dnsUtilDir, q.v)
			f.defN(q.name, evalInt(dnsUtilDir, e), pos(e))
		}
		ts := findValue(dnsUtilDir, "TypeSocketAce")
		f.defN("type_socketace", evalInt(dnsUtilDir, ts), pos(ts))
		return f
	})
	emitters = append(emitters, func() *coqFile {
		f := newCoq("Commands")
		// var Commands = []Command{CmdVersion, ...}: order, and per command: code, NeedsUserId, has NewRequest, has NewResponse
		cl, ok := findValue(cmdDir, "Commands").(*ast.CompositeLit)
		if !ok {
			die("commands.Commands is not a composite literal")
		}
		f.raw("(* (code, needs_user_id, has_new_request, has_new_response) in table order *)\n")
		f.raw("Definition command_table : list (N * bool * bool * bool) := [")
		for i, el := range cl.Elts {
			id, ok := el.(*ast.Ident)
			if !ok {
				die("commands.Commands: element %d is not an identifier", i)
			}
			lit, ok := findValue(cmdDir, id.Name).(*ast.CompositeLit)
			if !ok {
				die("commands.%s is not a composite literal", id.Name)
			}
			var code *big.Int
			needs, hasReq, hasResp := false, false, false
			for _, e := range lit.Elts {
				kv, ok := e.(*ast.KeyValueExpr)
				if !ok {
					die("commands.%s: positional field", id.Name)
				}
				switch exprText(kv.Key) {
				case "Code":
					code = evalInt(cmdDir, kv.Value)
				case "NeedsUserId":
					needs = exprText(kv.Value) == "true"
				case "NewRequest":
					hasReq = true
				case "NewResponse":
					hasResp = true
				}
			}
			if code == nil {
				die("commands.%s has no Code", id.Name)
			}
			if i > 0 {
				f.raw("; ")
			}
			f.raw("(" + code.String() + ", " + boolS(needs) + ", " + boolS(hasReq) + ", " + boolS(hasResp) + ")")
		}
		f.raw("]. (* " + pos(cl) + " *)\n")
		// BadErrors, in order, as byte strings
		be, ok := findValue(cmdDir, "BadErrors").(*ast.CompositeLit)
		if !ok {
			die("commands.BadErrors is not a composite literal")
		}
		var errs [][]byte
		for _, el := range be.Elts {
			id, ok := el.(*ast.Ident)
			if !ok {
				die("BadErrors: element is not an identifier")
			}
			call, ok := findValue(cmdDir, id.Name).(*ast.CallExpr)
			if !ok || len(call.Args) != 1 {
				die("commands.%s is not errors.New(\"..\")", id.Name)
			}
			s, err := strconv.Unquote(exprText(call.Args[0]))
			if err != nil {
				die("commands.%s: %v", id.Name, err)
			}
			errs = append(errs, []byte(s))
		}
		f.defBytesList("bad_errors", errs, pos(be))
		// EncodeUserId: const MaxUserId
		eu := findFunc(cmdDir, "", "EncodeUserId")
		var mu ast.Expr
		ast.Inspect(eu, func(n ast.Node) bool {
			if vs, ok := n.(*ast.ValueSpec); ok {
				for i, id := range vs.Names {
					if id.Name == "MaxUserId" && i < len(vs.Values) {
						mu = vs.Values[i]
					}
				}
			}
			return true
		})
		if mu == nil {
			die("EncodeUserId: MaxUserId not found")
		}
		f.defN("max_user_id", evalInt(cmdDir, mu), pos(mu))
		pv := findValue(dnsDir, "ProtocolVersion")
		f.defN("protocol_version", evalInt(dnsDir, pv), pos(pv))
		return f
	})
}
