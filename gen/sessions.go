package main

import (
	"go/ast"
	"go/token"
	"strings"
)

const dnsDir = "internal/streams/dns"

func init() {
	emitters = append(emitters, func() *coqFile {
		f := newCoq("Sessions")
		// const MaxUserCount = 36 * 36 inside NewServerDnsListener
		nl := findFunc(dnsDir, "", "NewServerDnsListener")
		var maxUsers ast.Expr
		ast.Inspect(nl, func(n ast.Node) bool {
			if vs, ok := n.(*ast.ValueSpec); ok {
				for i, id := range vs.Names {
					if id.Name == "MaxUserCount" && i < len(vs.Values) {
						maxUsers = vs.Values[i]
					}
				}
			}
			return true
		})
		if maxUsers == nil {
			die("MaxUserCount not found in NewServerDnsListener")
		}
		f.defN("max_user_count", evalInt(dnsDir, maxUsers), pos(maxUsers))
		ct := findValue(dnsDir, "ConnectionTimeout")
		f.defN("connection_timeout_ns", evalIntDur(ct), exprText(ct)+" at "+pos(ct))
		oct := findValue(dnsDir, "OldConnectionTimeout")
		f.raw("(* OldConnectionTimeout = " + exprText(oct) + " at " + pos(oct) + " *)\n")
		be, ok := oct.(*ast.BinaryExpr)
		if !ok || be.Op != token.MUL || exprText(be.Y) != "ConnectionTimeout" {
			die("OldConnectionTimeout is not of the form K * ConnectionTimeout at %s", pos(oct))
		}
		f.defN("old_timeout_factor", evalInt(dnsDir, be.X), pos(oct))

		// The expiry sweep: two `for _, u := range srv.<table>` loops in the goroutine; in each, the assignments
		// executed when the entry has expired:  srv.<table>[u.UserId] = nil | u
		var loops [][]string
		var conds []string
		ast.Inspect(nl, func(n ast.Node) bool {
			rs, ok := n.(*ast.RangeStmt)
			if !ok {
				return true
			}
			tbl := exprText(rs.X)
			if tbl != "srv.connections" && tbl != "srv.oldConnections" {
				return true
			}
			var asg []string
			cond := ""
			ast.Inspect(rs.Body, func(m ast.Node) bool {
				ifs, ok := m.(*ast.IfStmt)
				if ok && strings.Contains(exprText(ifs.Cond), "Before(now)") {
					cond = strings.Replace(exprText(ifs.Cond), " ", "", -1)
					for _, st := range ifs.Body.List {
						as, ok := st.(*ast.AssignStmt)
						if !ok || len(as.Lhs) != 1 {
							continue
						}
						ix, ok := as.Lhs[0].(*ast.IndexExpr)
						if !ok || exprText(ix.Index) != "u.UserId" {
							continue
						}
						asg = append(asg, exprText(ix.X)+"="+exprText(as.Rhs[0]))
					}
				}
				return true
			})
			loops = append(loops, append([]string{tbl}, asg...))
			conds = append(conds, cond)
			return true
		})
		if len(loops) != 2 || loops[0][0] != "srv.connections" || loops[1][0] != "srv.oldConnections" {
			die("expiry sweep: expected one loop over srv.connections followed by one over srv.oldConnections, found %v", loops)
		}
		wantCond := []string{"u.lastConnection.Add(ConnectionTimeout).Before(now)", "u.lastConnection.Add(OldConnectionTimeout).Before(now)"}
		for i := range conds {
			if conds[i] != wantCond[i] {
				die("expiry sweep: loop %d condition is %q, expected %q", i+1, conds[i], wantCond[i])
			}
		}
		// encode assignment: (is_old_table, value_is_u)
		for i, l := range loops {
			f.raw("Definition sweep_loop" + string(rune('1'+i)) + " : list (bool * bool) := [")
			for j, a := range l[1:] {
				parts := strings.SplitN(a, "=", 2)
				isOld := parts[0] == "srv.oldConnections"
				if !isOld && parts[0] != "srv.connections" {
					die("expiry sweep: unexpected assignment target %s", parts[0])
				}
				isU := parts[1] == "u"
				if !isU && parts[1] != "nil" {
					die("expiry sweep: unexpected assigned value %s", parts[1])
				}
				if j > 0 {
					f.raw("; ")
				}
				f.raw("(" + boolS(isOld) + ", " + boolS(isU) + ")")
			}
			f.raw("]. (* " + strings.Join(l[1:], "; ") + " *)\n")
		}
		// closeConnection: does it compare identities?  (s.connections[u.UserId] != u) style guard
		cc := findFunc(dnsDir, "ServerDnsListener", "closeConnection")
		ident := false
		ast.Inspect(cc, func(n ast.Node) bool {
			be, ok := n.(*ast.BinaryExpr)
			if ok && (be.Op == token.NEQ || be.Op == token.EQL) {
				x, y := exprText(be.X), exprText(be.Y)
				if (strings.Contains(x, "connections[") && y == "u") || (strings.Contains(y, "connections[") && x == "u") ||
					(x == "user" && y == "u") || (x == "u" && y == "user") {
					ident = true
				}
			}
			return true
		})
		f.defBool("close_checks_identity", ident, "closeConnection compares the table entry with its argument: "+pos(cc))
		return f
	})
}

func boolS(b bool) string {
	if b {
		return "true"
	}
	return "false"
}

// evalIntDur evaluates K * time.Minute style expressions to nanoseconds.
func evalIntDur(e ast.Expr) *big_Int {
	return evalDur(e)
}
