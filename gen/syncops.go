package main

import (
	"go/ast"
	"go/token"
	"sort"
	"strings"
)

// Gen/SyncOps.v: which synchronisation operations the per-connection and per-peer paths contain. The transition-system models of
// C02 / C14 / C15 assume that a logical connection (resp. a peer's handshake) runs on its own goroutine and shares nothing with its
// neighbours but the multiplexer session: no lock, no semaphore-like channel, no wait group. A lock or a counting channel added to
// one of these functions is exactly what makes one connection wait for another; the property files assert the readings by
// reflexivity, so such an edit breaks a proof obligation even when no scenario happens to produce the contention.

// syncOps lists, sorted and with multiplicity, the synchronisation operations in a function body: calls of the usual methods of
// sync.Mutex / RWMutex / WaitGroup / Once / Cond, channel sends, receives, selects, range-over-channel cannot be told from syntax
// alone and is not used in these functions.
func syncOps(fd *ast.FuncDecl, roles map[string]string) string {
	var ops []string
	names := map[string]bool{"Lock": true, "Unlock": true, "RLock": true, "RUnlock": true, "Wait": true, "Add": true, "Done": true,
		"Do": true, "Signal": true, "Broadcast": true, "Acquire": true, "Release": true, "TryLock": true}
	ast.Inspect(fd.Body, func(n ast.Node) bool {
		switch x := n.(type) {
		case *ast.CallExpr:
			if sel, ok := x.Fun.(*ast.SelectorExpr); ok && names[sel.Sel.Name] && !strings.Contains(exprText(sel.X), "time.") {
				ops = append(ops, roleName(roles, exprText(sel.X))+"."+sel.Sel.Name)
			}
		case *ast.SendStmt:
			ops = append(ops, "send:"+roleName(roles, exprText(x.Chan)))
		case *ast.UnaryExpr:
			if x.Op == token.ARROW {
				ops = append(ops, "recv:"+roleName(roles, exprText(x.X)))
			}
		case *ast.SelectStmt:
			ops = append(ops, "select")
		}
		return true
	})
	sort.Strings(ops)
	return strings.Join(ops, ";")
}

func init() {
	emitters = append(emitters, func() *coqFile {
		f := newCoq("SyncOps")
		f.raw("From Coq Require Import String.\nOpen Scope string_scope.\n")
		for _, x := range []struct{ dir, recv, fn, name string }{
			{serverDir, "ConnectionHandler", "HandleConnection", "sync_server_handle_connection"},
			{serverDir, "ConnectionHandler", "acceptStream", "sync_server_accept_stream"},
			{serverDir, "ConnectionHandler", "multiplexToUpstream", "sync_server_multiplex_to_upstream"},
			{serverDir, "ConnectionHandler", "muxHandler", "sync_server_mux_handler"},
			{serverDir, "SocketServer", "acceptConnection", "sync_socket_accept_connection"},
			{serverDir, "PacketServer", "acceptConnection", "sync_packet_accept_connection"},
			{serverDir, "HttpServer", "EndpointHandler", "sync_http_endpoint_handler"},
			{streamsDir, "", "PipeData", "sync_pipe_data"},
			{streamsDir, "", "pipeData", "sync_pipe_data_loop"},
			{"internal/client/listener", "AbstractListener", "HandleConnection", "sync_listener_handle_connection"},
			{"internal/client/listener", "AbstractListener", "ConnectDirectly", "sync_listener_connect_directly"},
			{"internal/client/listener", "SocketListener", "accept", "sync_listener_accept"},
			{"internal/client/upstream", "Upstreams", "Connect", "sync_upstreams_connect"},
			{"internal/client/upstream", "Upstreams", "openStream", "sync_upstreams_open_stream"},
			{"internal/socketace", "", "NewServerConnection", "sync_new_server_connection"},
			{"internal/socketace", "", "NewClientConnection", "sync_new_client_connection"},
			{"internal/socketace", "ServerConnection", "handshake", "sync_server_handshake"},
			{"internal/socketace", "ServerConnection", "upgrade", "sync_server_upgrade"},
			{"internal/socketace", "ClientConnection", "handshake", "sync_client_handshake"},
			{"internal/socketace", "ClientConnection", "upgrade", "sync_client_upgrade"},
			{"internal/socketace", "ClientConnection", "startTls", "sync_client_start_tls"},
		} {
			fd := findFunc(x.dir, x.recv, x.fn)
			roles := map[string]string{}
			if x.fn == "PipeData" {
				roles = pipeRoles(fd)
			} else if x.fn == "pipeData" && len(fd.Type.Params.List) > 0 && len(fd.Type.Params.List[0].Names) > 0 {
				roles[fd.Type.Params.List[0].Names[0].Name] = "errs" // the report channel is the first parameter
			}
			f.raw("Definition " + x.name + " : string := \"" + strings.Replace(syncOps(fd, roles), "\"", "\"\"", -1) + "\". (* " + pos(fd) + " *)\n")
		}
		return f
	})
}
