package main

// Gen/Handshake.v: what the model of the whole client-side negotiation (Nego/Handshake.v) takes from the source:
// the order of stages in Handshake(), the record types tried and their order, every retry count, the probe codecs,
// the fall-back codecs, the shape of the acceptance tests (which branch keeps a codec, which comparison accepts an answer),
// and which stages make Handshake() return an error.

import (
	"go/ast"
	"go/token"
	"math/big"
	"strings"
)

// numbers of the DNS record types named through golang.org/x/net/dns/dnsmessage (RFC 1035 / 2782 / 3596)
var dnsmessageTypes = map[string]int64{"TypeA": 1, "TypeNS": 2, "TypeCNAME": 5, "TypeSOA": 6, "TypePTR": 12, "TypeMX": 15,
	"TypeTXT": 16, "TypeAAAA": 28, "TypeSRV": 33, "TypeOPT": 41}

// qtypeNumber evaluates util.QueryTypeX to its number.
func qtypeNumber(name string) *big.Int {
	e := findValue(dnsUtilDir, name)
	if se, ok := e.(*ast.SelectorExpr); ok && exprText(se.X) == "dnsmessage" {
		v, ok := dnsmessageTypes[se.Sel.Name]
		if !ok {
			die("query type %s = dnsmessage.%s: number not known to the translator", name, se.Sel.Name)
		}
		return big.NewInt(v)
	}
	if ce, ok := e.(*ast.CallExpr); ok && len(ce.Args) == 1 && exprText(ce.Fun) == "dnsmessage.Type" {
		return evalInt(dnsUtilDir, ce.Args[0])
	}
	die("query type %s: unexpected initialiser %s", name, exprText(e))
	return nil
}

// codecCode evaluates enc.XEncoding to the value of its Code().
func codecCode(sel string) string {
	v := findValue(encDir, sel)
	ue, ok := v.(*ast.UnaryExpr)
	if !ok {
		die("enc.%s is not &XEncoder{}", sel)
	}
	ty := ue.X.(*ast.CompositeLit).Type.(*ast.Ident).Name
	return evalInt(encDir, singleReturn(findFunc(encDir, ty, "Code"))).String()
}

// encSel: the X of an expression enc.X, or "".
func encSel(e ast.Expr) string {
	if se, ok := e.(*ast.SelectorExpr); ok && exprText(se.X) == "enc" {
		return se.Sel.Name
	}
	return ""
}

// loopBounds: for every `for` statement of the body, in source order, the literal N of its condition `.. i < N`
// (loops without such a comparison are left out).
func loopBounds(fd *ast.FuncDecl) []int64 {
	var out []int64
	ast.Inspect(fd.Body, func(n ast.Node) bool {
		fs, ok := n.(*ast.ForStmt)
		if !ok || fs.Cond == nil {
			return true
		}
		var b int64
		ast.Inspect(fs.Cond, func(m ast.Node) bool {
			be, ok := m.(*ast.BinaryExpr)
			if ok && (be.Op == token.LSS || be.Op == token.LEQ) {
				if bl, ok := be.Y.(*ast.BasicLit); ok && bl.Kind == token.INT {
					if id, isId := be.X.(*ast.Ident); isId && id.Name == "i" {
						v, _ := new(big.Int).SetString(bl.Value, 0)
						b = v.Int64()
					}
				}
			}
			return true
		})
		if b > 0 {
			out = append(out, b)
		}
		return true
	})
	return out
}

func oneLoopBound(fn string) int64 {
	fd := findFunc(dnsDir, "ClientDnsConnection", fn)
	bs := loopBounds(fd)
	if len(bs) != 1 || bs[0] <= 0 {
		die("%s: expected exactly one counted retry loop, found %v", fn, bs)
	}
	return bs[0]
}

// assignedCodecs: the enc.X values assigned (:= or =) to the variable / field named target inside the body, in source order.
func assignedCodecs(fd *ast.FuncDecl, target string) []string {
	var out []string
	ast.Inspect(fd.Body, func(n ast.Node) bool {
		as, ok := n.(*ast.AssignStmt)
		if !ok || len(as.Lhs) != 1 || len(as.Rhs) != 1 {
			return true
		}
		if exprText(as.Lhs[0]) == target {
			if s := encSel(as.Rhs[0]); s != "" {
				out = append(out, s)
			}
		}
		return true
	})
	return out
}

func init() {
	emitters = append(emitters, func() *coqFile {
		f := newCoq("Handshake")
		str := func(s string) []byte { return []byte(s) }

		// ---- Handshake(): the methods of dc it calls, in source order, and which of them can make it return their error
		hs := findFunc(dnsDir, "ClientDnsConnection", "Handshake")
		var calls [][]byte
		var failing [][]byte
		seen := map[string]bool{}
		var visit func(n ast.Node, inGo bool)
		visit = func(n ast.Node, inGo bool) {
			ast.Inspect(n, func(m ast.Node) bool {
				switch x := m.(type) {
				case *ast.GoStmt:
					return false // the poller started at the end is not part of the negotiation
				case *ast.IfStmt:
					// if err := dc.X(); err != nil { return err }   /   if f, err := dc.X(); err != nil { return err } else if err := dc.Y(f); ...
					if as, ok := x.Init.(*ast.AssignStmt); ok && len(as.Rhs) == 1 {
						if ce, ok := as.Rhs[0].(*ast.CallExpr); ok {
							if se, ok := ce.Fun.(*ast.SelectorExpr); ok && exprText(se.X) == "dc" {
								ret := false
								for _, st := range x.Body.List {
									if rs, ok := st.(*ast.ReturnStmt); ok && len(rs.Results) == 1 && exprText(rs.Results[0]) == "err" {
										ret = true
									}
								}
								if ret && strings.Contains(exprText(x.Cond), "err != nil") {
									failing = append(failing, str(se.Sel.Name))
								}
							}
						}
					}
				case *ast.CallExpr:
					if se, ok := x.Fun.(*ast.SelectorExpr); ok && exprText(se.X) == "dc" {
						name := se.Sel.Name
						if name != "Closed" && !seen[name+"@"+pos(x)] {
							seen[name+"@"+pos(x)] = true
							calls = append(calls, str(name))
						}
					}
				}
				return true
			})
		}
		visit(hs.Body, false)
		if len(calls) == 0 {
			die("Handshake: no stage calls found")
		}
		// the plain form   err := dc.AutoDetectQueryType(); if err != nil { return err }
		ast.Inspect(hs.Body, func(m ast.Node) bool {
			bs, ok := m.(*ast.BlockStmt)
			if !ok {
				return true
			}
			for i := 0; i+1 < len(bs.List); i++ {
				as, ok := bs.List[i].(*ast.AssignStmt)
				if !ok || len(as.Rhs) != 1 || len(as.Lhs) != 1 || exprText(as.Lhs[0]) != "err" {
					continue
				}
				ce, ok := as.Rhs[0].(*ast.CallExpr)
				if !ok {
					continue
				}
				se, ok := ce.Fun.(*ast.SelectorExpr)
				if !ok || exprText(se.X) != "dc" {
					continue
				}
				if is, ok := bs.List[i+1].(*ast.IfStmt); ok && strings.Contains(exprText(is.Cond), "err != nil") {
					for _, st := range is.Body.List {
						if rs, ok := st.(*ast.ReturnStmt); ok && len(rs.Results) == 1 && exprText(rs.Results[0]) == "err" {
							failing = append([][]byte{str(se.Sel.Name)}, failing...)
						}
					}
				}
			}
			return true
		})
		f.defBytesList("handshake_calls", calls, pos(hs))
		f.defBytesList("handshake_failing_calls", failing, "stages whose error Handshake returns")

		// ---- record types: priority order, rounds of the detection, which types are probed with the Raw codec
		qp, ok := findValue(dnsUtilDir, "QueryTypesByPriority").(*ast.CompositeLit)
		if !ok {
			die("util.QueryTypesByPriority is not a composite literal")
		}
		var prio []string
		for _, el := range qp.Elts {
			id, ok := el.(*ast.Ident)
			if !ok {
				die("QueryTypesByPriority: element %s is not an identifier", exprText(el))
			}
			prio = append(prio, qtypeNumber(id.Name).String())
		}
		f.raw("Definition query_types_by_priority : list N := [" + strings.Join(prio, "; ") + "]. (* " + pos(qp) + " *)\n")

		ad := findFunc(dnsDir, "ClientDnsConnection", "AutoDetectQueryType")
		// outer loop: for timeout := 1; .. timeout <= 3; timeout++  -- the inner loop ranges over the priority list
		var rounds *big.Int
		var first *big.Int
		rangesOverPrio := false
		ast.Inspect(ad.Body, func(n ast.Node) bool {
			switch x := n.(type) {
			case *ast.ForStmt:
				if as, ok := x.Init.(*ast.AssignStmt); ok && len(as.Rhs) == 1 {
					first = evalInt(dnsDir, as.Rhs[0])
				}
				ast.Inspect(x.Cond, func(m ast.Node) bool {
					if be, ok := m.(*ast.BinaryExpr); ok && be.Op == token.LEQ {
						rounds = evalInt(dnsDir, be.Y)
					}
					return true
				})
			case *ast.RangeStmt:
				if exprText(x.X) == "util.QueryTypesByPriority" {
					rangesOverPrio = true
				}
			}
			return true
		})
		if rounds == nil || first == nil || !rangesOverPrio {
			die("AutoDetectQueryType: rounds / range over util.QueryTypesByPriority not found")
		}
		f.defN("qtype_rounds", new(big.Int).Add(new(big.Int).Sub(rounds, first), big.NewInt(1)), pos(ad))
		// the early exit: if highestWorking == util.QueryTypeNull { break }
		var stopAt *big.Int
		ast.Inspect(ad.Body, func(n ast.Node) bool {
			is, ok := n.(*ast.IfStmt)
			if !ok {
				return true
			}
			be, ok := is.Cond.(*ast.BinaryExpr)
			if ok && be.Op == token.EQL && exprText(be.X) == "highestWorking" {
				if se, ok := be.Y.(*ast.SelectorExpr); ok && len(is.Body.List) == 1 {
					if bs, ok := is.Body.List[0].(*ast.BranchStmt); ok && bs.Tok == token.BREAK {
						stopAt = qtypeNumber(se.Sel.Name)
					}
				}
			}
			return true
		})
		if stopAt == nil {
			die("AutoDetectQueryType: early exit on the best type not found")
		}
		f.defN("qtype_stop_at", stopAt, "if highestWorking == .. { break }")
		// the replacement rule: highestWorking == 0 || util.QueryTypesByPriority.Before(q, highestWorking)
		repl := false
		ast.Inspect(ad.Body, func(n ast.Node) bool {
			if be, ok := n.(*ast.BinaryExpr); ok && be.Op == token.LOR {
				if exprText(be.X) == "highestWorking == 0" && exprText(be.Y) == "util.QueryTypesByPriority.Before(q, highestWorking)" {
					repl = true
				}
			}
			return true
		})
		f.defBool("qtype_replace_if_none_or_before", repl, "highestWorking == 0 || Before(q, highestWorking)")
		// it fails when nothing was found: if highestWorking == 0 { return ErrConnectionFailed }
		failsNone := false
		ast.Inspect(ad.Body, func(n ast.Node) bool {
			if is, ok := n.(*ast.IfStmt); ok && exprText(is.Cond) == "highestWorking == 0" {
				for _, st := range is.Body.List {
					if rs, ok := st.(*ast.ReturnStmt); ok && len(rs.Results) == 1 && exprText(rs.Results[0]) == "ErrConnectionFailed" {
						failsNone = true
					}
				}
			}
			return true
		})
		f.defBool("qtype_none_is_failure", failsNone, "if highestWorking == 0 { return ErrConnectionFailed }")

		rawTypes := func(fn string) string {
			fd := findFunc(dnsDir, "ClientDnsConnection", fn)
			var out []string
			found := false
			ast.Inspect(fd.Body, func(n ast.Node) bool {
				is, ok := n.(*ast.IfStmt)
				if !ok || found {
					return true
				}
				// if <cond over QueryType..> { trycodec = enc.RawEncoding } else { trycodec = enc.Base32Encoding }
				if len(is.Body.List) != 1 {
					return true
				}
				as, ok := is.Body.List[0].(*ast.AssignStmt)
				if !ok || exprText(as.Lhs[0]) != "trycodec" {
					return true
				}
				if encSel(as.Rhs[0]) != "RawEncoding" {
					die("%s: the first branch of the probe codec choice is not Raw", fn)
				}
				eb, ok := is.Else.(*ast.BlockStmt)
				if !ok || len(eb.List) != 1 {
					die("%s: probe codec choice has no else branch", fn)
				}
				ea := eb.List[0].(*ast.AssignStmt)
				if encSel(ea.Rhs[0]) != "Base32Encoding" {
					die("%s: the other probe codec is not Base32", fn)
				}
				ast.Inspect(is.Cond, func(m ast.Node) bool {
					if be, ok := m.(*ast.BinaryExpr); ok && be.Op == token.EQL {
						if se, ok := be.Y.(*ast.SelectorExpr); ok && exprText(se.X) == "util" {
							out = append(out, qtypeNumber(se.Sel.Name).String())
						}
					}
					return true
				})
				found = true
				return false
			})
			if !found || len(out) == 0 {
				die("%s: choice of the probe codec not found", fn)
			}
			return "[" + strings.Join(out, "; ") + "]"
		}
		f.raw("Definition qtype_probe_raw_types : list N := " + rawTypes("SendQueryTypeTest") + ". (* probed with Raw, the others with Base32 *)\n")
		f.raw("Definition edns_probe_raw_types : list N := " + rawTypes("AutodetectEdns0Extension") + ".\n")

		// ---- retry counts
		for _, x := range []struct{ fn, name string }{
			{"VersionHandshake", "version_tries"}, {"AutodetectEdns0Extension", "edns_tries"}, {"EncodingTestUpstream", "up_test_tries"},
			{"SetEncodingUpstream", "set_up_tries"}, {"TestDownstreamEncoder", "down_test_tries"}, {"SetEncodingDownstream", "set_down_tries"},
			{"AutodetectLazyMode", "lazy_tries"}, {"SwitchFragmentSize", "switch_tries"}} {
			f.defN(x.name, big.NewInt(oneLoopBound(x.fn)), x.fn)
		}
		fb := loopBounds(findFunc(dnsDir, "ClientDnsConnection", "AutodetectFragmentSize"))
		if len(fb) != 1 {
			die("AutodetectFragmentSize: expected one counted retry loop inside the search loop, found %v", fb)
		}
		f.defN("frag_tries", big.NewInt(fb[0]), "AutodetectFragmentSize, inner loop")

		// ---- fall-backs
		up := findFunc(dnsDir, "ClientDnsConnection", "AutodetectEncodingUpstream")
		ups := assignedCodecs(up, "e")
		if len(ups) != 2 || ups[0] != ups[1] {
			die("AutodetectEncodingUpstream: expected the same fall-back codec on case swap and at the end, found %v", ups)
		}
		f.raw("Definition up_fallback : N := " + codecCode(ups[0]) + ". (* AutodetectEncodingUpstream: case swap, or nothing worked *)\n")
		for _, x := range []struct{ fn, name string }{{"SetEncodingUpstream", "set_up_fallback"}, {"SetEncodingDownstream", "set_down_fallback"}} {
			fd := findFunc(dnsDir, "ClientDnsConnection", x.fn)
			cs := assignedCodecs(fd, "e")
			if len(cs) != 3 || cs[0] != cs[1] || cs[1] != cs[2] {
				die("%s: expected one fall-back codec in three places, found %v", x.fn, cs)
			}
			f.raw("Definition " + x.name + " : N := " + codecCode(cs[0]) + ". (* " + x.fn + ": error answer, error, or no answer *)\n")
			// the function never fails the handshake: every return statement returns nil
			allNil := true
			ast.Inspect(fd.Body, func(n ast.Node) bool {
				if rs, ok := n.(*ast.ReturnStmt); ok && (len(rs.Results) != 1 || exprText(rs.Results[0]) != "nil") {
					allNil = false
				}
				return true
			})
			f.defBool(x.name+"_never_fails", allNil, x.fn+" returns nil on every path")
		}
		dn := findFunc(dnsDir, "ClientDnsConnection", "AutodetectEncodingDowntream")
		act := assignedCodecs(dn, "activeEncoder")
		if len(act) != 1 {
			die("AutodetectEncodingDowntream: initial activeEncoder not found (%v)", act)
		}
		f.raw("Definition down_initial : N := " + codecCode(act[0]) + ". (* activeEncoder before the ladder *)\n")
		// the ladder body: if err := dc.TestDownstreamEncoder(e); err != nil { .. if e != enc.X { break } } else { activeEncoder = e }
		keepInElse, tolerated := false, ""
		var rawFirst []string
		rawAfter, rawAfterType, rawKeptOnNil := "", "", false
		ast.Inspect(dn.Body, func(n ast.Node) bool {
			is, ok := n.(*ast.IfStmt)
			if !ok {
				return true
			}
			if as, ok := is.Init.(*ast.AssignStmt); ok && len(as.Rhs) == 1 {
				call := exprText(as.Rhs[0])
				cond := exprText(is.Cond)
				if call == "dc.TestDownstreamEncoder(e)" && cond == "err != nil" {
					if eb, ok := is.Else.(*ast.BlockStmt); ok {
						for _, st := range eb.List {
							if a, ok := st.(*ast.AssignStmt); ok && exprText(a.Lhs[0]) == "activeEncoder" && exprText(a.Rhs[0]) == "e" {
								keepInElse = true
							}
						}
					}
					ast.Inspect(is.Body, func(m ast.Node) bool {
						if i2, ok := m.(*ast.IfStmt); ok {
							if be, ok := i2.Cond.(*ast.BinaryExpr); ok && be.Op == token.NEQ && exprText(be.X) == "e" && len(i2.Body.List) == 1 {
								if bs, ok := i2.Body.List[0].(*ast.BranchStmt); ok && bs.Tok == token.BREAK {
									tolerated = encSel(be.Y)
								}
							}
						}
						return true
					})
				}
				if call == "dc.TestDownstreamEncoder(enc.RawEncoding)" && cond == "err == nil" {
					for _, st := range is.Body.List {
						if a, ok := st.(*ast.AssignStmt); ok && exprText(a.Lhs[0]) == "dc.Serializer.Downstream.Encoder" && encSel(a.Rhs[0]) == "RawEncoding" {
							rawKeptOnNil = true
						}
					}
				}
				return true
			}
			cond := exprText(is.Cond)
			if strings.Contains(cond, "activeEncoder == enc.") && strings.Contains(cond, "&&") {
				if be, ok := is.Cond.(*ast.BinaryExpr); ok && be.Op == token.LAND {
					if l, ok := be.X.(*ast.BinaryExpr); ok {
						rawAfter = encSel(l.Y)
					}
					if r, ok := be.Y.(*ast.BinaryExpr); ok {
						if se, ok := r.Y.(*ast.SelectorExpr); ok {
							rawAfterType = qtypeNumber(se.Sel.Name).String()
						}
					}
				}
				return true
			}
			if len(rawFirst) == 0 && strings.Contains(cond, "QueryType") && strings.Contains(cond, "||") {
				setsRaw := false
				for _, st := range is.Body.List {
					if a, ok := st.(*ast.AssignStmt); ok && exprText(a.Lhs[0]) == "dc.Serializer.Downstream.Encoder" && encSel(a.Rhs[0]) == "RawEncoding" {
						setsRaw = true
					}
				}
				if setsRaw {
					ast.Inspect(is.Cond, func(m ast.Node) bool {
						if be, ok := m.(*ast.BinaryExpr); ok && be.Op == token.EQL {
							if se, ok := be.Y.(*ast.SelectorExpr); ok && exprText(se.X) == "util" {
								rawFirst = append(rawFirst, qtypeNumber(se.Sel.Name).String())
							}
						}
						return true
					})
				}
			}
			return true
		})
		if tolerated == "" || rawAfter == "" || rawAfterType == "" || len(rawFirst) == 0 {
			die("AutodetectEncodingDowntream: shape not recognised (tolerated=%q rawAfter=%q type=%q rawFirst=%v)", tolerated, rawAfter, rawAfterType, rawFirst)
		}
		f.defBool("down_keeps_codec_when_test_passes", keepInElse, "if err := TestDownstreamEncoder(e); err != nil {..} else { activeEncoder = e }")
		f.raw("Definition down_tolerated_failure : N := " + codecCode(tolerated) + ". (* a failure of this codec does not end the ladder *)\n")
		f.raw("Definition down_raw_without_test : list N := [" + strings.Join(rawFirst, "; ") + "]. (* record types that get Raw at once *)\n")
		f.raw("Definition down_raw_after : N := " + codecCode(rawAfter) + ". (* Raw is tried when the ladder ended on this codec .. *)\n")
		f.raw("Definition down_raw_after_type : N := " + rawAfterType + ". (* .. and the record type is this one *)\n")
		f.defBool("down_raw_kept_when_test_passes", rawKeptOnNil, "if err := TestDownstreamEncoder(enc.RawEncoding); err == nil { .. = enc.RawEncoding }")

		// ---- acceptance comparisons: every probe compares the whole answer with what was expected
		cmpAll := func(fn, lenCmp, elemCmp string) bool {
			fd := findFunc(dnsDir, "ClientDnsConnection", fn)
			l, e := false, false
			ast.Inspect(fd.Body, func(n ast.Node) bool {
				if be, ok := n.(*ast.BinaryExpr); ok && be.Op == token.NEQ {
					t := exprText(be)
					if t == lenCmp {
						l = true
					}
					if t == elemCmp {
						e = true
					}
				}
				return true
			})
			return l && e
		}
		f.defBool("qtype_probe_compares_all", cmpAll("SendQueryTypeTest", "read != slen", "data[k] != s[k]"), "SendQueryTypeTest")
		f.defBool("edns_probe_compares_all", cmpAll("AutodetectEdns0Extension", "len(resp.Data) != len(util.DownloadCodecCheck)", "resp.Data[k] != util.DownloadCodecCheck[k]"), "AutodetectEdns0Extension")
		f.defBool("down_probe_compares_all", cmpAll("TestDownstreamEncoder", "l1 != l2", "resp.Data[k] != util.DownloadCodecCheck[k]"), "TestDownstreamEncoder")
		f.defBool("up_probe_compares_all", cmpAll("EncodingTestUpstream", "l1 != l2", "resp.Data[k] != testPattern[k]"), "EncodingTestUpstream")
		// the fragment probe: size echoed, length, pattern
		fr := findFunc(dnsDir, "ClientDnsConnection", "AutodetectFragmentSize")
		c1, c2, c3 := false, false, false
		ast.Inspect(fr.Body, func(n ast.Node) bool {
			switch x := n.(type) {
			case *ast.BinaryExpr:
				if x.Op == token.NEQ && exprText(x) == "proposed != resp.FragmentSize" {
					c1 = true
				}
				if x.Op == token.NEQ && exprText(x) == "uint32(len(resp.Data)) != resp.FragmentSize" {
					c2 = true
				}
			case *ast.CallExpr:
				if exprText(x.Fun) == "dc.CheckFragmentSizeResponse" {
					c3 = true
				}
			}
			return true
		})
		f.defBool("frag_probe_compares_all", c1 && c2 && c3, "size echoed, length, pattern")
		// the pattern of the fragment probe on both ends: v := byte(107); v = (v + 107) & 0xff
		pat := func(dir, recv, fn string) *big.Int {
			fd := findFunc(dir, recv, fn)
			var start, step *big.Int
			ast.Inspect(fd.Body, func(n ast.Node) bool {
				as, ok := n.(*ast.AssignStmt)
				if !ok || len(as.Lhs) != 1 || exprText(as.Lhs[0]) != "v" {
					return true
				}
				if ce, ok := as.Rhs[0].(*ast.CallExpr); ok && exprText(ce.Fun) == "byte" {
					start = evalInt(dir, ce.Args[0])
				} else if be, ok := as.Rhs[0].(*ast.BinaryExpr); ok && be.Op == token.AND {
					if pe, ok := be.X.(*ast.ParenExpr); ok {
						if ib, ok := pe.X.(*ast.BinaryExpr); ok && ib.Op == token.ADD && exprText(ib.X) == "v" {
							step = evalInt(dir, ib.Y)
						}
					}
				}
				return true
			})
			if start == nil || step == nil || start.Cmp(step) != 0 {
				die("%s: fragment pattern (start, step) not recognised", fn)
			}
			return start
		}
		pc := pat(dnsDir, "ClientDnsConnection", "CheckFragmentSizeResponse")
		ps := pat(dnsDir, "ServerDnsListener", "testDownstreamFragmentSize")
		f.defN("frag_pattern_step_client", pc, "CheckFragmentSizeResponse")
		f.defN("frag_pattern_step_server", ps, "testDownstreamFragmentSize")

		// SwitchFragmentSize: which outcomes make the handshake fail. `return err` under `err != nil` fails it; `return err`
		// under `resp.Err != nil` returns the nil error of the exchange: the handshake goes on with the default.
		sw := findFunc(dnsDir, "ClientDnsConnection", "SwitchFragmentSize")
		failsOnErr, keepsOnServerErr := false, false
		ast.Inspect(sw.Body, func(n ast.Node) bool {
			is, ok := n.(*ast.IfStmt)
			if !ok {
				return true
			}
			var walk func(i *ast.IfStmt)
			walk = func(i *ast.IfStmt) {
				cond := exprText(i.Cond)
				for _, st := range i.Body.List {
					if rs, ok := st.(*ast.ReturnStmt); ok && len(rs.Results) == 1 && exprText(rs.Results[0]) == "err" {
						if cond == "err != nil" {
							failsOnErr = true
						}
						if cond == "resp.Err != nil" {
							keepsOnServerErr = true
						}
					}
				}
				if e, ok := i.Else.(*ast.IfStmt); ok {
					walk(e)
				}
			}
			walk(is)
			return false
		})
		f.defBool("switch_fails_on_error", failsOnErr, "SwitchFragmentSize: err != nil -> return err")
		f.defBool("switch_goes_on_after_server_error", keepsOnServerErr, "SwitchFragmentSize: resp.Err != nil -> return err (which is nil there)")

		// the server's default downstream fragment size and the client's default (the zero value of DownstreamConfig)
		nl := findFunc(dnsDir, "", "NewServerDnsListener")
		var dflt *big.Int
		ast.Inspect(nl.Body, func(n ast.Node) bool {
			kv, ok := n.(*ast.KeyValueExpr)
			if ok && exprText(kv.Key) == "Downstream" {
				ast.Inspect(kv.Value, func(m ast.Node) bool {
					if k2, ok := m.(*ast.KeyValueExpr); ok && exprText(k2.Key) == "FragmentSize" {
						dflt = evalInt(dnsDir, k2.Value)
					}
					return true
				})
			}
			return true
		})
		if dflt == nil {
			die("NewServerDnsListener: default downstream fragment size not found")
		}
		f.defN("server_default_fragment", dflt, pos(nl))
		return f
	})
}
