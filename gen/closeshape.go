package main

import (
	"sort"
	"go/ast"
	"go/token"
	"strings"
)

// Gen/CloseShape.v: what the close / end-of-stream model of the DNS tunnel connection (Queue/Close.v) takes from the source text.
// Every reading names the declaration it comes from and dies when the declaration, or the statement looked for, is not there.

func coqStr(s string) string { return strings.Replace(s, "\"", "\"\"", -1) }

// eofGuard: the condition of the first top-level `if` of a Read method whose body is `return 0, io.EOF`, and the text of the method's
// last statement
func eofGuard(fd *ast.FuncDecl) (cond string, last string) {
	for _, st := range fd.Body.List {
		ifs, ok := st.(*ast.IfStmt)
		if !ok || ifs.Init != nil || ifs.Else != nil || len(ifs.Body.List) != 1 {
			continue
		}
		rs, ok := ifs.Body.List[0].(*ast.ReturnStmt)
		if !ok || len(rs.Results) != 2 || exprText(rs.Results[1]) != "io.EOF" {
			continue
		}
		cond = exprText(ifs.Cond)
		break
	}
	if cond == "" {
		die("%s at %s: no `if <cond> { return 0, io.EOF }` found", fd.Name.Name, pos(fd))
	}
	return cond, exprText(fd.Body.List[len(fd.Body.List)-1])
}

// writeGuard: the condition of the first top-level `if` of a Write method whose body returns os.ErrClosed
func writeGuard(fd *ast.FuncDecl) string {
	for _, st := range fd.Body.List {
		ifs, ok := st.(*ast.IfStmt)
		if !ok || len(ifs.Body.List) != 1 {
			continue
		}
		rs, ok := ifs.Body.List[0].(*ast.ReturnStmt)
		if ok && len(rs.Results) == 2 && exprText(rs.Results[1]) == "os.ErrClosed" {
			return exprText(ifs.Cond)
		}
	}
	die("%s at %s: no `if <cond> { return 0, os.ErrClosed }` found", fd.Name.Name, pos(fd))
	return ""
}

// topLevel lists the texts of a block's statements (if/for statements as their header only)
func topLevel(body []ast.Stmt) []string {
	var out []string
	for _, st := range body {
		switch v := st.(type) {
		case *ast.IfStmt:
			out = append(out, "if "+exprText(v.Cond))
		case *ast.ForStmt, *ast.RangeStmt:
			out = append(out, "for")
		case *ast.DeferStmt:
			out = append(out, "defer "+exprText(v.Call))
		default:
			out = append(out, exprText(st))
		}
	}
	return out
}

// findFuncOpt is findFunc for a declaration whose absence is itself a reading (a method a repair adds)
func findFuncOpt(rel, recv, name string) (fd *ast.FuncDecl) {
	defer func() {
		if r := recover(); r != nil {
			if _, ok := r.(fatal); ok {
				fd = nil
				return
			}
			panic(r)
		}
	}()
	return findFunc(rel, recv, name)
}

func indexOf(l []string, s string) int {
	for i, x := range l {
		if x == s {
			return i
		}
	}
	return -1
}

// callsIn: does the node contain a call with this text?
func callsIn(n ast.Node, text string) bool {
	found := false
	ast.Inspect(n, func(m ast.Node) bool {
		if c, ok := m.(*ast.CallExpr); ok && exprText(c) == text {
			found = true
		}
		return true
	})
	return found
}

func init() {
	emitters = append(emitters, func() *coqFile {
		f := newCoq("CloseShape")
		f.raw("From Coq Require Import String.\nOpen Scope string_scope.\n")
		str := func(name, v, src string) {
			f.raw("Definition " + name + " : string := \"" + coqStr(v) + "\". (* " + src + " *)\n")
		}

		// -- the two Read methods and the two Write methods
		cr := findFunc(dnsDir, "ClientDnsConnection", "Read")
		cond, last := eofGuard(cr)
		str("client_read_eof_cond", cond, pos(cr))
		str("client_read_otherwise", last, pos(cr))
		sr := findFunc(dnsDir, "userConnection", "Read")
		cond, last = eofGuard(sr)
		str("server_read_eof_cond", cond, pos(sr))
		str("server_read_otherwise", last, pos(sr))
		cw := findFunc(dnsDir, "ClientDnsConnection", "Write")
		str("client_write_refused_cond", writeGuard(cw), pos(cw))
		sw := findFunc(dnsDir, "userConnection", "Write")
		str("server_write_refused_cond", writeGuard(sw), pos(sw))
		ccl := findFunc(dnsDir, "ClientDnsConnection", "Closed")
		str("client_closed_is", exprText(singleReturn(ccl)), pos(ccl))
		hd := findFunc(dnsUtilDir, "InQueue", "HasData")
		str("in_queue_has_data_is", exprText(singleReturn(hd)), pos(hd))

		// -- ClientDnsConnection.Close: the network part is guarded, then dc.in.Close(), then the communicator
		cc := findFunc(dnsDir, "ClientDnsConnection", "Close")
		tl := topLevel(cc.Body.List)
		str("client_close_steps", strings.Join(tl, ";"), pos(cc))
		iq, ic := indexOf(tl, "dc.in.Close()"), indexOf(tl, "return dc.Communicator.Close()")
		if ic < 0 {
			die("ClientDnsConnection.Close at %s: `return dc.Communicator.Close()` not found at the top level", pos(cc))
		}
		f.defBool("client_close_closes_in_queue", iq >= 0 && iq < ic, "dc.in.Close() before the communicator is closed: "+pos(cc))
		io := indexOf(tl, "dc.out.Close()")
		f.defBool("client_close_closes_out_queue", io >= 0 && io < ic, "dc.out.Close() before the communicator is closed: "+pos(cc))
		// the network part: SendAndReceive(nil), then Query(SetOptionsRequest{Closed})
		var guard *ast.IfStmt
		for _, st := range cc.Body.List {
			if ifs, ok := st.(*ast.IfStmt); ok {
				guard = ifs
				break
			}
		}
		if guard == nil {
			die("ClientDnsConnection.Close at %s: the guarded network part was not found", pos(cc))
		}
		str("client_close_network_guard", exprText(guard.Cond), pos(guard))
		f.defBool("client_close_acknowledges_then_asks", callsIn(guard.Body, "dc.SendAndReceive(nil)") && callsIn(guard.Body, "dc.Query(cmd, 5*time.Second)"),
			"SendAndReceive(nil) and Query(cmd) inside the guard: "+pos(guard))

		// -- closeConnection: what is done once the user has been validated
		clc := findFunc(dnsDir, "ServerDnsListener", "closeConnection")
		tl = topLevel(clc.Body.List)
		str("close_connection_steps", strings.Join(tl, ";"), pos(clc))
		ia, ib, icl, iqc := indexOf(tl, "s.connections[u.UserId] = nil"), indexOf(tl, "s.oldConnections[u.UserId] = u"), indexOf(tl, "u.closed = true"), indexOf(tl, "u.in.Close()")
		if ia < 0 || ib < 0 || icl < 0 {
			die("closeConnection at %s: the retirement statements (connections[..] = nil, oldConnections[..] = u, u.closed = true) were not found", pos(clc))
		}
		f.defBool("close_connection_closes_in_queue", iqc >= 0, "u.in.Close() at the top level of closeConnection: "+pos(clc))
		f.defBool("close_connection_closes_out_queue", indexOf(tl, "u.out.Close()") > icl, "u.out.Close() at the top level of closeConnection, after u.closed = true: "+pos(clc))
		uc := findFunc(dnsDir, "userConnection", "Close")
		str("user_close_is", exprText(singleReturn(uc)), pos(uc))
		nu := findFunc(dnsDir, "ServerDnsListener", "newUser")
		closer := ""
		ast.Inspect(nu, func(n ast.Node) bool {
			if kv, ok := n.(*ast.KeyValueExpr); ok && exprText(kv.Key) == "closer" {
				closer = exprText(kv.Value)
			}
			return true
		})
		if closer == "" {
			die("newUser at %s: the closer field of the new userConnection was not found", pos(nu))
		}
		str("user_closer_is", closer, pos(nu))

		// -- the expiry sweep: the first loop (over srv.connections) closes the in-queue of the user it retires
		nl := findFunc(dnsDir, "", "NewServerDnsListener")
		sweep, sweepOut, seen := false, false, false
		ast.Inspect(nl, func(n ast.Node) bool {
			rs, ok := n.(*ast.RangeStmt)
			if !ok || exprText(rs.X) != "srv.connections" {
				return true
			}
			seen = true
			ast.Inspect(rs.Body, func(m ast.Node) bool {
				if ifs, ok := m.(*ast.IfStmt); ok && strings.Contains(exprText(ifs.Cond), "Before(now)") {
					for _, st := range ifs.Body.List {
						if exprText(st) == "u.in.Close()" {
							sweep = true
						}
						if exprText(st) == "u.out.Close()" {
							sweepOut = true
						}
					}
				}
				return true
			})
			return false
		})
		if !seen {
			die("NewServerDnsListener at %s: the sweep's loop over srv.connections was not found", pos(nl))
		}
		f.defBool("sweep_closes_in_queue", sweep, "u.in.Close() where the sweep retires a stale user: "+pos(nl))
		f.defBool("sweep_closes_out_queue", sweepOut, "u.out.Close() where the sweep retires a stale user: "+pos(nl))

		// -- setOptionsRequest: the Closed branch
		so := findFunc(dnsDir, "ServerDnsListener", "setOptionsRequest")
		closedBranch := ""
		ast.Inspect(so, func(n ast.Node) bool {
			ifs, ok := n.(*ast.IfStmt)
			if ok && strings.Contains(exprText(ifs.Cond), "v.Closed") {
				var calls []string
				for _, st := range ifs.Body.List {
					if as, ok := st.(*ast.AssignStmt); ok && len(as.Rhs) == 1 {
						if c, ok := as.Rhs[0].(*ast.CallExpr); ok {
							calls = append(calls, exprText(c))
						}
					}
					if es, ok := st.(*ast.ExprStmt); ok {
						if c, ok := es.X.(*ast.CallExpr); ok && !strings.HasPrefix(exprText(c), "log.") {
							calls = append(calls, exprText(c))
						}
					}
				}
				// (`x == true` and `x` are the same test)
				closedBranch = strings.Replace(exprText(ifs.Cond), " == true", "", -1) + " -> " + strings.Join(calls, ";")
				return false
			}
			return true
		})
		if closedBranch == "" {
			die("setOptionsRequest at %s: the branch for v.Closed was not found", pos(so))
		}
		str("set_options_closed_branch", closedBranch, pos(so))

		// -- a retired user: validateAndGetUser answers BadConn, onMessage turns it into an error response
		vg := findFunc(dnsDir, "ServerDnsListener", "validateAndGetUser")
		var rets []string
		ast.Inspect(vg, func(n ast.Node) bool {
			if rs, ok := n.(*ast.ReturnStmt); ok && len(rs.Results) == 2 {
				rets = append(rets, exprText(rs.Results[0])+","+exprText(rs.Results[1]))
			}
			return true
		})
		str("validate_returns", strings.Join(rets, ";"), pos(vg))
		om := findFunc(dnsDir, "ServerDnsListener", "onMessage")
		retired := ""
		ast.Inspect(om, func(n ast.Node) bool {
			ifs, ok := n.(*ast.IfStmt)
			if ok && strings.Contains(exprText(ifs.Cond), "commands.BadConn") {
				ans := ""
				ast.Inspect(ifs.Body, func(m ast.Node) bool {
					if kv, ok := m.(*ast.KeyValueExpr); ok && exprText(kv.Key) == "Err" {
						ans = exprText(kv.Value)
					}
					return true
				})
				retired = exprText(ifs.Cond) + " -> " + ans
				return false
			}
			return true
		})
		if retired == "" {
			die("onMessage at %s: the answer to a retired user (BadConn) was not found", pos(om))
		}
		str("on_message_retired_answer", retired, pos(om))

		// -- SendAndReceive: the attempts, and every return statement
		sar := findFunc(dnsDir, "ClientDnsConnection", "SendAndReceive")
		var loop *ast.ForStmt
		for _, st := range sar.Body.List {
			if fs, ok := st.(*ast.ForStmt); ok {
				loop = fs
			}
		}
		if loop == nil || loop.Cond == nil {
			die("SendAndReceive at %s: the retry loop was not found", pos(sar))
		}
		be, ok := loop.Cond.(*ast.BinaryExpr)
		if !ok || be.Op != token.LEQ || exprText(be.X) != "i" || exprText(loop.Init) != "i := 1" || exprText(loop.Post) != "i++" {
			die("SendAndReceive at %s: the retry loop is not `for i := 1; i <= K; i++`", pos(loop))
		}
		f.defN("sar_attempts", evalInt(dnsDir, be.Y), pos(loop))
		var sret []string
		ast.Inspect(loop.Body, func(n ast.Node) bool {
			if _, ok := n.(*ast.FuncLit); ok {
				return false
			}
			if rs, ok := n.(*ast.ReturnStmt); ok && len(rs.Results) == 1 {
				sret = append(sret, exprText(rs.Results[0]))
			}
			return true
		})
		str("sar_returns", strings.Join(sret, ";"), pos(sar))
		// the error branches hand on the value they were given: `return err` (last time-out), `return err` (any other error of Query),
		// `return packet.Err` (the answer's own error)
		if len(sret) < 3 {
			die("SendAndReceive at %s: expected at least three return statements in the retry loop, found %v", pos(sar), sret)
		}
		f.defBool("sar_returns_query_errors_unwrapped", sret[0] == "err" && sret[1] == "err", "the first two returns of the retry loop are err, err: "+pos(sar))
		f.defBool("sar_returns_packet_error_unwrapped", sret[2] == "packet.Err", "the third return of the retry loop is packet.Err: "+pos(sar))
		sarIf, ok := loop.Body.List[len(loop.Body.List)-1].(*ast.IfStmt)
		if !ok || sarIf.Init == nil {
			die("SendAndReceive at %s: `if resp, err := dc.Query(req, timeout); err == smux.ErrTimeout` not found", pos(loop))
		}
		str("sar_query", exprText(sarIf.Init)+"; "+exprText(sarIf.Cond), pos(sarIf))
		str("sar_after_answer", func() string {
			var calls []string
			ast.Inspect(loop.Body, func(n ast.Node) bool {
				if c, ok := n.(*ast.CallExpr); ok {
					t := exprText(c.Fun)
					if t == "dc.out.UpdateAcked" || t == "dc.in.Append" {
						calls = append(calls, exprText(c))
					}
				}
				return true
			})
			return strings.Join(calls, ";")
		}(), pos(sar))

		// -- QueryWithData: an error response's error value is returned as it is; a time-out becomes smux.ErrTimeout itself
		qd := findFunc(dnsDir, "ClientDnsConnection", "QueryWithData")
		errResp, timeoutRet := "", ""
		ast.Inspect(qd, func(n ast.Node) bool {
			ifs, ok := n.(*ast.IfStmt)
			if !ok {
				return true
			}
			if ifs.Init != nil && strings.Contains(exprText(ifs.Init), "resp.(*commands.ErrorResponse)") {
				if rs, ok := ifs.Body.List[len(ifs.Body.List)-1].(*ast.ReturnStmt); ok && len(rs.Results) == 2 {
					errResp = exprText(rs.Results[1])
				}
			}
			if exprText(ifs.Cond) == "isTimeout(err)" {
				if rs, ok := ifs.Body.List[len(ifs.Body.List)-1].(*ast.ReturnStmt); ok && len(rs.Results) == 2 {
					timeoutRet = exprText(rs.Results[1])
				}
			}
			return true
		})
		if errResp == "" || timeoutRet == "" {
			die("QueryWithData at %s: the returns for an error response / a time-out were not found", pos(qd))
		}
		str("query_error_response_returns", errResp, pos(qd))
		str("query_timeout_returns", timeoutRet, pos(qd))
		f.defBool("query_returns_error_response_unwrapped", errResp == "e.Err" && timeoutRet == "smux.ErrTimeout", pos(qd))

		// -- the poll goroutine at the end of Handshake
		hs := findFunc(dnsDir, "ClientDnsConnection", "Handshake")
		var poll *ast.FuncLit
		ast.Inspect(hs, func(n ast.Node) bool {
			if g, ok := n.(*ast.GoStmt); ok {
				if fl, ok := g.Call.Fun.(*ast.FuncLit); ok && callsIn(fl, "dc.SendAndReceive(chunk)") {
					poll = fl
				}
			}
			return true
		})
		if poll == nil {
			die("Handshake at %s: the poll goroutine (go func() { ... dc.SendAndReceive(chunk) ... }) was not found", pos(hs))
		}
		var loopCond string
		var first *ast.IfStmt
		ast.Inspect(poll, func(n ast.Node) bool {
			if fs, ok := n.(*ast.ForStmt); ok && loopCond == "" && fs.Cond != nil {
				loopCond = exprText(fs.Cond)
			}
			if ifs, ok := n.(*ast.IfStmt); ok && first == nil && ifs.Init != nil && exprText(ifs.Init) == "err := dc.SendAndReceive(chunk)" {
				first = ifs
			}
			return true
		})
		if first == nil {
			die("poll goroutine at %s: `if err := dc.SendAndReceive(chunk); ...` not found", pos(poll))
		}
		str("poll_loop_cond", loopCond, pos(poll))
		str("poll_badconn_test", exprText(first.Cond), pos(first))
		f.defBool("poll_compares_badconn_by_identity", exprText(first.Cond) == "err == commands.BadConn", pos(first))
		f.defBool("poll_badconn_closes", callsIn(first.Body, "dc.Close()"), pos(first))
		second, ok := first.Else.(*ast.IfStmt)
		if !ok || exprText(second.Cond) != "err != nil" {
			die("poll goroutine at %s: `else if err != nil` not found", pos(first))
		}
		same, ok := second.Body.List[0].(*ast.IfStmt)
		if !ok || len(second.Body.List) != 1 {
			die("poll goroutine at %s: the comparison with the previous error was not found", pos(second))
		}
		str("poll_same_error_test", exprText(same.Cond), pos(same))
		var giveUp *ast.IfStmt
		for _, st := range same.Body.List {
			if ifs, ok := st.(*ast.IfStmt); ok {
				giveUp = ifs
			}
		}
		if giveUp == nil {
			die("poll goroutine at %s: the give-up test on errCount was not found", pos(same))
		}
		gb, ok := giveUp.Cond.(*ast.BinaryExpr)
		if !ok || gb.Op != token.GTR || exprText(gb.X) != "errCount" {
			die("poll goroutine at %s: the give-up test is not `errCount > K`", pos(giveUp))
		}
		f.defN("poll_give_up_above", evalInt(dnsDir, gb.Y), pos(giveUp))
		f.defBool("poll_give_up_closes", callsIn(giveUp.Body, "dc.Close()"), pos(giveUp))
		str("poll_same_error_steps", strings.Join(topLevel(same.Body.List), ";"), pos(same))
		els, ok := same.Else.(*ast.BlockStmt)
		if !ok {
			die("poll goroutine at %s: the branch for a different error was not found", pos(same))
		}
		str("poll_other_error_steps", strings.Join(topLevel(els.List), ";"), pos(els))
		okb, ok := second.Else.(*ast.BlockStmt)
		if !ok {
			die("poll goroutine at %s: the branch for success was not found", pos(second))
		}
		str("poll_success_steps", strings.Join(topLevel(okb.List), ";"), pos(okb))

		// -- InQueue: Close wakes every notifier; waitNonEmtpyQueue tests data before closed
		qc := findFunc(dnsUtilDir, "InQueue", "Close")
		str("in_queue_close_steps", strings.Join(topLevel(qc.Body.List), ";"), pos(qc))
		wq := findFunc(dnsUtilDir, "InQueue", "waitNonEmtpyQueue")
		var tests []string
		for _, st := range wq.Body.List {
			if ifs, ok := st.(*ast.IfStmt); ok && ifs.Init == nil {
				c := exprText(ifs.Cond)
				if c == "q.queueHasData" || c == "q.closed" {
					r := ""
					if rs, ok := ifs.Body.List[len(ifs.Body.List)-1].(*ast.ReturnStmt); ok && len(rs.Results) == 1 {
						r = exprText(rs.Results[0])
					}
					tests = append(tests, c+" -> "+r)
				}
			}
		}
		str("in_queue_wait_tests", strings.Join(tests, ";"), pos(wq))
		qr := findFunc(dnsUtilDir, "InQueue", "Read")
		str("in_queue_read_steps", strings.Join(topLevel(qr.Body.List), ";"), pos(qr))

		// -- OutQueue: Close (absent before the repair: an empty text), the tests of waitEmptyQueue before it parks, what it returns after
		// a wake-up, closedWithData, Write
		oqc := findFuncOpt(dnsUtilDir, "OutQueue", "Close")
		ocSteps := ""
		if oqc != nil {
			ocSteps = strings.Join(topLevel(oqc.Body.List), ";")
			str("out_queue_close_steps", ocSteps, pos(oqc))
		} else {
			str("out_queue_close_steps", "", "OutQueue has no Close method in "+dnsUtilDir)
		}
		owq := findFunc(dnsUtilDir, "OutQueue", "waitEmptyQueue")
		var otests []string
		for _, st := range owq.Body.List {
			if ifs, ok := st.(*ast.IfStmt); ok && ifs.Init == nil {
				c := exprText(ifs.Cond)
				if c == "!q.queueHasData" || c == "q.closed" {
					r := ""
					if rs, ok := ifs.Body.List[len(ifs.Body.List)-1].(*ast.ReturnStmt); ok && len(rs.Results) == 1 {
						r = exprText(rs.Results[0])
					}
					otests = append(otests, c+" -> "+r)
				}
			}
		}
		str("out_queue_wait_tests", strings.Join(otests, ";"), pos(owq))
		// what the function returns after a wake-up: for every receive on `wait` - a case of a select or a statement of its own - the
		// return statement that follows it (in the case body, or after the select / the statement in the enclosing block); the distinct
		// expressions, sorted. (A select with the single case `<-wait` and the bare receive are the same thing.)
		wakeSet := map[string]bool{}
		var walkBlock func(list []ast.Stmt)
		nextReturn := func(list []ast.Stmt, from int) string {
			for _, st := range list[from:] {
				if rs, ok := st.(*ast.ReturnStmt); ok && len(rs.Results) == 1 {
					return exprText(rs.Results[0])
				}
			}
			return "(no return)"
		}
		walkBlock = func(list []ast.Stmt) {
			for k, st := range list {
				switch x := st.(type) {
				case *ast.ExprStmt:
					if exprText(x.X) == "<-wait" {
						wakeSet[nextReturn(list, k+1)] = true
					}
				case *ast.SelectStmt:
					for _, c := range x.Body.List {
						cc := c.(*ast.CommClause)
						if cc.Comm != nil && exprText(cc.Comm) == "<-wait" {
							r := nextReturn(cc.Body, 0)
							if r == "(no return)" {
								r = nextReturn(list, k+1)
							}
							wakeSet[r] = true
						}
					}
				case *ast.IfStmt:
					walkBlock(x.Body.List)
					if eb, ok := x.Else.(*ast.BlockStmt); ok {
						walkBlock(eb.List)
					}
				case *ast.BlockStmt:
					walkBlock(x.List)
				}
			}
		}
		walkBlock(owq.Body.List)
		var wakeRets []string
		for r := range wakeSet {
			wakeRets = append(wakeRets, r)
		}
		sort.Strings(wakeRets)
		str("out_queue_wait_after_wake", strings.Join(wakeRets, ";"), pos(owq))
		cwd := findFuncOpt(dnsUtilDir, "OutQueue", "closedWithData")
		cwdText := ""
		if cwd != nil {
			for _, st := range cwd.Body.List {
				if ifs, ok := st.(*ast.IfStmt); ok && len(ifs.Body.List) == 1 {
					if rs, ok := ifs.Body.List[0].(*ast.ReturnStmt); ok && len(rs.Results) == 1 {
						cwdText = exprText(ifs.Cond) + " -> " + exprText(rs.Results[0])
					}
				}
			}
			str("out_queue_closed_with_data", cwdText, pos(cwd))
		} else {
			str("out_queue_closed_with_data", "", "OutQueue has no closedWithData method in "+dnsUtilDir)
		}
		oqw := findFunc(dnsUtilDir, "OutQueue", "Write")
		str("out_queue_write_steps", strings.Join(topLevel(oqw.Body.List), ";"), pos(oqw))
		asModelled := ocSteps == "q.queueMutex.Lock();q.closed = true;for;q.queueNotifiers = q.queueNotifiers[0:0];q.queueMutex.Unlock()" &&
			strings.Join(otests, ";") == "!q.queueHasData -> nil;q.closed -> os.ErrClosed" &&
			strings.Join(wakeRets, ";") == "q.closedWithData()" &&
			cwdText == "q.closed && q.queueHasData -> os.ErrClosed"
		f.defBool("out_queue_close_as_modelled", asModelled, "OutQueue.Close, the tests of waitEmptyQueue and closedWithData have the texts the model was written from")
		usw := findFunc(dnsDir, "userConnection", "Write")
		str("server_write_otherwise", exprText(usw.Body.List[len(usw.Body.List)-1]), pos(usw))
		clw := findFunc(dnsDir, "ClientDnsConnection", "Write")
		str("client_write_otherwise", exprText(clw.Body.List[len(clw.Body.List)-1]), pos(clw))
		oua := findFunc(dnsUtilDir, "OutQueue", "UpdateAcked")
		str("out_queue_update_acked_tail", exprText(oua.Body.List[len(oua.Body.List)-1]), pos(oua))
		return f
	})
}
