package main

import (
	"go/ast"
	"go/token"
	"math/big"
	"strings"
)

const dnsUtilDir = "internal/streams/dns/util"

func init() {
	emitters = append(emitters, func() *coqFile {
		f := newCoq("QueueConsts")
		mc := findValue(dnsUtilDir, "MaxCachedChunks")
		f.defN("max_cached_chunks", evalInt(dnsUtilDir, mc), pos(mc))

		// OutQueue.cleanAckedChunks:  if len(q.acked) > MaxCachedChunks { q.acked = q.acked[lo:hi] }
		fd := findFunc(dnsUtilDir, "OutQueue", "cleanAckedChunks")
		found := false
		ast.Inspect(fd, func(n ast.Node) bool {
			as, ok := n.(*ast.AssignStmt)
			if !ok || len(as.Lhs) != 1 || len(as.Rhs) != 1 {
				return true
			}
			if exprText(as.Lhs[0]) != "q.acked" {
				return true
			}
			se, ok := as.Rhs[0].(*ast.SliceExpr)
			if !ok || exprText(se.X) != "q.acked" {
				return true
			}
			lo, hi := "", ""
			if se.Low != nil {
				lo = strings.Replace(exprText(se.Low), " ", "", -1)
			}
			if se.High != nil {
				hi = strings.Replace(exprText(se.High), " ", "", -1)
			}
			switch {
			case (lo == "" || lo == "0") && hi == "MaxCachedChunks":
				f.defBool("out_acked_keeps_newest", false, "q.acked["+lo+":"+hi+"] at "+pos(se))
			case lo == "len(q.acked)-MaxCachedChunks" && (hi == "" || hi == "len(q.acked)"):
				f.defBool("out_acked_keeps_newest", true, "q.acked["+lo+":"+hi+"] at "+pos(se))
			default:
				die("cleanAckedChunks: unrecognised truncation q.acked[%s:%s] at %s", lo, hi, pos(se))
			}
			found = true
			return false
		})
		if !found {
			die("cleanAckedChunks: truncation of q.acked not found in %s", pos(fd))
		}

		// InQueue.Append: for i := q.NextSeqNo + LO; i != q.NextSeqNo+HI; i++
		ap := findFunc(dnsUtilDir, "InQueue", "Append")
		var lo, hi *big.Int
		ast.Inspect(ap, func(n ast.Node) bool {
			fs, ok := n.(*ast.ForStmt)
			if !ok || fs.Init == nil || fs.Cond == nil {
				return true
			}
			as, ok := fs.Init.(*ast.AssignStmt)
			if !ok {
				return true
			}
			be, ok := as.Rhs[0].(*ast.BinaryExpr)
			if !ok || be.Op != token.ADD || exprText(be.X) != "q.NextSeqNo" {
				return true
			}
			ce, ok := fs.Cond.(*ast.BinaryExpr)
			if !ok || ce.Op != token.NEQ {
				die("InQueue.Append: window loop condition is not != at %s", pos(fs))
			}
			ye, ok := ce.Y.(*ast.BinaryExpr)
			if !ok || ye.Op != token.ADD || exprText(ye.X) != "q.NextSeqNo" {
				die("InQueue.Append: window loop bound not of the form q.NextSeqNo+K at %s", pos(fs))
			}
			lo = evalInt(dnsUtilDir, be.Y)
			hi = evalInt(dnsUtilDir, ye.Y)
			return false
		})
		if lo == nil {
			die("InQueue.Append: window loop not found")
		}
		f.defN("in_window_lo", lo, "first offset of the window loop in "+pos(ap))
		f.defN("in_window_hi", hi, "exclusive end offset of the window loop")
		return f
	})
}
