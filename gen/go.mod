module verifgen

go 1.21
