package main

import (
	"fmt"
	"os"
)

var emitters = []func() *coqFile{}

func main() {
	if len(os.Args) != 3 {
		fmt.Fprintln(os.Stderr, "usage: verifgen <repo> <outdir>")
		os.Exit(2)
	}
	repo = os.Args[1]
	outdir := os.Args[2]
	failed := false
	for _, em := range emitters {
		func() {
			defer func() {
				if r := recover(); r != nil {
					if f, ok := r.(fatal); ok {
						fmt.Fprintln(os.Stderr, "verifgen: "+f.msg)
						failed = true
						return
					}
					panic(r)
				}
			}()
			em().write(outdir)
		}()
	}
	if failed {
		os.Exit(2)
	}
}
