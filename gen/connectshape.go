package main

import (
	"go/ast"
	"go/token"
	"regexp"
	"strings"
)

// Gen/ConnectShape.v: what the concurrent model of the client's session management (Mux/Connect.v) takes from the source text of
// internal/client/upstream/upstream.go (Upstreams.Connect, open, openStream, Shutdown) and internal/client/listener/listener.go
// (HandleConnection, ConnectDirectly). Identifiers are named by ROLE (the receiver is written `ul`, the locals of Connect are found
// by what is assigned to them), conditions are compared after evaluation over their atoms (a truth table), so that renaming a local,
// swapping the operands of `&&`, or writing `x == true` for `x` changes no reading. Every reading dies when what it looks for is absent.

const upstreamDir = "internal/client/upstream"
const listenerDir = "internal/client/listener"

func recvName(fd *ast.FuncDecl) string {
	if fd.Recv == nil || len(fd.Recv.List) != 1 || len(fd.Recv.List[0].Names) != 1 {
		die("%s at %s: a named receiver was expected", fd.Name.Name, pos(fd))
	}
	return fd.Recv.List[0].Names[0].Name
}

// normText prints a node with the receiver written `ul` (resp. the given role names for other identifiers)
func normText(n ast.Node, roles map[string]string) string {
	t := exprText(n)
	for from, to := range roles {
		if from == to {
			continue
		}
		re := regexp.MustCompile(`(^|[^A-Za-z0-9_.])` + regexp.QuoteMeta(from) + `($|[^A-Za-z0-9_])`)
		for i := 0; i < 4; i++ { // (adjacent occurrences share a separator)
			t = re.ReplaceAllString(t, "${1}"+to+"${2}")
		}
	}
	return t
}

// isMutexCall: <recv>.<field>.Lock() / Unlock() on any field of the receiver
func isMutexCall(n ast.Node, recv, method string) bool {
	c, ok := n.(*ast.CallExpr)
	if !ok || len(c.Args) != 0 {
		return false
	}
	sel, ok := c.Fun.(*ast.SelectorExpr)
	if !ok || sel.Sel.Name != method {
		return false
	}
	inner, ok := sel.X.(*ast.SelectorExpr)
	if !ok {
		return false
	}
	id, ok := inner.X.(*ast.Ident)
	return ok && id.Name == recv
}

// recvCall: the node is a call <recv>.<name>(...)
func recvCall(n ast.Node, recv, name string) *ast.CallExpr {
	c, ok := n.(*ast.CallExpr)
	if !ok {
		return nil
	}
	sel, ok := c.Fun.(*ast.SelectorExpr)
	if !ok || sel.Sel.Name != name {
		return nil
	}
	id, ok := sel.X.(*ast.Ident)
	if !ok || id.Name != recv {
		return nil
	}
	return c
}

func containsRecvCall(n ast.Node, recv, name string) bool {
	found := false
	ast.Inspect(n, func(m ast.Node) bool {
		if m != nil && recvCall(m, recv, name) != nil {
			found = true
		}
		return true
	})
	return found
}

// evalBool evaluates a condition built from !, &&, ||, ==, != , parentheses, the literals true/false and the atoms of `atoms`
// (an atom is recognised by its normalised text; `X != nil` / `X == nil` for an identifier X are looked up as "X != nil").
func evalBool(e ast.Expr, roles map[string]string, atoms map[string]bool) bool {
	switch x := e.(type) {
	case *ast.ParenExpr:
		return evalBool(x.X, roles, atoms)
	case *ast.UnaryExpr:
		if x.Op == token.NOT {
			return !evalBool(x.X, roles, atoms)
		}
	case *ast.Ident:
		if x.Name == "true" {
			return true
		}
		if x.Name == "false" {
			return false
		}
		if v, ok := atoms[normText(x, roles)]; ok {
			return v
		}
	case *ast.BinaryExpr:
		switch x.Op {
		case token.LAND:
			return evalBool(x.X, roles, atoms) && evalBool(x.Y, roles, atoms)
		case token.LOR:
			return evalBool(x.X, roles, atoms) || evalBool(x.Y, roles, atoms)
		case token.EQL, token.NEQ:
			l, r := normText(x.X, roles), normText(x.Y, roles)
			if l == "nil" {
				l, r = r, l
			}
			if r == "nil" {
				v, ok := atoms[l+" != nil"]
				if !ok {
					die("condition %q at %s: the comparison of %s with nil is not one of the expected atoms", exprText(e), pos(e), l)
				}
				if x.Op == token.NEQ {
					return v
				}
				return !v
			}
			a, b := evalBool(x.X, roles, atoms), evalBool(x.Y, roles, atoms)
			if x.Op == token.EQL {
				return a == b
			}
			return a != b
		}
	}
	die("condition %q at %s: cannot be evaluated over the atoms expected here", exprText(e), pos(e))
	return false
}

func boolList(bs []bool) string {
	parts := make([]string, len(bs))
	for i, b := range bs {
		if b {
			parts[i] = "true"
		} else {
			parts[i] = "false"
		}
	}
	return "[" + strings.Join(parts, "; ") + "]"
}

// assignsTo: the statement is `<lhs> = <rhs>` (plain assignment, one on each side) with these normalised texts
func assignsTo(st ast.Stmt, roles map[string]string, lhs, rhs string) bool {
	as, ok := st.(*ast.AssignStmt)
	if !ok || as.Tok != token.ASSIGN || len(as.Lhs) != 1 || len(as.Rhs) != 1 {
		return false
	}
	return normText(as.Lhs[0], roles) == lhs && normText(as.Rhs[0], roles) == rhs
}

func init() {
	emitters = append(emitters, func() *coqFile {
		f := newCoq("ConnectShape")
		f.raw("From Coq Require Import String.\nOpen Scope string_scope.\n")
		str := func(name, v, src string) {
			f.raw("Definition " + name + " : string := \"" + coqStr(v) + "\". (* " + src + " *)\n")
		}

		// ------------------------------------------------------------------ Upstreams.Connect
		cn := findFunc(upstreamDir, "Upstreams", "Connect")
		recv := recvName(cn)
		roles := map[string]string{recv: "ul"}
		// the locals, by role
		var lostName, errName, reusedName, sessName string
		var firstOpenStream *ast.AssignStmt
		for _, st := range cn.Body.List {
			as, ok := st.(*ast.AssignStmt)
			if !ok || len(as.Rhs) != 1 {
				continue
			}
			if recvCall(as.Rhs[0], recv, "openStream") != nil && len(as.Lhs) == 3 && firstOpenStream == nil {
				firstOpenStream = as
				lostName, errName = exprText(as.Lhs[1]), exprText(as.Lhs[2])
			}
			if as.Tok == token.DEFINE && len(as.Lhs) == 1 {
				if exprText(as.Rhs[0]) == "true" || exprText(as.Rhs[0]) == "false" {
					if reusedName == "" {
						reusedName = exprText(as.Lhs[0])
					}
				}
				if exprText(as.Rhs[0]) == recv+".session" {
					sessName = exprText(as.Lhs[0])
				}
			}
		}
		if firstOpenStream == nil || lostName == "_" || lostName == "" {
			die("Upstreams.Connect at %s: `stream, sessionLost, err := %s.openStream(..)` not found at the top level", pos(cn), recv)
		}
		if reusedName == "" {
			die("Upstreams.Connect at %s: the local that records whether the session is reused (`reused := true`) was not found", pos(cn))
		}
		// (no local holding the session seen under the lock: then nothing can be compared with it later - read as "no guard" below)
		roles[lostName], roles[errName], roles[reusedName] = "sessionLost", "err", "reused"
		if sessName != "" {
			roles[sessName] = "session"
		}

		// lock operations in source order, and the return statements that lie between a Lock and the next Unlock
		var lockSeq []string
		held := false
		region := 0
		underLock := []int{0, 0, 0}
		var firstLock, firstUnlock token.Pos
		ast.Inspect(cn.Body, func(n ast.Node) bool {
			switch x := n.(type) {
			case *ast.FuncLit:
				return false
			case *ast.DeferStmt:
				if isMutexCall(x.Call, recv, "Unlock") {
					lockSeq = append(lockSeq, "defer-Unlock")
				}
				return false
			case *ast.CallExpr:
				if isMutexCall(x, recv, "Lock") {
					lockSeq = append(lockSeq, "Lock")
					held = true
					region++
					if firstLock == token.NoPos {
						firstLock = x.Pos()
					}
				} else if isMutexCall(x, recv, "Unlock") {
					lockSeq = append(lockSeq, "Unlock")
					held = false
					if firstUnlock == token.NoPos {
						firstUnlock = x.Pos()
					}
				}
			case *ast.ReturnStmt:
				if held {
					r := region
					if r > 2 {
						r = 2
					}
					underLock[r]++
				}
			}
			return true
		})
		str("connect_lock_sequence", strings.Join(lockSeq, ";"), pos(cn))
		f.raw("Definition connect_returns_under_lock_1 : N := " + itoa(underLock[1]) + ". (* return statements between the first Lock and its Unlock: " + pos(cn) + " *)\n")
		f.raw("Definition connect_returns_under_lock_2 : N := " + itoa(underLock[2]) + ". (* return statements between a later Lock and its Unlock: " + pos(cn) + " *)\n")

		// the first test: no physical connection, or a closed one
		var firstIf *ast.IfStmt
		var sessStmt ast.Stmt
		for _, st := range cn.Body.List {
			if ifs, ok := st.(*ast.IfStmt); ok && firstIf == nil && strings.Contains(exprText(ifs.Cond), recv+".connection") {
				firstIf = ifs
			}
			if as, ok := st.(*ast.AssignStmt); ok && as.Tok == token.DEFINE && len(as.Lhs) == 1 && sessName != "" && exprText(as.Lhs[0]) == sessName {
				sessStmt = st
			}
		}
		if firstIf == nil {
			die("Upstreams.Connect at %s: the test of %s.connection was not found at the top level", pos(cn), recv)
		}
		str("connect_first_cond", normText(firstIf.Cond, roles), pos(firstIf))
		var steps []string
		resets := map[string]bool{}
		for _, st := range firstIf.Body.List {
			t := normText(st, roles)
			if isMutexCall(exprOf(st), recv, "Lock") || isMutexCall(exprOf(st), recv, "Unlock") {
				continue // (read above as part of the lock sequence)
			}
			if as, ok := st.(*ast.AssignStmt); ok && len(as.Rhs) == 1 && recvCall(as.Rhs[0], recv, "open") != nil {
				t = normText(as.Lhs[0], roles) + " = ul.open(..)"
			}
			steps = append(steps, t)
			resets[t] = true
		}
		str("connect_first_block_steps", strings.Join(steps, ";"), pos(firstIf))
		f.defBool("connect_first_block_as_modelled", resets["reused = false"] && resets["ul.connection = nil"] && resets["ul.session = nil"] &&
			len(steps) > 0 && steps[len(steps)-1] == "err = ul.open(..)", "reused = false, connection and session reset, then err = open(): "+pos(firstIf))
		// the lock is taken before the test and released after the session has been read
		around := firstLock != token.NoPos && firstUnlock != token.NoPos && firstLock < firstIf.Pos() && firstIf.End() < firstUnlock &&
			(sessStmt == nil || (firstIf.End() < sessStmt.Pos() && sessStmt.End() < firstUnlock))
		f.defBool("connect_reads_session_under_lock", sessStmt != nil && around, "`session := ul.session` between the test of the connection and the first Unlock: "+pos(cn))
		f.defBool("connect_lock_around_check", around, "first Lock before the test of the connection, `session := ul.session` after it, first Unlock after both: "+pos(cn))

		// the replacement branch: condition as a truth table over (err != nil, sessionLost, reused)
		var repl *ast.IfStmt
		after := false
		for _, st := range cn.Body.List {
			if st == ast.Stmt(firstOpenStream) {
				after = true
				continue
			}
			if ifs, ok := st.(*ast.IfStmt); ok && after && repl == nil && containsRecvCall(ifs.Body, recv, "open") {
				repl = ifs
			}
		}
		if repl == nil {
			die("Upstreams.Connect at %s: the branch that replaces a lost session (an `if` after the first openStream that calls %s.open) was not found", pos(cn), recv)
		}
		str("connect_replace_cond", normText(repl.Cond, roles), pos(repl))
		var table []bool
		for i := 0; i < 8; i++ {
			table = append(table, evalBool(repl.Cond, roles, map[string]bool{"err != nil": i&4 != 0, "sessionLost": i&2 != 0, "reused": i&1 != 0}))
		}
		f.raw("Definition connect_replace_table : list bool := " + boolList(table) + ". (* row 4*(err != nil) + 2*sessionLost + reused: " + pos(repl) + " *)\n")

		// inside it: Lock, the guard `ul.session == session` around close-and-open, `err = nil` otherwise, Unlock, error return, second openStream
		guard := false
		var guardIf *ast.IfStmt
		openTop := false
		for _, st := range repl.Body.List {
			if ifs, ok := st.(*ast.IfStmt); ok && containsRecvCall(ifs.Body, recv, "open") {
				if be, ok := ifs.Cond.(*ast.BinaryExpr); ok && be.Op == token.EQL {
					l, r := normText(be.X, roles), normText(be.Y, roles)
					if (l == "ul.session" && r == "session") || (l == "session" && r == "ul.session") {
						guard = true
						guardIf = ifs
					}
				}
				if !guard {
					str("connect_guard", normText(ifs.Cond, roles), pos(ifs))
				}
			} else if containsRecvCall(st, recv, "open") {
				openTop = true
			}
		}
		if guard {
			str("connect_guard", "ul.session == session", pos(guardIf))
		} else if openTop {
			str("connect_guard", "", "the re-open is not guarded: "+pos(repl))
		}
		f.defBool("connect_guard_compares_session", guard, "the re-open happens only under `ul.session == session`: "+pos(repl))
		clears := false
		if guardIf != nil && guardIf.Else != nil {
			if blk, ok := guardIf.Else.(*ast.BlockStmt); ok {
				for _, st := range blk.List {
					if assignsTo(st, roles, "err", "nil") {
						clears = true
					}
				}
			}
		}
		f.defBool("connect_else_clears_err", clears, "`err = nil` when somebody else has already replaced the session: "+pos(repl))
		closeBody := repl.Body
		if guardIf != nil {
			closeBody = guardIf.Body
		}
		// (the statements may have been moved into a helper method of the receiver called from here: look one level into those)
		type scoped struct {
			n     ast.Node
			roles map[string]string
		}
		scopes := []scoped{{closeBody, roles}}
		ast.Inspect(closeBody, func(n ast.Node) bool {
			if c, ok := n.(*ast.CallExpr); ok {
				if sel, ok := c.Fun.(*ast.SelectorExpr); ok {
					if id, ok := sel.X.(*ast.Ident); ok && id.Name == recv && sel.Sel.Name != "open" {
						if h := findFuncOpt(upstreamDir, "Upstreams", sel.Sel.Name); h != nil && h.Recv != nil {
							scopes = append(scopes, scoped{h.Body, map[string]string{recvName(h): "ul"}})
						}
					}
				}
			}
			return true
		})
		closesS, closesC, resetS, resetC := false, false, false, false
		for _, sc := range scopes {
			sc := sc
			ast.Inspect(sc.n, func(n ast.Node) bool {
				if c, ok := n.(*ast.CallExpr); ok && len(c.Args) == 1 && strings.Contains(exprText(c.Fun), "Close") {
					switch normText(c.Args[0], sc.roles) {
					case "ul.session":
						closesS = true
					case "ul.connection":
						closesC = true
					}
				}
				if st, ok := n.(ast.Stmt); ok {
					if assignsTo(st, sc.roles, "ul.session", "nil") {
						resetS = true
					}
					if assignsTo(st, sc.roles, "ul.connection", "nil") {
						resetC = true
					}
				}
				return true
			})
		}
		f.defBool("connect_replacement_closes_old", closesS && closesC && resetS && resetC, "the old session and connection are closed and reset before the re-open: "+pos(repl))
		secondOpen := false
		for _, st := range repl.Body.List {
			if as, ok := st.(*ast.AssignStmt); ok && len(as.Rhs) == 1 && recvCall(as.Rhs[0], recv, "openStream") != nil {
				secondOpen = true
			}
		}
		f.defBool("connect_second_open_stream", secondOpen, "the branch ends with a second openStream: "+pos(repl))

		// ------------------------------------------------------------------ openStream: its three return tuples
		os := findFunc(upstreamDir, "Upstreams", "openStream")
		orecv := recvName(os)
		oroles := map[string]string{orecv: "ul"}
		lastCall := ""
		rets := map[string][]string{}
		refusalCloses := false
		nilCheck := false
		sessLocals := map[string]bool{}
		for _, st := range os.Body.List {
			if as, ok := st.(*ast.AssignStmt); ok && len(as.Rhs) == 1 {
				if exprText(as.Rhs[0]) == orecv+".session" && len(as.Lhs) == 1 {
					sessLocals[exprText(as.Lhs[0])] = true
				}
				if c, ok := as.Rhs[0].(*ast.CallExpr); ok {
					if sel, ok := c.Fun.(*ast.SelectorExpr); ok {
						switch sel.Sel.Name {
						case "OpenStream":
							lastCall = "open"
						case "SelectProtoOrFail":
							lastCall = "select"
						}
					}
				}
			}
			if ifs, ok := st.(*ast.IfStmt); ok {
				c := normText(ifs.Cond, oroles)
				if lastCall == "" {
					// before the stream is opened: a test of the session for nil
					if be, ok := ifs.Cond.(*ast.BinaryExpr); ok && be.Op == token.EQL && exprText(be.Y) == "nil" &&
						(c == "ul.session == nil" || sessLocals[exprText(be.X)]) {
						if rs, ok := ifs.Body.List[len(ifs.Body.List)-1].(*ast.ReturnStmt); ok && len(rs.Results) == 3 {
							nilCheck = true
							rets["nosession"] = []string{exprText(rs.Results[0]), exprText(rs.Results[1]), exprText(rs.Results[2])}
						}
					}
					continue
				}
				if c != "err != nil" && c != "nil != err" {
					continue
				}
				rs, ok := ifs.Body.List[len(ifs.Body.List)-1].(*ast.ReturnStmt)
				if !ok || len(rs.Results) != 3 {
					die("openStream at %s: the error branch does not end in a three-valued return", pos(ifs))
				}
				rets[lastCall] = []string{exprText(rs.Results[0]), exprText(rs.Results[1]), exprText(rs.Results[2])}
				if lastCall == "select" {
					ast.Inspect(ifs.Body, func(n ast.Node) bool {
						if cl, ok := n.(*ast.CallExpr); ok && strings.Contains(exprText(cl.Fun), "Close") {
							refusalCloses = true
						}
						return true
					})
				}
			}
			if rs, ok := st.(*ast.ReturnStmt); ok && len(rs.Results) == 3 {
				rets["success"] = []string{exprText(rs.Results[0]), exprText(rs.Results[1]), exprText(rs.Results[2])}
			}
		}
		for _, k := range []string{"open", "select", "success"} {
			if rets[k] == nil {
				die("openStream at %s: the return for the case %q (stream cannot be opened / channel refused / success) was not found", pos(os), k)
			}
		}
		lit := func(k string) bool {
			switch rets[k][1] {
			case "true":
				return true
			case "false":
				return false
			}
			die("openStream at %s: the second component of the return for %q is %q, not a literal", pos(os), k, rets[k][1])
			return false
		}
		f.defBool("open_stream_lost_when_stream_fails", lit("open"), "second component of the return after a failed OpenStream: "+pos(os))
		f.defBool("open_stream_lost_when_refused", lit("select"), "second component of the return after a refused channel: "+pos(os))
		f.defBool("open_stream_lost_on_success", lit("success"), "second component of the final return: "+pos(os))
		f.defBool("open_stream_failures_return_no_stream", rets["open"][0] == "nil" && rets["select"][0] == "nil", "first component of both error returns is nil: "+pos(os))
		f.defBool("open_stream_refusal_closes_stream", refusalCloses, "the refused stream is closed: "+pos(os))
		f.defBool("open_stream_checks_nil_session", nilCheck, "a nil session is refused before OpenStream is called on it: "+pos(os))
		f.defBool("open_stream_lost_when_no_session", nilCheck && lit("nosession"), "second component of the return for a nil session: "+pos(os))
		f.raw("Definition open_stream_session_field_reads : N := " + itoa(strings.Count(exprText(os.Body), orecv+".session")) + ". (* how often openStream reads the shared field: " + pos(os) + " *)\n")

		// ------------------------------------------------------------------ open: upstreams in order, continue on a failed one
		op := findFunc(upstreamDir, "Upstreams", "open")
		precv := recvName(op)
		proles := map[string]string{precv: "ul"}
		var loop *ast.RangeStmt
		for _, st := range op.Body.List {
			if rs, ok := st.(*ast.RangeStmt); ok && loop == nil {
				loop = rs
			}
		}
		if loop == nil {
			die("open at %s: the loop over the upstreams was not found", pos(op))
		}
		str("open_ranges_over", normText(loop.X, proles), pos(loop))
		valName := ""
		if loop.Value != nil {
			valName = exprText(loop.Value)
		}
		cont, seenTest := false, false
		connectFirst, setsConn, retsSession := false, false, false
		for i, st := range loop.Body.List {
			if as, ok := st.(*ast.AssignStmt); ok && len(as.Rhs) == 1 && i == 0 {
				if c, ok := as.Rhs[0].(*ast.CallExpr); ok && exprText(c.Fun) == valName+".Connect" {
					connectFirst = true
				}
			}
			if ifs, ok := st.(*ast.IfStmt); ok && !seenTest {
				c := exprText(ifs.Cond)
				if c == "err != nil" || c == "nil != err" {
					seenTest = true
					if br, ok := ifs.Body.List[len(ifs.Body.List)-1].(*ast.BranchStmt); ok && br.Tok == token.CONTINUE {
						cont = true
					}
				}
			}
			if assignsTo(st, proles, "ul.connection", valName) {
				setsConn = true
			}
			if rs, ok := st.(*ast.ReturnStmt); ok && len(rs.Results) == 1 && normText(rs.Results[0], proles) == "ul.creteSession()" {
				retsSession = true
			}
		}
		if !seenTest {
			die("open at %s: the test of the error of Connect inside the loop was not found", pos(loop))
		}
		f.defBool("open_continues_on_error", cont, "a failed upstream is skipped with `continue`: "+pos(loop))
		f.defBool("open_loop_as_modelled", connectFirst && setsConn && retsSession, "err = a.Connect(..) first; on success ul.connection = a; return ul.creteSession(): "+pos(loop))
		lastRet, ok := op.Body.List[len(op.Body.List)-1].(*ast.ReturnStmt)
		f.defBool("open_fails_after_loop", ok && len(lastRet.Results) == 1 && exprText(lastRet.Results[0]) != "nil", "after the loop an error is returned: "+pos(op))

		// ------------------------------------------------------------------ Shutdown
		sd := findFunc(upstreamDir, "Upstreams", "Shutdown")
		srecv := recvName(sd)
		sroles := map[string]string{srecv: "ul"}
		var sdBody *ast.BlockStmt = sd.Body
		if len(sd.Body.List) == 1 {
			if g, ok := sd.Body.List[0].(*ast.GoStmt); ok {
				if fl, ok := g.Call.Fun.(*ast.FuncLit); ok {
					sdBody = fl.Body
				}
			}
		}
		var sdOps []string
		ast.Inspect(sdBody, func(n ast.Node) bool {
			if c, ok := n.(*ast.CallExpr); ok {
				if isMutexCall(c, srecv, "Lock") {
					sdOps = append(sdOps, "Lock")
				} else if isMutexCall(c, srecv, "Unlock") {
					sdOps = append(sdOps, "Unlock")
				} else if len(c.Args) == 1 && strings.Contains(exprText(c.Fun), "Close") {
					sdOps = append(sdOps, "close "+normText(c.Args[0], sroles))
				}
			}
			if st, ok := n.(ast.Stmt); ok {
				if assignsTo(st, sroles, "ul.session", "nil") {
					sdOps = append(sdOps, "ul.session = nil")
				}
				if assignsTo(st, sroles, "ul.connection", "nil") {
					sdOps = append(sdOps, "ul.connection = nil")
				}
			}
			return true
		})
		str("shutdown_ops", strings.Join(sdOps, ";"), pos(sd))

		// ------------------------------------------------------------------ listener: the forward address first
		hc := findFunc(listenerDir, "AbstractListener", "HandleConnection")
		lrecv := recvName(hc)
		directFirst := false
		if len(hc.Body.List) > 0 {
			if ifs, ok := hc.Body.List[0].(*ast.IfStmt); ok && ifs.Init == nil && ifs.Else == nil && len(ifs.Body.List) == 1 {
				if c, ok := ifs.Cond.(*ast.CallExpr); ok && recvCall(c, lrecv, "ConnectDirectly") != nil {
					if rs, ok := ifs.Body.List[0].(*ast.ReturnStmt); ok && len(rs.Results) == 0 {
						directFirst = true
					}
				}
			}
		}
		upAfter := false
		for _, st := range hc.Body.List[1:] {
			if containsText(st, lrecv+".Upstreams.Connect(") {
				upAfter = true
			}
		}
		f.defBool("handle_connection_direct_first", directFirst && upAfter, "`if l.ConnectDirectly(conn) { return }` is the first statement, Upstreams.Connect comes after it: "+pos(hc))
		cd := findFunc(listenerDir, "AbstractListener", "ConnectDirectly")
		var cdRets []string
		ast.Inspect(cd.Body, func(n ast.Node) bool {
			if rs, ok := n.(*ast.ReturnStmt); ok && len(rs.Results) == 1 {
				ctx := ""
				cdRets = append(cdRets, ctx+exprText(rs.Results[0]))
			}
			return true
		})
		str("connect_directly_returns", strings.Join(cdRets, ";"), pos(cd))
		trueUnderDialOk := false
		ast.Inspect(cd.Body, func(n ast.Node) bool {
			if ifs, ok := n.(*ast.IfStmt); ok && (exprText(ifs.Cond) == "err == nil" || exprText(ifs.Cond) == "nil == err") {
				if rs, ok := ifs.Body.List[len(ifs.Body.List)-1].(*ast.ReturnStmt); ok && len(rs.Results) == 1 && exprText(rs.Results[0]) == "true" {
					trueUnderDialOk = containsText(cd.Body, "net.Dial(")
				}
			}
			return true
		})
		nTrue := 0
		for _, r := range cdRets {
			if r == "true" {
				nTrue++
			}
		}
		f.defBool("connect_directly_true_only_after_dial", trueUnderDialOk && nTrue == 1, "the only `return true` is under `err == nil` after net.Dial: "+pos(cd))
		return f
	})
}

func exprOf(st ast.Stmt) ast.Node {
	if es, ok := st.(*ast.ExprStmt); ok {
		return es.X
	}
	return st
}

func containsText(n ast.Node, s string) bool { return strings.Contains(exprText(n), s) }

func itoa(i int) string {
	if i == 0 {
		return "0"
	}
	s := ""
	for i > 0 {
		s = string(rune('0'+i%10)) + s
		i /= 10
	}
	return s
}
